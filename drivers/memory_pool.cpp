// Driver TU: memory_pool / fixed_pool / memory_pool_allocator (preview feature).
#define TBB_PREVIEW_MEMORY_POOL 1
#include "oneapi/tbb/memory_pool.h"
#include "oneapi/tbb/scalable_allocator.h"
#include "oneapi/tbb/cache_aligned_allocator.h"
#include "oneapi/tbb/tbb_allocator.h"
#include <memory>
#include <vector>
namespace drv {
void pools() {
    tbb::memory_pool<std::allocator<char>> p;
    void* a = p.malloc(10);
    a = p.realloc(a, 20);
    p.free(a);
    p.recycle();
    static char buf[1024 * 1024];
    tbb::fixed_pool fp(buf, sizeof buf);
    void* b = fp.malloc(8);
    fp.free(b);
    typedef tbb::memory_pool_allocator<int> alloc_t;
    alloc_t al(p);
    std::vector<int, alloc_t> v(al);
    v.push_back(1);
    int* q = al.allocate(3);
    al.deallocate(q, 3);
    // the other C++ allocators of the library (same allocate(n) contract: n * sizeof(T) bytes or std::bad_alloc)
    tbb::scalable_allocator<long> sa; long* s1 = sa.allocate(2); sa.deallocate(s1, 2);
    tbb::cache_aligned_allocator<long> ca; long* c1 = ca.allocate(2); ca.deallocate(c1, 2);
    tbb::tbb_allocator<long> ta; long* t1 = ta.allocate(2); ta.deallocate(t1, 2);
}
} // namespace drv
