// Driver TU: memory_pool / fixed_pool / memory_pool_allocator (preview feature).
#define TBB_PREVIEW_MEMORY_POOL 1
#include "oneapi/tbb/memory_pool.h"
#include <memory>
#include <vector>
namespace drv {
void pools() {
    tbb::memory_pool<std::allocator<char>> p;
    void* a = p.malloc(10);
    a = p.realloc(a, 20);
    p.free(a);
    p.recycle();
    static char buf[1024 * 1024];
    tbb::fixed_pool fp(buf, sizeof buf);
    void* b = fp.malloc(8);
    fp.free(b);
    typedef tbb::memory_pool_allocator<int> alloc_t;
    alloc_t al(p);
    std::vector<int, alloc_t> v(al);
    v.push_back(1);
    int* q = al.allocate(3);
    al.deallocate(q, 3);
}
} // namespace drv
