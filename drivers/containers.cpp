// Driver TU: concurrent containers.  Explicit instantiation definitions instantiate every non-template member; member
// templates are instantiated by the calls below.
#define TBB_PREVIEW_CONCURRENT_LRU_CACHE 1
#include "oneapi/tbb/concurrent_queue.h"
#include "oneapi/tbb/concurrent_hash_map.h"
#include "oneapi/tbb/concurrent_vector.h"
#include "oneapi/tbb/concurrent_unordered_map.h"
#include "oneapi/tbb/concurrent_unordered_set.h"
#include "oneapi/tbb/concurrent_map.h"
#include "oneapi/tbb/concurrent_set.h"
#include "oneapi/tbb/concurrent_priority_queue.h"
#include "oneapi/tbb/enumerable_thread_specific.h"
#include "oneapi/tbb/combinable.h"
#include <functional>
#include <string>
#include <utility>
#include <vector>

template class tbb::concurrent_queue<int>;
template class tbb::concurrent_queue<std::string>;
template class tbb::concurrent_bounded_queue<int>;
template class tbb::concurrent_bounded_queue<std::string>;
template class tbb::concurrent_hash_map<int, int>;
template class tbb::concurrent_hash_map<std::string, std::string>;
template class tbb::concurrent_vector<int>;
template class tbb::concurrent_vector<std::string>;
template class tbb::concurrent_priority_queue<int>;
template class tbb::concurrent_priority_queue<std::string>;
template class tbb::concurrent_unordered_map<int, int>;
template class tbb::concurrent_unordered_multimap<int, int>;
template class tbb::concurrent_unordered_set<int>;
template class tbb::concurrent_unordered_multiset<int>;
template class tbb::concurrent_map<int, int>;
template class tbb::concurrent_multimap<int, int>;
template class tbb::concurrent_set<int>;
template class tbb::concurrent_multiset<int>;
// the implementation lives in base class templates: an explicit instantiation of the derived class does not instantiate
// their members (copy / move / swap / ranges / node handles), so the bases are instantiated explicitly as well
namespace d1 = tbb::detail::d1;
namespace d2 = tbb::detail::d2;
typedef tbb::tbb_allocator<std::pair<const int, int>> pair_alloc;
template class d2::concurrent_unordered_base<d2::concurrent_unordered_map_traits<int, int, std::hash<int>, std::equal_to<int>, pair_alloc, false>>;
template class d2::concurrent_unordered_base<d2::concurrent_unordered_map_traits<int, int, std::hash<int>, std::equal_to<int>, pair_alloc, true>>;
template class d2::concurrent_unordered_base<d2::concurrent_unordered_set_traits<int, std::hash<int>, std::equal_to<int>, tbb::tbb_allocator<int>, false>>;
template class d2::concurrent_unordered_base<d2::concurrent_unordered_set_traits<int, std::hash<int>, std::equal_to<int>, tbb::tbb_allocator<int>, true>>;
template class d2::concurrent_skip_list<d2::map_traits<int, int, std::less<int>, d2::concurrent_geometric_level_generator<32>, pair_alloc, false>>;
template class d2::concurrent_skip_list<d2::map_traits<int, int, std::less<int>, d2::concurrent_geometric_level_generator<32>, pair_alloc, true>>;
template class d2::concurrent_skip_list<d2::set_traits<int, std::less<int>, d2::concurrent_geometric_level_generator<32>, tbb::tbb_allocator<int>, false>>;
template class d2::concurrent_skip_list<d2::set_traits<int, std::less<int>, d2::concurrent_geometric_level_generator<32>, tbb::tbb_allocator<int>, true>>;
template class tbb::enumerable_thread_specific<int>;
template class tbb::enumerable_thread_specific<std::string, tbb::cache_aligned_allocator<std::string>, tbb::ets_key_per_instance>;
template class tbb::combinable<int>;

namespace drv {
void queues() {
    tbb::concurrent_queue<std::string> q;
    q.push(std::string("a"));
    std::string s("b");
    q.push(s);
    q.emplace("c");
    (void)q.try_pop(s);
    (void)q.unsafe_size();
    (void)q.empty();
    q.clear();
    tbb::concurrent_queue<std::string> q2(q);
    q2 = q;
    tbb::concurrent_bounded_queue<std::string> b;
    b.set_capacity(4);
    b.push(s);
    b.push(std::string("x"));
    b.emplace("y");
    (void)b.try_push(s);
    (void)b.try_push(std::string("z"));
    (void)b.try_emplace("w");
    b.pop(s);
    (void)b.try_pop(s);
    b.abort();
    (void)b.size();
    b.clear();
}
void hash_map() {
    typedef tbb::concurrent_hash_map<std::string, std::string> M;
    M m;
    M::accessor a;
    M::const_accessor ca;
    (void)m.insert(a, std::string("k"));
    (void)m.insert(ca, std::string("k"));
    (void)m.insert(a, std::make_pair(std::string("k"), std::string("v")));
    (void)m.insert(ca, std::make_pair(std::string("k"), std::string("v")));
    (void)m.insert(std::make_pair(std::string("k"), std::string("v")));
    (void)m.emplace(a, "k", "v");
    (void)m.emplace(ca, "k", "v");
    (void)m.emplace("k", "v");
    (void)m.find(a, std::string("k"));
    (void)m.find(ca, std::string("k"));
    (void)m.count(std::string("k"));
    (void)m.erase(std::string("k"));
    (void)m.erase(a);
    (void)m.erase(ca);
    m.rehash(64);
    m.clear();
    M m2(m);
    m2 = m;
    m2.swap(m);
}
void vectors() {
    tbb::concurrent_vector<std::string> v;
    v.push_back(std::string("a"));
    std::string s("b");
    v.push_back(s);
    v.emplace_back("c");
    v.grow_by(3);
    v.grow_by(3, s);
    const char* arr[2] = {"x", "y"};
    v.grow_by(arr, arr + 2);
    v.grow_by({std::string("i"), std::string("j")});
    v.grow_to_at_least(10);
    v.grow_to_at_least(12, s);
    (void)v[3];
    (void)v.at(2);
    v.reserve(100);
    v.shrink_to_fit();
    v.resize(5);
    v.resize(7, s);
    v.clear();
    tbb::concurrent_vector<std::string> v2(v);
    v2 = v;
    v2.assign(3, s);
    v2.swap(v);
}
template <typename C>
void assoc_map() {
    C c;
    (void)c.insert(std::make_pair(1, 2));
    typename C::value_type vt(3, 4);
    (void)c.insert(vt);
    (void)c.emplace(5, 6);
    (void)c.find(1);
    (void)c.count(1);
    (void)c.contains(1);
    (void)c.equal_range(1);
    for (auto it = c.begin(); it != c.end(); ++it) {}
    (void)c.unsafe_erase(1);
    C d;
    c.merge(d);
    c.clear();
}
template <typename C>
void assoc_set() {
    C c;
    (void)c.insert(1);
    (void)c.emplace(5);
    (void)c.find(1);
    (void)c.count(1);
    (void)c.contains(1);
    for (auto it = c.begin(); it != c.end(); ++it) {}
    (void)c.unsafe_erase(1);
    C d;
    c.merge(d);
    c.clear();
}
void assoc() {
    assoc_map<tbb::concurrent_unordered_map<int, int>>();
    assoc_map<tbb::concurrent_unordered_multimap<int, int>>();
    assoc_set<tbb::concurrent_unordered_set<int>>();
    assoc_set<tbb::concurrent_unordered_multiset<int>>();
    assoc_map<tbb::concurrent_map<int, int>>();
    assoc_map<tbb::concurrent_multimap<int, int>>();
    assoc_set<tbb::concurrent_set<int>>();
    assoc_set<tbb::concurrent_multiset<int>>();
    tbb::concurrent_unordered_map<int, int> um;
    um[1] = 2;
    (void)um.at(1);
    um.rehash(128);
    tbb::concurrent_map<int, int> om;
    om[1] = 2;
    (void)om.at(1);
    (void)om.lower_bound(1);
    (void)om.upper_bound(1);
}
void pq() {
    tbb::concurrent_priority_queue<std::string> q;
    q.push(std::string("a"));
    std::string s("b");
    q.push(s);
    q.emplace("c");
    (void)q.try_pop(s);
    (void)q.size();
    q.clear();
    tbb::concurrent_priority_queue<std::string> q2(q);
    q2 = q;
}
// transparent (heterogeneous) lookup overloads
struct teq {
    using is_transparent = void;
    template <typename A, typename B> bool operator()(const A& a, const B& b) const { return a == b; }
};
struct tless {
    using is_transparent = void;
    template <typename A, typename B> bool operator()(const A& a, const B& b) const { return a < b; }
};
struct thash {
    using is_transparent = void;
    using transparent_key_equal = teq;
    std::size_t operator()(int k) const { return std::size_t(k); }
    std::size_t operator()(long k) const { return std::size_t(k); }
};
template <typename C>
void iterate_and_ranges(C& c) {
    const C& cc = c;
    auto r = c.range();
    auto cr = cc.range();
    (void)r.empty();
    (void)r.is_divisible();
    (void)cr.is_divisible();
    decltype(r) r2(r, tbb::split());
    decltype(cr) cr2(cr, tbb::split());
    for (auto it = r.begin(); it != r.end(); ++it) {}
    for (auto it = cr2.begin(); it != cr2.end(); it++) {}
    (void)r2.grainsize();
    (void)(c == cc);
    (void)(c != cc);
    C moved(std::move(c));
    C assigned;
    assigned = std::move(moved);
    assigned.swap(c);
    swap(assigned, c);
}
void more_hash_map() {
    typedef tbb::concurrent_hash_map<int, int> M;
    M m;
    const M& cm = m;
    iterate_and_ranges(m);
    (void)m.equal_range(1);
    (void)cm.equal_range(1);
    for (auto it = m.begin(); it != m.end(); ++it) { (void)it->first; }
    M m3(m, M::allocator_type());
    M m4(std::move(m3), M::allocator_type());
    std::vector<std::pair<const int, int>> v;
    M m5(v.begin(), v.end());
    M m6{{1, 2}, {3, 4}};
    m6 = {{5, 6}};
    m6.insert(v.begin(), v.end());
    m6.insert({{7, 8}});
    typedef tbb::concurrent_hash_map<int, int, d1::tbb_hash_compare<int>> M2;
    M2 m7(16);
    M2 m8(16, d1::tbb_hash_compare<int>());
}
void more_vectors() {
    typedef tbb::concurrent_vector<int> V;
    V v(10, 1);
    const V& cv = v;
    iterate_and_ranges(v);
    V::iterator it = v.begin();
    V::const_iterator cit = cv.begin();
    it += 2; it -= 1; (void)(it + 1); (void)(1 + it); (void)(it - 1); (void)it[1]; --it; it--; (void)(it - it);
    (void)(it < it); (void)(it > it); (void)(it <= it); (void)(it >= it); (void)(cit == cit);
    (void)it.operator->();
    (void)(v < cv); (void)(v <= cv); (void)(v > cv); (void)(v >= cv);
    int arr[2] = {1, 2};
    v.assign(arr, arr + 2);
    v.assign({1, 2, 3});
    V v3(v, V::allocator_type());
    V v4(std::move(v3), V::allocator_type());
    V v5(arr, arr + 2);
    V v6{1, 2};
    v6 = {3};
    (void)v.front(); (void)v.back(); (void)cv.front(); (void)cv.back();
    (void)v.rbegin(); (void)v.rend(); (void)cv.crbegin();
    (void)v.capacity(); (void)v.max_size(); (void)v.empty();
}
template <typename C, typename V>
void node_handles(V value) {
    C c, d;
    (void)c.insert(value);
    auto nh = c.unsafe_extract(c.begin());
    (void)nh.empty();
    (void)d.insert(std::move(nh));
    auto nh2 = d.unsafe_extract(d.find(typename C::key_type()));
    (void)d.insert(d.begin(), std::move(nh2));
    (void)c.insert(c.begin(), value);
    (void)c.emplace_hint(c.begin(), value);
    (void)c.unsafe_erase(c.begin());
    (void)c.unsafe_erase(c.begin(), c.end());
    std::vector<V> vs;
    c.insert(vs.begin(), vs.end());
    c.insert({value});
    iterate_and_ranges(c);
    C e(c, typename C::allocator_type());
    C f(std::move(e), typename C::allocator_type());
    c.merge(std::move(d));
}
void more_assoc() {
    node_handles<tbb::concurrent_unordered_map<int, int>>(std::make_pair(1, 2));
    node_handles<tbb::concurrent_unordered_multimap<int, int>>(std::make_pair(1, 2));
    node_handles<tbb::concurrent_unordered_set<int>>(1);
    node_handles<tbb::concurrent_unordered_multiset<int>>(1);
    node_handles<tbb::concurrent_map<int, int>>(std::make_pair(1, 2));
    node_handles<tbb::concurrent_multimap<int, int>>(std::make_pair(1, 2));
    node_handles<tbb::concurrent_set<int>>(1);
    node_handles<tbb::concurrent_multiset<int>>(1);
    tbb::concurrent_unordered_map<int, int, thash> tu;
    (void)tu.find(1L); (void)tu.count(1L); (void)tu.contains(1L); (void)tu.equal_range(1L); (void)tu.unsafe_erase(1L); (void)tu.unsafe_extract(1L);
    tu.reserve(100); tu.max_load_factor(2.0f); (void)tu.load_factor(); (void)tu.unsafe_bucket(1); (void)tu.unsafe_bucket_size(0);
    (void)tu.unsafe_begin(0); (void)tu.unsafe_end(0); (void)tu.unsafe_cbegin(0); (void)tu.unsafe_cend(0); (void)tu.hash_function(); (void)tu.key_eq();
    tbb::concurrent_unordered_set<int, thash> ts;
    (void)ts.find(1L); (void)ts.count(1L); (void)ts.contains(1L);
    tbb::concurrent_map<int, int, tless> tm;
    (void)tm.find(1L); (void)tm.count(1L); (void)tm.contains(1L); (void)tm.lower_bound(1L); (void)tm.upper_bound(1L); (void)tm.equal_range(1L);
    (void)tm.unsafe_erase(1L); (void)tm.unsafe_extract(1L);
    tbb::concurrent_set<int, tless> tset;
    (void)tset.find(1L); (void)tset.contains(1L); (void)tset.lower_bound(1L);
    tbb::concurrent_unordered_map<int, int> um2(16);
    (void)um2.emplace(std::piecewise_construct, std::forward_as_tuple(1), std::forward_as_tuple(2));
    (void)um2.insert(std::pair<int, int>(1, 2));
}
void more_queues() {
    tbb::concurrent_queue<int> q;
    int arr[2] = {1, 2};
    tbb::concurrent_queue<int> q2(arr, arr + 2);
    tbb::concurrent_queue<int> q3(std::move(q2));
    q3 = std::move(q);
    q3.swap(q);
    for (auto it = q.unsafe_begin(); it != q.unsafe_end(); ++it) {}
    tbb::concurrent_bounded_queue<int> b(arr, arr + 2);
    tbb::concurrent_bounded_queue<int> b2(std::move(b));
    b2 = std::move(b);
    b2.swap(b);
    (void)b.capacity(); (void)b.empty();
    for (auto it = b.unsafe_begin(); it != b.unsafe_end(); ++it) {}
    tbb::concurrent_priority_queue<int> pq(arr, arr + 2);
    tbb::concurrent_priority_queue<int> pq2(std::move(pq));
    pq2 = std::move(pq);
    pq2.swap(pq);
    pq2.assign(arr, arr + 2);
    pq2 = {1, 2};
    (void)pq2.empty();
}
void tls() {
    typedef tbb::enumerable_thread_specific<std::string, tbb::cache_aligned_allocator<std::string>, tbb::ets_key_per_instance> E;
    E e(std::string("a"));
    const E& ce = e;
    (void)e.local();
    for (auto it = e.begin(); it != e.end(); ++it) { (void)it->size(); }
    for (auto it = ce.begin(); it != ce.end(); it++) {}
    E::iterator it = e.begin();
    it += 1; it -= 1; (void)(it + 1); (void)(1 + it); (void)(it - 1); (void)it[0]; --it; it--; (void)(it - it);
    (void)(it < it); (void)(it > it); (void)(it <= it); (void)(it >= it); (void)(it == it); (void)(it != it);
    auto r = e.range();
    auto cr = ce.range();
    decltype(r) r2(r, tbb::split());
    (void)cr.empty();
    (void)e.size(); (void)e.empty();
    E e2(std::move(e));
    E e3;
    e3 = std::move(e2);
    e3 = ce;
    tbb::enumerable_thread_specific<std::string> other;
    E e4(other);
    E e5(std::move(other));
    e4 = other;
    e4 = std::move(other);
    E e6(3, 'x');
    tbb::enumerable_thread_specific<std::vector<int>> nested;
    nested.local().push_back(1);
    auto f = tbb::flatten2d(nested);
    for (auto i = f.begin(); i != f.end(); ++i) { (void)*i; }
    (void)f.size();
    const auto& cn = nested;
    auto cf = tbb::flatten2d(cn);
    for (auto i = cf.begin(); i != cf.end(); i++) {}
    auto f2 = tbb::flatten2d(nested, nested.begin(), nested.end());
    (void)(f2.begin() == f2.end());
    tbb::combinable<std::string> c;
    tbb::combinable<std::string> c2(c);
    c2 = c;
    tbb::combinable<std::string> c3(std::move(c));
    c3 = std::move(c2);
}
} // namespace drv
