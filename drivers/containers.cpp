// Driver TU: concurrent containers.  Explicit instantiation definitions instantiate every non-template member; member
// templates are instantiated by the calls below.
#define TBB_PREVIEW_CONCURRENT_LRU_CACHE 1
#include "oneapi/tbb/concurrent_queue.h"
#include "oneapi/tbb/concurrent_hash_map.h"
#include "oneapi/tbb/concurrent_vector.h"
#include "oneapi/tbb/concurrent_unordered_map.h"
#include "oneapi/tbb/concurrent_unordered_set.h"
#include "oneapi/tbb/concurrent_map.h"
#include "oneapi/tbb/concurrent_set.h"
#include "oneapi/tbb/concurrent_priority_queue.h"
#include <string>
#include <utility>

template class tbb::concurrent_queue<int>;
template class tbb::concurrent_queue<std::string>;
template class tbb::concurrent_bounded_queue<int>;
template class tbb::concurrent_bounded_queue<std::string>;
template class tbb::concurrent_hash_map<int, int>;
template class tbb::concurrent_hash_map<std::string, std::string>;
template class tbb::concurrent_vector<int>;
template class tbb::concurrent_vector<std::string>;
template class tbb::concurrent_priority_queue<int>;
template class tbb::concurrent_priority_queue<std::string>;
template class tbb::concurrent_unordered_map<int, int>;
template class tbb::concurrent_unordered_multimap<int, int>;
template class tbb::concurrent_unordered_set<int>;
template class tbb::concurrent_unordered_multiset<int>;
template class tbb::concurrent_map<int, int>;
template class tbb::concurrent_multimap<int, int>;
template class tbb::concurrent_set<int>;
template class tbb::concurrent_multiset<int>;

namespace drv {
void queues() {
    tbb::concurrent_queue<std::string> q;
    q.push(std::string("a"));
    std::string s("b");
    q.push(s);
    q.emplace("c");
    (void)q.try_pop(s);
    (void)q.unsafe_size();
    (void)q.empty();
    q.clear();
    tbb::concurrent_queue<std::string> q2(q);
    q2 = q;
    tbb::concurrent_bounded_queue<std::string> b;
    b.set_capacity(4);
    b.push(s);
    b.push(std::string("x"));
    b.emplace("y");
    (void)b.try_push(s);
    (void)b.try_push(std::string("z"));
    (void)b.try_emplace("w");
    b.pop(s);
    (void)b.try_pop(s);
    b.abort();
    (void)b.size();
    b.clear();
}
void hash_map() {
    typedef tbb::concurrent_hash_map<std::string, std::string> M;
    M m;
    M::accessor a;
    M::const_accessor ca;
    (void)m.insert(a, std::string("k"));
    (void)m.insert(ca, std::string("k"));
    (void)m.insert(a, std::make_pair(std::string("k"), std::string("v")));
    (void)m.insert(ca, std::make_pair(std::string("k"), std::string("v")));
    (void)m.insert(std::make_pair(std::string("k"), std::string("v")));
    (void)m.emplace(a, "k", "v");
    (void)m.emplace(ca, "k", "v");
    (void)m.emplace("k", "v");
    (void)m.find(a, std::string("k"));
    (void)m.find(ca, std::string("k"));
    (void)m.count(std::string("k"));
    (void)m.erase(std::string("k"));
    (void)m.erase(a);
    (void)m.erase(ca);
    m.rehash(64);
    m.clear();
    M m2(m);
    m2 = m;
    m2.swap(m);
}
void vectors() {
    tbb::concurrent_vector<std::string> v;
    v.push_back(std::string("a"));
    std::string s("b");
    v.push_back(s);
    v.emplace_back("c");
    v.grow_by(3);
    v.grow_by(3, s);
    const char* arr[2] = {"x", "y"};
    v.grow_by(arr, arr + 2);
    v.grow_by({std::string("i"), std::string("j")});
    v.grow_to_at_least(10);
    v.grow_to_at_least(12, s);
    (void)v[3];
    (void)v.at(2);
    v.reserve(100);
    v.shrink_to_fit();
    v.resize(5);
    v.resize(7, s);
    v.clear();
    tbb::concurrent_vector<std::string> v2(v);
    v2 = v;
    v2.assign(3, s);
    v2.swap(v);
}
template <typename C>
void assoc_map() {
    C c;
    (void)c.insert(std::make_pair(1, 2));
    typename C::value_type vt(3, 4);
    (void)c.insert(vt);
    (void)c.emplace(5, 6);
    (void)c.find(1);
    (void)c.count(1);
    (void)c.contains(1);
    (void)c.equal_range(1);
    for (auto it = c.begin(); it != c.end(); ++it) {}
    (void)c.unsafe_erase(1);
    C d;
    c.merge(d);
    c.clear();
}
template <typename C>
void assoc_set() {
    C c;
    (void)c.insert(1);
    (void)c.emplace(5);
    (void)c.find(1);
    (void)c.count(1);
    (void)c.contains(1);
    for (auto it = c.begin(); it != c.end(); ++it) {}
    (void)c.unsafe_erase(1);
    C d;
    c.merge(d);
    c.clear();
}
void assoc() {
    assoc_map<tbb::concurrent_unordered_map<int, int>>();
    assoc_map<tbb::concurrent_unordered_multimap<int, int>>();
    assoc_set<tbb::concurrent_unordered_set<int>>();
    assoc_set<tbb::concurrent_unordered_multiset<int>>();
    assoc_map<tbb::concurrent_map<int, int>>();
    assoc_map<tbb::concurrent_multimap<int, int>>();
    assoc_set<tbb::concurrent_set<int>>();
    assoc_set<tbb::concurrent_multiset<int>>();
    tbb::concurrent_unordered_map<int, int> um;
    um[1] = 2;
    (void)um.at(1);
    um.rehash(128);
    tbb::concurrent_map<int, int> om;
    om[1] = 2;
    (void)om.at(1);
    (void)om.lower_bound(1);
    (void)om.upper_bound(1);
}
void pq() {
    tbb::concurrent_priority_queue<std::string> q;
    q.push(std::string("a"));
    std::string s("b");
    q.push(s);
    q.emplace("c");
    (void)q.try_pop(s);
    (void)q.size();
    q.clear();
    tbb::concurrent_priority_queue<std::string> q2(q);
    q2 = q;
}
} // namespace drv
