// Driver TU for library-internal class templates (needs the src/tbb include path and the library build macros):
// explicit instantiation makes every non-template member of the monitor visible, used or not.
#include "concurrent_monitor.h"
#include "thread_control_monitor.h"
#include "task_stream.h"
#include "arena.h"

template class tbb::detail::r1::concurrent_monitor_base<std::uintptr_t>;
template class tbb::detail::r1::concurrent_monitor_base<tbb::detail::r1::market_context>;
template class tbb::detail::r1::task_stream<tbb::detail::r1::front_accessor>;
template class tbb::detail::r1::task_stream<tbb::detail::r1::back_nonnull_accessor>;
