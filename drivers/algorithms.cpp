// Driver TU: instantiates the header-only parallel algorithms so that their task classes, partitioners and ranges
// appear (as template instantiations) in the fact base.  Never executed, never linked.  C++11 compatible.
#include "oneapi/tbb/parallel_for.h"
#include "oneapi/tbb/parallel_reduce.h"
#include "oneapi/tbb/parallel_scan.h"
#include "oneapi/tbb/parallel_sort.h"
#include "oneapi/tbb/parallel_for_each.h"
#include "oneapi/tbb/parallel_invoke.h"
#include "oneapi/tbb/parallel_pipeline.h"
#include "oneapi/tbb/blocked_range.h"
#include "oneapi/tbb/blocked_range2d.h"
#include "oneapi/tbb/blocked_range3d.h"
#include "oneapi/tbb/blocked_nd_range.h"
#include "oneapi/tbb/task_group.h"
#include "oneapi/tbb/task_arena.h"
#include "oneapi/tbb/task.h"
#include "oneapi/tbb/collaborative_call_once.h"
#include "oneapi/tbb/enumerable_thread_specific.h"
#include "oneapi/tbb/combinable.h"
#include "oneapi/tbb/global_control.h"
#include "oneapi/tbb/task_scheduler_observer.h"
#include <vector>
#include <list>
#include <string>
#include <functional>

namespace drv {

struct ForBody {
    void operator()(const tbb::blocked_range<int>&) const {}
    void operator()(const tbb::blocked_range2d<int, int>&) const {}
    void operator()(const tbb::blocked_range3d<int, int, int>&) const {}
    void operator()(const tbb::blocked_nd_range<int, 4>&) const {}
};

struct SumBody {
    long sum;
    SumBody() : sum(0) {}
    SumBody(SumBody&, tbb::split) : sum(0) {}
    void operator()(const tbb::blocked_range<int>& r) { for (int i = r.begin(); i != r.end(); ++i) sum += i; }
    void join(SumBody& rhs) { sum += rhs.sum; }
};

struct ScanBody {
    long sum;
    ScanBody() : sum(0) {}
    ScanBody(ScanBody&, tbb::split) : sum(0) {}
    template <typename Tag>
    void operator()(const tbb::blocked_range<int>& r, Tag) { for (int i = r.begin(); i != r.end(); ++i) sum += i; }
    void reverse_join(ScanBody& a) { sum = a.sum + sum; }
    void assign(ScanBody& b) { sum = b.sum; }
};

template <typename P>
void loops_with(P& p) {
    tbb::task_group_context ctx;
    tbb::parallel_for(tbb::blocked_range<int>(0, 100, 3), ForBody(), p);
    tbb::parallel_for(tbb::blocked_range<int>(0, 100, 3), ForBody(), p, ctx);
    tbb::parallel_for(tbb::blocked_range2d<int, int>(0, 10, 2, 0, 10, 2), ForBody(), p);
    tbb::parallel_for(tbb::blocked_range3d<int, int, int>(0, 10, 2, 0, 10, 2, 0, 5, 1), ForBody(), p);
    tbb::parallel_for(tbb::blocked_nd_range<int, 4>({0, 4}, {0, 4}, {0, 4}, {0, 4}), ForBody(), p);
    tbb::parallel_for(0, 100, 2, [](int) {}, p);
    SumBody sb;
    tbb::parallel_reduce(tbb::blocked_range<int>(0, 100), sb, p);
    tbb::parallel_reduce(tbb::blocked_range<int>(0, 100), sb, p, ctx);
    long r = tbb::parallel_reduce(
        tbb::blocked_range<int>(0, 100), 0L,
        [](const tbb::blocked_range<int>& rr, long v) -> long { return v + rr.size(); },
        [](long a, long b) -> long { return a + b; }, p);
    std::string s = tbb::parallel_reduce(
        tbb::blocked_range<int>(0, 100), std::string(),
        [](const tbb::blocked_range<int>&, std::string v) -> std::string { return v + "x"; },
        [](std::string a, std::string b) -> std::string { return a + b; }, p);
    (void)r; (void)s;
}

template <typename P>
void det_with(const P& p) {
    SumBody sb;
    tbb::task_group_context ctx;
    tbb::parallel_deterministic_reduce(tbb::blocked_range<int>(0, 100, 5), sb, p);
    tbb::parallel_deterministic_reduce(tbb::blocked_range<int>(0, 100, 5), sb, p, ctx);
    double r = tbb::parallel_deterministic_reduce(
        tbb::blocked_range<int>(0, 100, 5), 0.0,
        [](const tbb::blocked_range<int>& rr, double v) -> double { return v + rr.size(); },
        [](double a, double b) -> double { return a + b; }, p);
    (void)r;
}

template <typename P>
void scan_with(const P& p) {
    ScanBody b;
    tbb::parallel_scan(tbb::blocked_range<int>(0, 100, 4), b, p);
}

void algorithms() {
    tbb::simple_partitioner sp;
    tbb::auto_partitioner ap;
    tbb::static_partitioner stp;
    tbb::affinity_partitioner afp;
    loops_with(sp);
    loops_with(ap);
    loops_with(stp);
    loops_with(afp);
    tbb::parallel_for(tbb::blocked_range<int>(0, 100), ForBody());
    SumBody sb;
    tbb::parallel_reduce(tbb::blocked_range<int>(0, 100), sb);
    det_with(sp);
    det_with(stp);
    tbb::parallel_deterministic_reduce(tbb::blocked_range<int>(0, 100, 5), sb);
    scan_with(sp);
    scan_with(ap);
    ScanBody scb;
    tbb::parallel_scan(tbb::blocked_range<int>(0, 100, 4), scb);
    long tot = tbb::parallel_scan(
        tbb::blocked_range<int>(0, 100), 0L,
        [](const tbb::blocked_range<int>& r, long sum, bool) -> long { return sum + r.size(); },
        [](long a, long b) -> long { return a + b; });
    (void)tot;

    std::vector<int> v(1000);
    tbb::parallel_sort(v.begin(), v.end());
    tbb::parallel_sort(v.begin(), v.end(), std::greater<int>());
    tbb::parallel_sort(v);

    std::list<int> l(100);
    tbb::parallel_for_each(v.begin(), v.end(), [](int&) {});
    tbb::parallel_for_each(l.begin(), l.end(), [](int&) {});
    tbb::parallel_for_each(v.begin(), v.end(), [](int& x, tbb::feeder<int>& f) { if (x > 0) f.add(x - 1); });
    tbb::parallel_for_each(l.begin(), l.end(), [](int& x, tbb::feeder<int>& f) { if (x > 0) f.add(x - 1); });
    tbb::parallel_for_each(v, [](int&) {});
    tbb::task_group_context ctx;
    tbb::parallel_for_each(v.begin(), v.end(), [](int&) {}, ctx);
    // input-iterator flavour
    struct InIt {
        typedef std::input_iterator_tag iterator_category;
        typedef int value_type;
        typedef std::ptrdiff_t difference_type;
        typedef int* pointer;
        typedef int& reference;
        int* p;
        int& operator*() const { return *p; }
        InIt& operator++() { ++p; return *this; }
        InIt operator++(int) { InIt t = *this; ++p; return t; }
        bool operator==(const InIt& o) const { return p == o.p; }
        bool operator!=(const InIt& o) const { return p != o.p; }
    };
    InIt b0{v.data()}, e0{v.data() + v.size()};
    tbb::parallel_for_each(b0, e0, [](int) {});
    tbb::parallel_for_each(b0, e0, [](int x, tbb::feeder<int>& f) { if (x > 0) f.add(x - 1); });

    auto f = [] {};
    tbb::parallel_invoke(f, f);
    tbb::parallel_invoke(f, f, f);
    tbb::parallel_invoke(f, f, f, f);
    tbb::parallel_invoke(f, f, f, f, f);
    tbb::parallel_invoke(f, f, f, f, f, f, f);
    tbb::parallel_invoke(f, f, f, f, f, f, f, f, f, f);
    tbb::parallel_invoke(f, f, f, ctx);

    int n = 0;
    tbb::parallel_pipeline(
        4,
        tbb::make_filter<void, int>(tbb::filter_mode::serial_in_order,
                                    [&](tbb::flow_control& fc) -> int { if (n++ > 10) { fc.stop(); return 0; } return n; }) &
            tbb::make_filter<int, std::string>(tbb::filter_mode::parallel, [](int i) -> std::string { return std::string(i, 'x'); }) &
            tbb::make_filter<std::string, int*>(tbb::filter_mode::serial_out_of_order, [](std::string) -> int* { return nullptr; }) &
            tbb::make_filter<int*, void>(tbb::filter_mode::serial_in_order, [](int*) {}));
    tbb::parallel_pipeline(
        4,
        tbb::make_filter<void, int>(tbb::filter_mode::serial_in_order,
                                    [&](tbb::flow_control& fc) -> int { fc.stop(); return 0; }) &
            tbb::make_filter<int, void>(tbb::filter_mode::parallel, [](int) {}),
        ctx);
    // filter objects: copy, assignment, composition in place, clear; a filter chain run from a named object
    tbb::filter<void, int> fin = tbb::make_filter<void, int>(tbb::filter_mode::serial_in_order,
                                                           [&](tbb::flow_control& fc) -> int { fc.stop(); return 0; });
    tbb::filter<int, void> fout(tbb::filter_mode::parallel, [](int) {});
    tbb::filter<void, int> fin2(fin);
    fin2 = fin;
    tbb::filter<int, int> mid = tbb::make_filter<int, int>(tbb::filter_mode::serial_out_of_order, [](int i) -> int { return i; });
    mid &= tbb::make_filter<int, int>(tbb::filter_mode::parallel, [](int i) -> int { return i; });
    tbb::filter<void, void> whole = fin2 & mid & fout;
    tbb::parallel_pipeline(2, whole);
    whole.clear();
    // feeder with a class-type item added by copy and by move
    std::vector<std::string> vs(3, std::string("ab"));
    tbb::parallel_for_each(vs.begin(), vs.end(), [](std::string& x, tbb::feeder<std::string>& f) {
        if (x.size() > 1) { std::string y(x.substr(1)); f.add(y); f.add(std::move(y)); }
    });
}

// Every public overload of the loop / reduction / scan / sort entry points at least once (rule C05/C06 "overload family
// agreement" compares what each overload dispatches to; facts.templates reports overloads that no driver instantiates).
void api_overloads() {
    tbb::simple_partitioner sp;
    tbb::auto_partitioner ap;
    tbb::static_partitioner stp;
    tbb::affinity_partitioner afp;
    tbb::task_group_context ctx;
    tbb::blocked_range<int> r(0, 100, 4);
    auto idx = [](int) {};
    // parallel_for, range form without partitioner + context
    tbb::parallel_for(r, ForBody(), ctx);
    // index forms: (first,last,step,f) and (first,last,f), each x {none, 4 partitioners} x {no context, context}
    tbb::parallel_for(0, 100, 2, idx);
    tbb::parallel_for(0, 100, 2, idx, sp);
    tbb::parallel_for(0, 100, 2, idx, ap);
    tbb::parallel_for(0, 100, 2, idx, stp);
    tbb::parallel_for(0, 100, 2, idx, afp);
    tbb::parallel_for(0, 100, idx);
    tbb::parallel_for(0, 100, idx, sp);
    tbb::parallel_for(0, 100, idx, ap);
    tbb::parallel_for(0, 100, idx, stp);
    tbb::parallel_for(0, 100, idx, afp);
    tbb::parallel_for(0, 100, 2, idx, ctx);
    tbb::parallel_for(0, 100, 2, idx, sp, ctx);
    tbb::parallel_for(0, 100, 2, idx, ap, ctx);
    tbb::parallel_for(0, 100, 2, idx, stp, ctx);
    tbb::parallel_for(0, 100, 2, idx, afp, ctx);
    tbb::parallel_for(0, 100, idx, ctx);
    tbb::parallel_for(0, 100, idx, sp, ctx);
    tbb::parallel_for(0, 100, idx, ap, ctx);
    tbb::parallel_for(0, 100, idx, stp, ctx);
    tbb::parallel_for(0, 100, idx, afp, ctx);

    // parallel_reduce: body form + context only; functional form x {none, 4 partitioners} x {no context, context}
    SumBody sb;
    tbb::parallel_reduce(r, sb, ctx);
    auto rb = [](const tbb::blocked_range<int>& rr, long v) -> long { return v + long(rr.size()); };
    auto jn = [](long a, long b) -> long { return a + b; };
    long acc = 0;
    acc += tbb::parallel_reduce(r, 0L, rb, jn);
    acc += tbb::parallel_reduce(r, 0L, rb, jn, sp);
    acc += tbb::parallel_reduce(r, 0L, rb, jn, ap);
    acc += tbb::parallel_reduce(r, 0L, rb, jn, stp);
    acc += tbb::parallel_reduce(r, 0L, rb, jn, afp);
    acc += tbb::parallel_reduce(r, 0L, rb, jn, ctx);
    acc += tbb::parallel_reduce(r, 0L, rb, jn, sp, ctx);
    acc += tbb::parallel_reduce(r, 0L, rb, jn, ap, ctx);
    acc += tbb::parallel_reduce(r, 0L, rb, jn, stp, ctx);
    acc += tbb::parallel_reduce(r, 0L, rb, jn, afp, ctx);

    // parallel_deterministic_reduce: all 12 overloads
    tbb::parallel_deterministic_reduce(r, sb);
    tbb::parallel_deterministic_reduce(r, sb, sp);
    tbb::parallel_deterministic_reduce(r, sb, stp);
    tbb::parallel_deterministic_reduce(r, sb, ctx);
    tbb::parallel_deterministic_reduce(r, sb, sp, ctx);
    tbb::parallel_deterministic_reduce(r, sb, stp, ctx);
    acc += tbb::parallel_deterministic_reduce(r, 0L, rb, jn);
    acc += tbb::parallel_deterministic_reduce(r, 0L, rb, jn, sp);
    acc += tbb::parallel_deterministic_reduce(r, 0L, rb, jn, stp);
    acc += tbb::parallel_deterministic_reduce(r, 0L, rb, jn, ctx);
    acc += tbb::parallel_deterministic_reduce(r, 0L, rb, jn, sp, ctx);
    acc += tbb::parallel_deterministic_reduce(r, 0L, rb, jn, stp, ctx);

    // parallel_scan: body form x {none, simple, auto}; functional form x {none, simple, auto}
    ScanBody scb;
    tbb::parallel_scan(r, scb);
    tbb::parallel_scan(r, scb, sp);
    tbb::parallel_scan(r, scb, ap);
    auto scf = [](const tbb::blocked_range<int>& rr, long sum, bool) -> long { return sum + long(rr.size()); };
    acc += tbb::parallel_scan(r, 0L, scf, jn);
    acc += tbb::parallel_scan(r, 0L, scf, jn, sp);
    acc += tbb::parallel_scan(r, 0L, scf, jn, ap);

    // parallel_sort: iterator and range forms, with and without comparator
    std::vector<int> v(1000);
    tbb::parallel_sort(v.begin(), v.end());
    tbb::parallel_sort(v.begin(), v.end(), std::greater<int>());
    tbb::parallel_sort(v);
    tbb::parallel_sort(v, std::greater<int>());

    // parallel_for_each: iterator / range / const range, with and without context
    const std::vector<int>& cv = v;
    tbb::parallel_for_each(v.begin(), v.end(), [](int&) {});
    tbb::parallel_for_each(v, [](int&) {});
    tbb::parallel_for_each(cv, [](const int&) {});
    tbb::parallel_for_each(v.begin(), v.end(), [](int&) {}, ctx);
    tbb::parallel_for_each(v, [](int&) {}, ctx);
    tbb::parallel_for_each(cv, [](const int&) {}, ctx);

    // parallel_pipeline: variadic filter form
    int n = 0;
    tbb::parallel_pipeline(
        4,
        tbb::make_filter<void, int>(tbb::filter_mode::serial_in_order, [&](tbb::flow_control& fc) -> int { if (n++ > 3) fc.stop(); return n; }),
        tbb::make_filter<int, int>(tbb::filter_mode::parallel, [](int i) -> int { return i; }),
        tbb::make_filter<int, void>(tbb::filter_mode::serial_out_of_order, [](int) {}));
    tbb::parallel_pipeline(
        4,
        tbb::make_filter<void, int>(tbb::filter_mode::serial_in_order, [&](tbb::flow_control& fc) -> int { fc.stop(); return 0; }),
        tbb::make_filter<int, void>(tbb::filter_mode::serial_in_order, [](int) {}),
        ctx);
    (void)acc;
}

void groups() {
    tbb::task_group tg;
    tg.run([] {});
    tg.run_and_wait([] {});
    auto h = tg.defer([] {});
    tg.run(std::move(h));
    tbb::task_group_status st = tg.wait();
    (void)st;
    st = tg.run_and_wait(tg.defer([] {}));
    tg.cancel();
    tbb::task_group_context ctx(tbb::task_group_context::isolated);
    tbb::task_group tg2(ctx);
    tg2.run([] {});
    tg2.wait();
    ctx.cancel_group_execution();
    ctx.reset();
    (void)ctx.is_group_execution_cancelled();

    tbb::task_arena a(4, 1);
    a.initialize();
    a.enqueue([] {});
    a.execute([] {});
    int r = a.execute([]() -> int { return 1; });
    (void)r;
    auto h2 = tg.defer([] {});
    a.enqueue(std::move(h2));
    tbb::this_task_arena::isolate([] {});
    int q = tbb::this_task_arena::isolate([]() -> int { return 2; });
    (void)q;
    (void)tbb::this_task_arena::current_thread_index();
    (void)tbb::this_task_arena::max_concurrency();
    tbb::this_task_arena::enqueue([] {});
    a.terminate();
    tbb::task_arena b(tbb::task_arena::attach{});
    (void)b.is_active();
    tbb::global_control gc(tbb::global_control::max_allowed_parallelism, 2);
    (void)tbb::global_control::active_value(tbb::global_control::max_allowed_parallelism);

    struct Obs : tbb::task_scheduler_observer {
        Obs(tbb::task_arena& x) : tbb::task_scheduler_observer(x) {}
        void on_scheduler_entry(bool) override {}
        void on_scheduler_exit(bool) override {}
    };
    Obs o(a);
    o.observe(true);
    o.observe(false);

#if __TBB_RESUMABLE_TASKS
    tbb::task::suspend([](tbb::task::suspend_point p) { tbb::task::resume(p); });
#endif
}

void once_and_tls() {
    tbb::collaborative_once_flag flag;
    tbb::collaborative_call_once(flag, [] {});
    int x = 0;
    tbb::collaborative_call_once(flag, [](int& y) { ++y; }, x);

    tbb::enumerable_thread_specific<int> ets;
    ets.local() = 1;
    bool ex;
    ets.local(ex) = 2;
    tbb::enumerable_thread_specific<std::string, tbb::cache_aligned_allocator<std::string>, tbb::ets_key_per_instance> ets2(std::string("a"));
    ets2.local() += "b";
    decltype(ets2) ets2b(std::move(ets2));     // internal_swap -> table_swap of both ets_base specialisations
    ets2 = std::move(ets2b);
    tbb::enumerable_thread_specific<int> ets5(std::move(ets));
    ets = std::move(ets5);
    tbb::enumerable_thread_specific<int> ets3([]() -> int { return 5; });
    ets3.local();
    int s = ets.combine([](int a, int b) -> int { return a + b; });
    ets.combine_each([](int) {});
    (void)s;
    tbb::enumerable_thread_specific<int> ets4(ets);
    ets4 = ets;
    ets4.clear();
    tbb::combinable<int> c;
    c.local() = 1;
    c.local(ex) = 1;
    (void)c.combine([](int a, int b) -> int { return a + b; });
    c.combine_each([](int) {});
    tbb::combinable<int> c2([]() -> int { return 3; });
    c2.clear();
}

} // namespace drv
