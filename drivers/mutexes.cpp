// Driver TU: every mutex of the library with its scoped lock (explicit instantiations so that all members exist).
#include "oneapi/tbb/spin_mutex.h"
#include "oneapi/tbb/spin_rw_mutex.h"
#include "oneapi/tbb/queuing_mutex.h"
#include "oneapi/tbb/queuing_rw_mutex.h"
#include "oneapi/tbb/mutex.h"
#include "oneapi/tbb/rw_mutex.h"
#include "oneapi/tbb/null_mutex.h"
#include "oneapi/tbb/null_rw_mutex.h"

template class tbb::detail::d1::unique_scoped_lock<tbb::spin_mutex>;
template class tbb::detail::d1::unique_scoped_lock<tbb::mutex>;
template class tbb::detail::d1::rw_scoped_lock<tbb::spin_rw_mutex>;
template class tbb::detail::d1::rw_scoped_lock<tbb::rw_mutex>;

namespace drv {
template <typename M>
void plain() {
    M m;
    {
        typename M::scoped_lock l(m);
    }
    typename M::scoped_lock l2;
    l2.acquire(m);
    l2.release();
    if (l2.try_acquire(m)) l2.release();
}
template <typename M>
void rw() {
    M m;
    {
        typename M::scoped_lock l(m, true);
        l.downgrade_to_reader();
        (void)l.upgrade_to_writer();
        (void)l.is_writer();
    }
    typename M::scoped_lock l2;
    l2.acquire(m, false);
    l2.release();
    if (l2.try_acquire(m, true)) l2.release();
    if (l2.try_acquire(m, false)) l2.release();
}
template <typename M>
void iso() {
    M m;
    m.lock();
    m.unlock();
    if (m.try_lock()) m.unlock();
}
template <typename M>
void iso_rw() {
    M m;
    m.lock_shared();
    m.unlock_shared();
    if (m.try_lock_shared()) m.unlock_shared();
}
void all() {
    plain<tbb::spin_mutex>();
    plain<tbb::queuing_mutex>();
    plain<tbb::mutex>();
    plain<tbb::speculative_spin_mutex>();
    plain<tbb::spin_rw_mutex>();
    plain<tbb::queuing_rw_mutex>();
    plain<tbb::rw_mutex>();
    plain<tbb::speculative_spin_rw_mutex>();
    plain<tbb::null_mutex>();
    rw<tbb::spin_rw_mutex>();
    rw<tbb::queuing_rw_mutex>();
    rw<tbb::rw_mutex>();
    rw<tbb::speculative_spin_rw_mutex>();
    rw<tbb::null_rw_mutex>();
    iso<tbb::spin_mutex>();
    iso<tbb::mutex>();
    iso<tbb::spin_rw_mutex>();
    iso<tbb::rw_mutex>();
    iso_rw<tbb::spin_rw_mutex>();
    iso_rw<tbb::rw_mutex>();
}
} // namespace drv
