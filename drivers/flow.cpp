// Driver TU: flow graph.  Instantiates every node kind x policy the properties talk about.  Never executed.
#include "oneapi/tbb/flow_graph.h"
#include <string>
#include <tuple>

namespace drv {
using namespace tbb::flow;

struct Msg {
    int key;
    std::string payload;
};

template <typename Policy>
void function_nodes(graph& g) {
    function_node<int, int, Policy> f1(g, unlimited, [](const int& v) -> int { return v; });
    function_node<int, int, Policy> f2(g, serial, [](const int& v) -> int { return v; });
    function_node<int, int, Policy> f3(g, 4, [](const int& v) -> int { return v; }, node_priority_t(1));
    function_node<std::string, continue_msg, Policy> f4(g, 2, [](const std::string&) -> continue_msg { return continue_msg(); });
    make_edge(f1, f2);
    make_edge(f2, f3);
    f1.try_put(1);
    remove_edge(f1, f2);
    typedef multifunction_node<int, std::tuple<int, std::string>, Policy> MF;
    MF mf(g, 3, [](const int& v, typename MF::output_ports_type& ports) {
        std::get<0>(ports).try_put(v);
        std::get<1>(ports).try_put(std::string("x"));
    });
    make_edge(output_port<0>(mf), f1);
    make_edge(output_port<1>(mf), f4);
    mf.try_put(3);
}

void buffers(graph& g) {
    buffer_node<int> b(g);
    queue_node<int> q(g);
    priority_queue_node<int> pq(g);
    sequencer_node<Msg> sq(g, [](const Msg& m) -> std::size_t { return std::size_t(m.key); });
    overwrite_node<int> ow(g);
    write_once_node<int> wo(g);
    broadcast_node<int> bc(g);
    limiter_node<int> lim(g, 3);
    make_edge(b, q);
    make_edge(q, pq);
    make_edge(pq, lim);
    make_edge(lim, bc);
    make_edge(bc, ow);
    make_edge(bc, wo);
    function_node<int, continue_msg> dec(g, serial, [](int) -> continue_msg { return continue_msg(); });
    make_edge(lim, dec);
    make_edge(dec, lim.decrementer());
    int v = 0;
    b.try_put(1);
    b.try_get(v);
    b.try_reserve(v);
    b.try_release();
    b.try_reserve(v);
    b.try_consume();
    q.try_put(1);
    q.try_get(v);
    q.try_reserve(v);
    q.try_release();
    q.try_consume();
    pq.try_put(1);
    pq.try_get(v);
    pq.try_reserve(v);
    pq.try_release();
    pq.try_consume();
    Msg m{0, "a"};
    sq.try_put(m);
    sq.try_get(m);
    ow.try_put(1);
    ow.try_get(v);
    (void)ow.is_valid();
    ow.clear();
    wo.try_put(1);
    wo.try_get(v);
    wo.clear();
    bc.try_put(2);
    lim.try_put(3);
    remove_edge(b, q);
}

void joins(graph& g) {
    join_node<std::tuple<int, std::string>, queueing> jq(g);
    join_node<std::tuple<int, std::string>, reserving> jr(g);
    join_node<std::tuple<Msg, Msg>, key_matching<int>> jk(g, [](const Msg& m) -> int { return m.key; }, [](const Msg& m) -> int { return m.key; });
    join_node<std::tuple<int, int>, tag_matching> jt(g, [](const int& i) -> tag_value { return tag_value(i); },
                                                    [](const int& i) -> tag_value { return tag_value(i); });
    join_node<std::tuple<int, int, int>, queueing> jq3(g);
    join_node<std::tuple<int, int, int>, reserving> jr3(g);
    queue_node<int> qi(g);
    queue_node<std::string> qs(g);
    buffer_node<int> bi(g);
    buffer_node<std::string> bs(g);
    make_edge(qi, input_port<0>(jq));
    make_edge(qs, input_port<1>(jq));
    make_edge(bi, input_port<0>(jr));
    make_edge(bs, input_port<1>(jr));
    function_node<std::tuple<int, std::string>, continue_msg> sink(g, serial, [](const std::tuple<int, std::string>&) -> continue_msg { return continue_msg(); });
    make_edge(jq, sink);
    make_edge(jr, sink);
    queue_node<std::tuple<int, std::string>> outq(g);
    make_edge(jq, outq);
    input_port<0>(jq).try_put(1);
    input_port<1>(jq).try_put(std::string("s"));
    input_port<0>(jk).try_put(Msg{1, "a"});
    input_port<1>(jk).try_put(Msg{1, "b"});
    input_port<0>(jt).try_put(1);
    input_port<1>(jt).try_put(1);
    input_port<0>(jq3).try_put(1);
    make_edge(bi, input_port<0>(jr3));
    std::tuple<int, std::string> t;
    jq.try_get(t);
    jr.try_get(t);
    std::tuple<Msg, Msg> tk;
    jk.try_get(tk);
    queue_node<std::tuple<Msg, Msg>> outk(g);
    make_edge(jk, outk);
    remove_edge(qi, input_port<0>(jq));
}

void routing(graph& g) {
    // same element types on purpose: a port/element index mix-up must stay compilable so that the routing rule (not the
    // compiler) reports it
    split_node<std::tuple<int, int, int>> sp(g);
    indexer_node<int, std::string, double> ix(g);
    queue_node<int> qi(g);
    queue_node<std::string> qs(g);
    queue_node<double> qd(g);
    queue_node<int> qi1(g), qi2(g);
    make_edge(output_port<0>(sp), qi);
    make_edge(output_port<1>(sp), qi1);
    make_edge(output_port<2>(sp), qi2);
    make_edge(qi, input_port<0>(ix));
    make_edge(qs, input_port<1>(ix));
    make_edge(qd, input_port<2>(ix));
    typedef indexer_node<int, std::string, double>::output_type out_t;
    function_node<out_t, continue_msg> sink(g, serial, [](const out_t& o) -> continue_msg {
        if (o.tag() == 0) (void)cast_to<int>(o);
        return continue_msg();
    });
    make_edge(ix, sink);
    sp.try_put(std::make_tuple(1, 2, 3));
    input_port<0>(ix).try_put(1);
}

void sources(graph& g) {
    int n = 0;
    input_node<int> in(g, [&](tbb::flow_control& fc) -> int {
        if (n++ > 3) { fc.stop(); return 0; }
        return n;
    });
    queue_node<int> q(g);
    make_edge(in, q);
    in.activate();
    continue_node<int> cn(g, [](const continue_msg&) -> int { return 1; });
    continue_node<continue_msg> cn2(g, 2, [](const continue_msg&) -> continue_msg { return continue_msg(); }, node_priority_t(2));
    continue_node<int, lightweight> cn3(g, [](const continue_msg&) -> int { return 1; });
    make_edge(cn2, cn);
    make_edge(cn, q);
    cn2.try_put(continue_msg());
    cn3.try_put(continue_msg());
    typedef async_node<int, int> AN;
    AN an(g, unlimited, [](const int& v, AN::gateway_type& gw) {
        gw.reserve_wait();
        gw.try_put(v);
        gw.release_wait();
    });
    make_edge(an, q);
    an.try_put(1);
    typedef composite_node<std::tuple<int>, std::tuple<int>> CN;
    CN comp(g);
    function_node<int, int> inner(g, unlimited, [](const int& v) -> int { return v; });
    comp.set_external_ports(CN::input_ports_type(inner), CN::output_ports_type(inner));
    make_edge(output_port<0>(comp), q);
    input_port<0>(comp).try_put(1);
}

// copy constructors of every node kind (each copies the body / key functors and re-creates the internal state), node
// iteration, typed decrementer, body extraction
void copies_and_misc(graph& g) {
    function_node<int, int> f(g, unlimited, [](const int& v) -> int { return v; });
    function_node<int, int> f2(f);
    function_node<int, int, rejecting> fr(g, serial, [](const int& v) -> int { return v; });
    function_node<int, int, rejecting> fr2(fr);
    typedef multifunction_node<int, std::tuple<int, int>> MF;
    MF mf(g, 3, [](const int&, MF::output_ports_type&) {});
    MF mf2(mf);
    continue_node<int> cn(g, [](const continue_msg&) -> int { return 1; });
    continue_node<int> cn2(cn);
    int n = 0;
    input_node<int> in(g, [&](tbb::flow_control& fc) -> int { fc.stop(); return n; });
    input_node<int> in2(in);
    buffer_node<int> b(g); buffer_node<int> b2(b);
    queue_node<int> q(g); queue_node<int> q2(q);
    priority_queue_node<int> pq(g); priority_queue_node<int> pq2(pq);
    sequencer_node<int> sq(g, [](const int& m) -> std::size_t { return std::size_t(m); }); sequencer_node<int> sq2(sq);
    overwrite_node<int> ow(g); overwrite_node<int> ow2(ow);
    write_once_node<int> wo(g); write_once_node<int> wo2(wo);
    broadcast_node<int> bc(g); broadcast_node<int> bc2(bc);
    limiter_node<int> lim(g, 3); limiter_node<int> lim2(lim);
    limiter_node<int, int> limi(g, 3);
    function_node<int, int> decf(g, serial, [](int v) -> int { return v; });
    make_edge(decf, limi.decrementer());
    limi.try_put(1);
    limi.decrementer().try_put(2);
    split_node<std::tuple<int, int>> sp(g); split_node<std::tuple<int, int>> sp2(sp);
    indexer_node<int, int> ix(g); indexer_node<int, int> ix2(ix);
    join_node<std::tuple<int, int>, queueing> jq(g); join_node<std::tuple<int, int>, queueing> jq2(jq);
    join_node<std::tuple<int, int>, reserving> jr(g); join_node<std::tuple<int, int>, reserving> jr2(jr);
    join_node<std::tuple<int, int>, key_matching<int>> jk(g, [](const int& m) -> int { return m; }, [](const int& m) -> int { return m; });
    join_node<std::tuple<int, int>, key_matching<int>> jk2(jk);
    typedef async_node<int, int> AN;
    AN an(g, unlimited, [](const int&, AN::gateway_type&) {});
    AN an2(an);
    (void)an.gateway();
    auto body = copy_body<std::function<int(const int&)>>(f);
    (void)body;
    // senders of continue_msg use the successor_cache<continue_msg> specialisation (it keeps continue receivers' predecessor counts)
    buffer_node<continue_msg> cb(g); queue_node<continue_msg> cq(g); limiter_node<continue_msg> cl(g, 2);
    broadcast_node<continue_msg> cbc(g); overwrite_node<continue_msg> cow(g);
    continue_node<continue_msg> cc(g, [](const continue_msg&) -> continue_msg { return continue_msg(); });
    make_edge(cb, cc); make_edge(cq, cc); make_edge(cl, cc); make_edge(cbc, cc); make_edge(cow, cc);
    remove_edge(cb, cc); remove_edge(cq, cc); remove_edge(cl, cc); remove_edge(cbc, cc); remove_edge(cow, cc);
    cb.try_put(continue_msg()); cq.try_put(continue_msg()); cl.try_put(continue_msg());
    for (graph::iterator it = g.begin(); it != g.end(); ++it) { (void)*it; }
    const graph& cg = g;
    for (graph::const_iterator it = cg.cbegin(); it != cg.cend(); it++) {}
    make_edge(f, f2);
    remove_edge(f, f2);
    make_edge(output_port<0>(mf), f);
    remove_edge(output_port<0>(mf), f);
    make_edge(f, input_port<0>(jq));
    remove_edge(f, input_port<0>(jq));
}

void graph_api() {
    tbb::task_group_context ctx;
    graph g(ctx);
    graph g2;
    function_nodes<queueing>(g);
    function_nodes<rejecting>(g);
    function_nodes<lightweight>(g);
    function_nodes<queueing_lightweight>(g);
    buffers(g);
    joins(g);
    routing(g);
    sources(g);
    copies_and_misc(g);
    g.reserve_wait();
    g.release_wait();
    g.wait_for_all();
    (void)g.is_cancelled();
    (void)g.exception_thrown();
    g.cancel();
    g.reset();
    g.reset(rf_clear_edges);
    g2.wait_for_all();
}
} // namespace drv
