"""Compile-time witnesses (rule kind K12): programs that must fail to compile and static_asserts over the repo's constexpr
entities.  One batched translation unit per witness file, `clang++ -fsyntax-only -ferror-limit=0`.

Witness file format (witness/*.cpp):
    <preamble: includes, helper types>
    //@ expect-fail <name> : <what must not compile>
    <code, wrapped into namespace w_<name>>
    //@ expect-pass <name> : <control / static_assert block that must compile>
    <code>
    //@ end
Every block is tagged with `#line 1 "W:<name>"`; a diagnostic group (error + its notes) is attributed to the first tag it
mentions."""
import os
import re
import subprocess

from .facts import AnalysisBroken
from . import runner

TAG = re.compile(r'W:([A-Za-z0-9_]+):(\d+)')


def parse(path):
    pre, blocks, cur = [], [], None
    for line in open(path):
        m = re.match(r'\s*//@\s*(expect-fail|expect-pass|end)\s*([A-Za-z0-9_]*)\s*:?\s*(.*)', line)
        if m:
            if cur:
                blocks.append(cur)
                cur = None
            if m.group(1) != 'end':
                cur = {'kind': m.group(1), 'name': m.group(2), 'what': m.group(3).strip(), 'code': []}
            continue
        if cur is None:
            pre.append(line)
        else:
            cur['code'].append(line)
    if cur:
        blocks.append(cur)
    return ''.join(pre), blocks


def run_file(path, std='-std=c++17', extra_flags=(), workdir=None):
    """returns [(block, errors:list[str])]"""
    pre, blocks = parse(path)
    if not blocks:
        raise AnalysisBroken('witness file %s has no blocks' % path)
    src = [pre]
    for b in blocks:
        src.append('namespace w_%s {\n#line 1 "W:%s"\n%s}\n' % (b['name'], b['name'], ''.join(b['code'])))
    wd = workdir or os.path.join(runner.VERIF, '.work')
    os.makedirs(wd, exist_ok=True)
    tu = os.path.join(wd, 'witness-%d-%s' % (os.getpid(), os.path.basename(path)))
    with open(tu, 'w') as f:
        f.write(''.join(src))
    cmd = ['clang++', '-fsyntax-only', '-ferror-limit=0', '-fno-caret-diagnostics', '-fno-color-diagnostics', std, '-DNDEBUG',
           '-I%s/include' % runner.REPO, '-w', '-x', 'c++', tu] + list(extra_flags)
    p = subprocess.run(cmd, stdout=subprocess.PIPE, stderr=subprocess.PIPE, universal_newlines=True)
    os.unlink(tu)
    groups = []
    cur = None
    for line in p.stderr.splitlines():
        if ' error: ' in line or ' fatal error: ' in line:
            cur = [line]
            groups.append(cur)
        elif cur is not None:
            cur.append(line)
    per = dict((b['name'], []) for b in blocks)
    unattributed = []
    for g in groups:
        name = None
        for line in g:
            m = TAG.search(line)
            if m:
                name = m.group(1)
                break
        if name in per:
            per[name].append(g[0].strip())
        else:
            unattributed.append(g[0].strip())
    if unattributed:
        raise AnalysisBroken('witness file %s: errors outside any witness block (preamble broken?): %s' % (path, unattributed[:3]))
    return [(b, per[b['name']]) for b in blocks]


def check_file(rep, clause, relpath, std='-std=c++17', extra_flags=(), floor=None):
    path = os.path.join(runner.VERIF, relpath)
    res = run_file(path, std, extra_flags)
    n = 0
    for b, errs in res:
        n += 1
        if b['kind'] == 'expect-fail':
            ok = len(errs) > 0
            detail = 'this program compiles, but the property requires it to be rejected: ' + b['what']
        else:
            ok = len(errs) == 0
            detail = 'must compile but: ' + '; '.join(errs[:2])
        rep.ob(clause, 'K12', None, 'witness %s/%s (%s): %s' % (os.path.basename(relpath), b['name'], b['kind'], b['what']), ok, detail,
               key_extra=b['name'])
    if floor is not None and n < floor:
        raise AnalysisBroken('witness file %s has %d blocks, floor %d' % (relpath, n, floor))
    return n
