"""Fact base: loads the JSON-lines output of tools/tbbsa and offers resolved-program queries.

Nothing in here is specific to a property.  See DESIGN.md section 1.
"""
import json
import os
import re
from collections import defaultdict, deque

ORDER = {0: 'relaxed', 1: 'consume', 2: 'acquire', 3: 'release', 4: 'acq_rel', 5: 'seq_cst'}
RELAXED, CONSUME, ACQUIRE, RELEASE, ACQ_REL, SEQ_CST = range(6)

ATOMIC_CLASSES = ('std::atomic', 'std::__atomic_base', 'std::atomic_flag', 'std::__atomic_flag_base')
RMW_NAMES = {'exchange', 'fetch_add', 'fetch_sub', 'fetch_and', 'fetch_or', 'fetch_xor',
             'operator++', 'operator--', 'operator+=', 'operator-=', 'operator&=', 'operator|=', 'operator^=',
             'test_and_set'}
CAS_NAMES = {'compare_exchange_strong', 'compare_exchange_weak'}


class AnalysisBroken(Exception):
    """An anchor vanished, a unit failed to parse, or a floor was missed: exit status 2."""


def has_acquire(o):
    return o in (ACQUIRE, ACQ_REL, SEQ_CST, CONSUME)


def has_release(o):
    return o in (RELEASE, ACQ_REL, SEQ_CST)


class Fn(object):
    __slots__ = ('d', 'facts', 'u', 'q', 'p', 'file', 'l0', 'l1', 'nodes', 'blocks', 'entry', 'exit', 'cls', 'bases',
                 'kind', '_preds', '_pos', '_dom', '_pdom', '_events', 'unit', '_parent', '_reach_cache')

    def __init__(self, d, facts, unit):
        self.d = d
        self.facts = facts
        self.unit = unit
        self.u = d['u']
        self.q = d['q']
        self.p = d['p']
        self.file = d['file']
        self.l0 = d['l0']
        self.l1 = d['l1']
        self.nodes = d['nodes']
        self.blocks = {b['id']: b for b in d['blocks']}
        self.entry = d['entry']
        self.exit = d['exit']
        self.cls = d.get('cls')
        self.bases = d.get('bases', [])
        self.kind = d.get('kind')
        self._preds = None
        self._pos = None
        self._dom = None
        self._pdom = None
        self._events = None
        self._parent = None
        self._reach_cache = {}

    def __repr__(self):
        return '<Fn %s %s:%d>' % (self.q, os.path.basename(self.file), self.l0)

    @property
    def loc(self):
        return '%s:%d' % (self.file, self.l0)

    def where(self, s=None):
        if s is None or s < 0:
            return '%s:%d' % (self.file, self.l0)
        return '%s:%d' % (self.file, self.nodes[s].get('ln', self.l0))

    # ------------------------------------------------------------------ node helpers
    def n(self, s):
        return self.nodes[s] if s is not None and s >= 0 else {}

    def strip(self, s):
        """look through rd / casts"""
        while s is not None and s >= 0:
            n = self.nodes[s]
            k = n.get('k')
            if k == 'rd' or k == 'cast':
                s = n['sub']
                continue
            break
        return s

    def children(self, s):
        n = self.n(s)
        k = n.get('k')
        out = []
        if k == 'call':
            if n.get('obj', -1) >= 0:
                out.append(n['obj'])
            if n.get('fx', -1) >= 0:
                out.append(n['fx'])
            out += n.get('a', [])
        elif k in ('ctor', 'initlist', 'other'):
            out += n.get('a', [])
        elif k == 'new':
            out += n.get('pl', [])
            if 'init' in n:
                out.append(n['init'])
        elif k in ('delete', 'rd', 'cast', 'unop', 'throw', 'return', 'pseudodtor'):
            if n.get('sub', -1) >= 0:
                out.append(n['sub'])
        elif k == 'member':
            if n.get('base', -1) >= 0:
                out.append(n['base'])
        elif k == 'binop':
            out += [n['l'], n['r']]
        elif k == 'cond':
            out += [n['c'], n['l'], n['r']]
        elif k == 'index':
            out += [n['base'], n['idx']]
        elif k == 'decl':
            out += [v['init'] for v in n['vars'] if 'init' in v]
        return [c for c in out if c is not None and c >= 0]

    def subtree(self, s):
        seen = set()
        st = [s]
        while st:
            x = st.pop()
            if x in seen or x is None or x < 0:
                continue
            seen.add(x)
            st.extend(self.children(x))
        return seen

    def parent_map(self):
        if self._parent is None:
            pm = {}
            for i, n in enumerate(self.nodes):
                if not n:
                    continue
                for c in self.children(i):
                    pm.setdefault(c, i)
            self._parent = pm
        return self._parent

    def callee(self, s):
        n = self.n(s)
        u = n.get('fn')
        return self.facts.decls.get(u) if u else None

    def callee_p(self, s):
        d = self.callee(s)
        return d['p'] if d else None

    def path(self, s, depth=0):
        """canonical access path of an expression (text form used for *display* and for
        same-object comparison inside one function; built from resolved declarations)"""
        if s is None or s < 0 or depth > 40:
            return '?'
        n = self.nodes[s]
        k = n.get('k')
        if k == 'var':
            return n['n']
        if k == 'this':
            return 'this'
        if k == 'member':
            b = n.get('base', -1)
            if b < 0:
                return n['n']
            return self.path(b, depth + 1) + ('->' if n.get('arrow') else '.') + n['n']
        if k in ('rd',):
            return self.path(n['sub'], depth + 1)
        if k == 'cast':
            return self.path(n['sub'], depth + 1)
        if k == 'unop':
            if n['op'] in ('*', '&'):
                return n['op'] + self.path(n['sub'], depth + 1)
            return n['op'] + self.path(n['sub'], depth + 1)
        if k == 'index':
            return self.path(n['base'], depth + 1) + '[*]'
        if k == 'call':
            d = self.callee(s)
            nm = d['n'] if d else '?'
            if n.get('op') == '[]':
                return self.path(n.get('obj', -1), depth + 1) + '[*]'
            if n.get('op') in ('->', '*') and n.get('obj', -1) >= 0 and not n.get('a'):
                return n['op'] + self.path(n['obj'], depth + 1) if n['op'] == '*' else self.path(n['obj'], depth + 1)
            if nm == '(conv)' and n.get('obj', -1) >= 0:
                return self.path(n['obj'], depth + 1)
            if n.get('obj', -1) >= 0:
                return self.path(n['obj'], depth + 1) + '.' + nm + '()'
            return nm + '(' + ','.join(self.path(a, depth + 1) for a in n.get('a', [])) + ')'
        if k in ('lit', 'enum'):
            if 'cv' in n:
                return str(n['cv'])
            if n.get('null'):
                return 'nullptr'
            return n.get('n', 'lit')
        if k == 'binop':
            return '(' + self.path(n['l'], depth + 1) + n['op'] + self.path(n['r'], depth + 1) + ')'
        if k == 'ctor':
            return (n.get('cls') or 'T') + '(' + ','.join(self.path(a, depth + 1) for a in n.get('a', [])) + ')'
        if k == 'cond':
            return '(' + self.path(n['c'], depth + 1) + '?' + self.path(n['l'], depth + 1) + ':' + self.path(n['r'], depth + 1) + ')'
        if k == 'lambda':
            return '[lambda]'
        if k == 'new':
            return 'new ' + (n.get('cls') or n.get('ty', '?'))
        if k == 'fnref':
            d = self.callee(s)
            return '&' + (d['p'] if d else '?')
        return k or '?'

    def show(self, s):
        n = self.n(s)
        k = n.get('k')
        if k == 'return':
            return 'return ' + (self.path(n['sub']) if 'sub' in n else '')
        if k == 'decl':
            return '; '.join('%s = %s' % (v['n'], self.path(v['init']) if 'init' in v else '') for v in n['vars'])
        return self.path(s)

    def cv(self, s):
        """constant integer value of an expression or None"""
        s0 = s
        for _ in range(8):
            n = self.n(s)
            if 'cv' in n:
                return n['cv']
            if n.get('k') in ('rd', 'cast'):
                s = n['sub']
                continue
            break
        return self.n(s0).get('cv')

    def is_null(self, s):
        s = self.strip(s)
        n = self.n(s)
        return bool(n.get('null')) or (n.get('k') == 'lit' and n.get('cv') == 0 and False)

    # ------------------------------------------------------------------ CFG helpers
    def elems(self, b):
        return self.blocks[b]['e']

    def succs(self, b):
        return [x for x in self.blocks[b]['succ'] if x is not None]

    def preds(self):
        if self._preds is None:
            p = defaultdict(list)
            for b in self.blocks.values():
                for i, s in enumerate(b['succ']):
                    if s is not None:
                        p[s].append((b['id'], i))
            self._preds = p
        return self._preds

    def positions(self):
        """map node id -> (block, index) for nodes that are CFG elements"""
        if self._pos is None:
            pos = {}
            for b in self.blocks.values():
                for i, e in enumerate(b['e']):
                    if isinstance(e, int):
                        pos.setdefault(e, (b['id'], i))
                    elif isinstance(e, dict) and 'i' in e and e.get('s', -1) >= 0:
                        pass
            self._pos = pos
        return self._pos

    def pos_of(self, s):
        """program point of node s: its own CFG element, else that of the nearest ancestor"""
        pos = self.positions()
        pm = self.parent_map()
        x = s
        for _ in range(200):
            if x in pos:
                return pos[x]
            if x not in pm:
                return None
            x = pm[x]
        return None

    def reachable_blocks(self):
        key = 'rb'
        if key not in self._reach_cache:
            # live code = reachable from the entry or from a catch handler (the CFG has no exception edges)
            roots = [self.entry] + [b for b, blk in self.blocks.items() if blk.get('label') and 'catch' in blk['label']]
            seen = set(roots)
            st = list(roots)
            while st:
                b = st.pop()
                for s in self.succs(b):
                    if s not in seen:
                        seen.add(s)
                        st.append(s)
            self._reach_cache[key] = seen
        return self._reach_cache[key]

    def iter_elems(self, reachable_only=True):
        """yield (block, idx, elem) in block order"""
        rb = self.reachable_blocks() if reachable_only else None
        for bid in sorted(self.blocks, reverse=True):
            if rb is not None and bid not in rb:
                continue
            for i, e in enumerate(self.blocks[bid]['e']):
                yield bid, i, e

    def stmt_elems(self, kinds=None, reachable_only=True):
        for b, i, e in self.iter_elems(reachable_only):
            if isinstance(e, int):
                n = self.nodes[e]
                if kinds is None or n.get('k') in kinds:
                    yield (b, i), e, n

    # generic walk ---------------------------------------------------------------------
    def walk(self, start, stop_elem=None, stop_edge=None, from_after=True, targets=None):
        """Forward reachability over program points.

        start: (block, idx) or 'entry'.  The walk begins *after* element idx when from_after.
        stop_elem(pos, elem) -> True to cut the path at that element (it is 'reached' but not passed).
        stop_edge(block, succ_index) -> True to cut that CFG edge.
        Returns (reached_positions:set, reached_exit:bool, parent map for witness paths).
        """
        if start == 'entry':
            start = (self.entry, -1)
            from_after = True
        b0, i0 = start
        begin = (b0, i0 + 1) if from_after else (b0, i0)
        seen_blocks_from = {}  # block -> smallest index from which it was walked
        reached = set()
        parent = {}
        exit_reached = [False]
        work = deque([begin])
        while work:
            b, i = work.popleft()
            if b in seen_blocks_from and seen_blocks_from[b] <= i:
                continue
            seen_blocks_from[b] = i
            es = self.blocks[b]['e']
            cut = False
            j = i
            while j < len(es):
                pos = (b, j)
                reached.add(pos)
                if stop_elem is not None and stop_elem(pos, es[j]):
                    cut = True
                    break
                j += 1
            if cut:
                continue
            if b == self.exit:
                exit_reached[0] = True
                continue
            blk = self.blocks[b]
            if blk.get('noret'):
                continue
            for si, s in enumerate(blk['succ']):
                if s is None:
                    continue
                if stop_edge is not None and stop_edge(b, si):
                    continue
                if s not in parent:
                    parent[s] = (b, si)
                work.append((s, 0))
        return reached, exit_reached[0], parent

    def witness(self, parent, start_block, end_block):
        """block path from start_block to end_block using a parent map of walk()"""
        path = [end_block]
        seen = set()
        b = end_block
        while b != start_block and b in parent and b not in seen:
            seen.add(b)
            b = parent[b][0]
            path.append(b)
        path.reverse()
        return path

    def block_lines(self, blocks):
        out = []
        for b in blocks:
            ln = None
            for e in self.blocks[b]['e']:
                if isinstance(e, int):
                    ln = self.nodes[e].get('ln')
                    if ln:
                        break
            t = self.blocks[b].get('term')
            if ln is None and t:
                ln = t.get('ln')
            out.append('B%d@%s' % (b, ln if ln else '-'))
        return ' > '.join(out)

    # dominance on program points ---------------------------------------------------------
    def dominated_by(self, q, stop_elem=None, stop_edge=None):
        """True iff every path entry -> q passes a stop element / stop edge.
        q is a (block, idx) position."""
        reached, _, _ = self.walk('entry', stop_elem=self._stopper(stop_elem, q), stop_edge=stop_edge)
        return q not in reached or self._cut_at(q, stop_elem)

    def _cut_at(self, q, stop_elem):
        return False

    def _stopper(self, stop_elem, q):
        if stop_elem is None:
            return None

        def f(pos, e):
            if pos == q:
                return False
            return stop_elem(pos, e)
        return f

    def can_reach(self, start, q, stop_elem=None, stop_edge=None):
        reached, _, _ = self.walk(start, stop_elem=self._stopper(stop_elem, q), stop_edge=stop_edge)
        return q in reached

    def can_reach_exit(self, start, stop_elem=None, stop_edge=None):
        reached, ex, parent = self.walk(start, stop_elem=stop_elem, stop_edge=stop_edge)
        return ex, parent

    # conditions ------------------------------------------------------------------------------
    def cond_atoms(self, s, truth=True):
        """decompose a branch condition into [(node, truth)] atoms, looking through ! and bool casts.
        (&& and || are already separate CFG blocks, but a stored condition may still contain them)"""
        n = self.n(s)
        k = n.get('k')
        if k in ('rd', 'cast'):
            return self.cond_atoms(n['sub'], truth)
        if k == 'unop' and n['op'] == '!':
            return self.cond_atoms(n['sub'], not truth)
        # a join block can carry a compound condition (`do {} while (a && b)`): on its true edge both conjuncts hold,
        # on the false edge of `a || b` both disjuncts are false; the other edges tell nothing about the operands
        if k == 'binop' and n['op'] == '&&' and truth:
            return self.cond_atoms(n['l'], True) + self.cond_atoms(n['r'], True)
        if k == 'binop' and n['op'] == '||' and not truth:
            return self.cond_atoms(n['l'], False) + self.cond_atoms(n['r'], False)
        return [(s, truth)]

    def assertion_nodes(self):
        """nodes that only feed an assertion: the condition of a branch one of whose successors immediately calls
        assertion_failure (debug configurations expand __TBB_ASSERT to `cond ? (void)0 : assertion_failure(...)`)"""
        if '_assert' in self._reach_cache:
            return self._reach_cache['_assert']
        out = set()
        for b, blk in self.blocks.items():
            t = blk.get('term')
            if not t or 'c' not in t:
                continue
            for s in blk['succ']:
                if s is None:
                    continue
                for e in self.blocks[s]['e']:
                    if isinstance(e, int) and self.nodes[e].get('k') == 'call':
                        d = self.callee(e)
                        if d and d.get('n') == 'assertion_failure':
                            out |= self.subtree(t['c'])
        self._reach_cache['_assert'] = out
        return out

    def edge_conds(self, b, si):
        """atoms known to hold on edge (b -> succ[si]); only for two-way branches"""
        blk = self.blocks[b]
        t = blk.get('term')
        if not t or 'c' not in t or len(blk['succ']) != 2:
            return []
        if t['k'] in ('SwitchStmt',):
            return []
        truth = (si == 0)
        return self.cond_atoms(t['c'], truth)

    def switch_edges(self, b):
        """for a switch terminator: [(succ_index, label dict)]"""
        blk = self.blocks[b]
        out = []
        for si, s in enumerate(blk['succ']):
            if s is None:
                continue
            out.append((si, self.blocks[s].get('label')))
        return out


class Facts(object):
    def __init__(self):
        self.fns = {}            # uid -> Fn
        self.decls = {}          # uid -> decl dict
        self.classes = defaultdict(list)   # pname -> [class dicts]
        self.by_p = defaultdict(list)      # pname -> [Fn]
        self.templates = {}                # (pname, file, line) -> namespace-scope function template record (nspec = instantiated bodies)
        self.units = []
        self.errors = []
        self._overriders = None
        self._callers = None
        self._callees = {}
        self._classq = {}

    def load(self, path, unit=None):
        unit = unit or os.path.basename(path)
        self.units.append(unit)
        ended = False
        with open(path) as f:
            for line in f:
                d = json.loads(line)
                t = d['t']
                if t == 'fn':
                    if d['u'] in self.fns:
                        continue
                    fn = Fn(d, self, unit)
                    self.fns[fn.u] = fn
                    self.by_p[fn.p].append(fn)
                elif t == 'decl':
                    self.decls.setdefault(d['u'], d)
                elif t == 'class':
                    if d['q'] not in self._classq:
                        self._classq[d['q']] = d
                        self.classes[d['p']].append(d)
                elif t == 'tmpl':
                    k = (d['p'], d['file'], d['ln'])
                    cur = self.templates.get(k)
                    if cur is None or d['nspec'] > cur['nspec']:
                        self.templates[k] = d
                elif t == 'error':
                    self.errors.append((unit, d.get('msg')))
                elif t == 'end':
                    ended = True
        if not ended:
            self.errors.append((unit, 'truncated fact file'))

    # lookups ---------------------------------------------------------------------------------
    def get(self, pname, required=True):
        r = self.by_p.get(pname, [])
        if not r and required:
            raise AnalysisBroken('anchor function not found: %s' % pname)
        return r

    def find(self, regex):
        rx = re.compile(regex)
        return [f for p, fs in self.by_p.items() if rx.search(p) for f in fs]

    def class_q(self, q):
        return self._classq.get(q)

    def overriders(self, uid):
        """uids of all methods that (transitively) override uid, within the loaded units"""
        if self._overriders is None:
            ov = defaultdict(set)
            for u, d in self.decls.items():
                for b in d.get('ov', []):
                    ov[b].add(u)
            self._overriders = ov
        out = set()
        st = [uid]
        while st:
            x = st.pop()
            for y in self._overriders.get(x, ()):
                if y not in out:
                    out.add(y)
                    st.append(y)
        return out

    def call_sites(self, fn):
        """[(node id, node, callee uid)] for every call-like node in fn (calls, ctors, news, deletes, implicit dtors)"""
        key = fn.u
        if key in self._callees:
            return self._callees[key]
        out = []
        for (pos, s, n) in fn.stmt_elems(None, reachable_only=False):
            k = n.get('k')
            if k in ('call', 'ctor', 'delete') and n.get('fn'):
                out.append((pos, s, n['fn']))
            elif k == 'new':
                if n.get('fn'):
                    out.append((pos, s, n['fn']))
            elif k == 'lambda':
                pass
        for b, i, e in fn.iter_elems(reachable_only=False):
            if isinstance(e, dict) and 'd' in e and e.get('fn'):
                out.append(((b, i), -1, e['fn']))
        self._callees[key] = out
        return out

    def callers(self, uid):
        if self._callers is None:
            c = defaultdict(list)
            for f in self.fns.values():
                for pos, s, cu in self.call_sites(f):
                    c[cu].append((f, pos, s))
            self._callers = c
        return self._callers.get(uid, [])

    def callers_p(self, pname):
        out = []
        seen = set()
        for u, d in self.decls.items():
            if d['p'] == pname:
                for c in self.callers(u):
                    key = (c[0].u, c[1])
                    if key not in seen:
                        seen.add(key)
                        out.append(c)
        return out


# ---------------------------------------------------------------------------------------------
# atomic operation classification
# ---------------------------------------------------------------------------------------------
def atomic_op(fn, s):
    """Classify node s of fn as an atomic operation.
    Returns None or dict(kind=load|store|rmw|cas|fence, name, obj(node), path, order, forder, s)."""
    n = fn.n(s)
    if n.get('k') != 'call':
        return None
    d = fn.callee(s)
    if not d:
        return None
    name = d['n']
    cls = d.get('cls')
    if cls in ATOMIC_CLASSES:
        a = n.get('a', [])
        obj = n.get('obj', -1)
        r = {'s': s, 'name': name, 'obj': obj, 'path': fn.path(obj), 'ln': n.get('ln')}

        def order_at(i, default=SEQ_CST):
            if i < len(a):
                v = fn.cv(a[i])
                if v is not None:
                    return int(v)
                return None     # non-constant order
            return default
        if name == 'load':
            r.update(kind='load', order=order_at(0))
        elif name == '(conv)':
            r.update(kind='load', order=SEQ_CST)
        elif name == 'store':
            r.update(kind='store', order=order_at(1), val=a[0] if a else -1)
        elif name == 'operator=':
            r.update(kind='store', order=SEQ_CST, val=a[0] if a else -1)
        elif name in CAS_NAMES:
            so = order_at(2)
            if len(a) >= 4:
                fo = order_at(3)
            else:
                fo = {ACQ_REL: ACQUIRE, RELEASE: RELAXED}.get(so, so)
            r.update(kind='cas', order=so, forder=fo, expected=a[0] if a else -1, val=a[1] if len(a) > 1 else -1)
        elif name in RMW_NAMES:
            if name.startswith('operator'):
                r.update(kind='rmw', order=SEQ_CST, val=a[0] if a else -1)
            elif name == 'test_and_set':
                r.update(kind='rmw', order=order_at(0))
            else:
                r.update(kind='rmw', order=order_at(1), val=a[0] if a else -1)
        elif name == 'clear':
            r.update(kind='store', order=order_at(0))
        elif name in ('is_lock_free', '(ctor)', '(dtor)'):
            return None
        else:
            return None
        return r
    p = d['p']
    if p in ('std::atomic_thread_fence',):
        a = n.get('a', [])
        v = fn.cv(a[0]) if a else None
        return {'s': s, 'kind': 'fence', 'name': 'fence', 'order': int(v) if v is not None else None, 'obj': -1, 'path': '',
                'ln': n.get('ln')}
    if p.endswith('::atomic_fence_seq_cst'):
        return {'s': s, 'kind': 'fence', 'name': 'fence', 'order': SEQ_CST, 'obj': -1, 'path': '', 'ln': n.get('ln')}
    if p.endswith('::atomic_fence'):
        a = n.get('a', [])
        v = fn.cv(a[0]) if a else None
        return {'s': s, 'kind': 'fence', 'name': 'fence', 'order': int(v) if v is not None else None, 'obj': -1, 'path': '',
                'ln': n.get('ln')}
    return None


def is_full_fence(op):
    """a seq_cst fence or a seq_cst read-modify-write (both order all earlier stores before later loads)"""
    if op is None:
        return False
    if op['kind'] == 'fence':
        return op['order'] == SEQ_CST
    if op['kind'] in ('rmw', 'cas'):
        return op['order'] == SEQ_CST
    return False


def atomic_ops(fn, reachable_only=True):
    """[(pos, op)] for all atomic operations that are CFG elements of fn"""
    out = []
    for pos, s, n in fn.stmt_elems(('call',), reachable_only):
        op = atomic_op(fn, s)
        if op:
            out.append((pos, op))
    return out
