"""Reusable rule primitives (rule kinds K1..K14 of DESIGN.md are compositions of these)."""
from .facts import (AnalysisBroken, atomic_op, atomic_ops, is_full_fence, has_acquire, has_release,
                    RELAXED, ACQUIRE, RELEASE, ACQ_REL, SEQ_CST, ORDER)


def oname(o):
    return ORDER.get(o, 'non-constant')


def last_member(fn, s):
    """name of the field finally designated by expression s (through rd/casts/index), or None"""
    s = fn.strip(s)
    n = fn.n(s)
    k = n.get('k')
    if k == 'member':
        return n['n']
    if k == 'index':
        return last_member(fn, n['base'])
    if k == 'call' and n.get('op') == '[]':
        return last_member(fn, n.get('obj', -1))
    if k == 'unop' and n['op'] in ('*', '&'):
        return last_member(fn, n['sub'])
    if k == 'var':
        return n['n']
    return None


def root_of(fn, s):
    """root node of an access path (var / this / call)"""
    for _ in range(60):
        s = fn.strip(s)
        n = fn.n(s)
        k = n.get('k')
        if k == 'member':
            if n.get('base', -1) < 0:
                return s
            s = n['base']
        elif k == 'index':
            s = n['base']
        elif k == 'unop' and n['op'] in ('*', '&'):
            s = n['sub']
        elif k == 'call' and n.get('op') in ('[]', '->', '*') and n.get('obj', -1) >= 0:
            s = n['obj']
        else:
            return s
    return s


def calls(fn, names=None, pred=None, reachable_only=True, kinds=('call',)):
    """[(pos, s, node, decl)] for call elements whose callee primary name is in `names` (exact) or satisfies pred(decl)"""
    out = []
    for pos, s, n in fn.stmt_elems(kinds, reachable_only):
        d = fn.callee(s)
        if not d:
            continue
        if names is not None and d['p'] not in names:
            continue
        if pred is not None and not pred(d):
            continue
        out.append((pos, s, n, d))
    return out


def calls_named(fn, shortnames, reachable_only=True, kinds=('call',)):
    """calls whose callee *simple* name (method/function name) is in shortnames"""
    return calls(fn, pred=lambda d: d['n'] in shortnames, reachable_only=reachable_only, kinds=kinds)


def atomics_on(fn, member, kinds=None, reachable_only=True):
    out = []
    for pos, op in atomic_ops(fn, reachable_only):
        if op['kind'] == 'fence':
            continue
        if last_member(fn, op['obj']) != member:
            continue
        if kinds and op['kind'] not in kinds:
            continue
        out.append((pos, op))
    return out


def is_call_to(fn, e, shortnames=None, pnames=None):
    if not isinstance(e, int):
        return False
    n = fn.nodes[e]
    if n.get('k') not in ('call', 'ctor'):
        return False
    d = fn.callee(e)
    if not d:
        return False
    if shortnames is not None and d['n'] in shortnames:
        return True
    if pnames is not None and d['p'] in pnames:
        return True
    return False


def elem_fn_uid(e, fn):
    """callee uid of an element (explicit call/ctor or implicit destructor element)"""
    if isinstance(e, int):
        n = fn.nodes[e]
        if n.get('k') in ('call', 'ctor', 'delete', 'new'):
            return n.get('fn')
        return None
    if isinstance(e, dict) and 'd' in e:
        return e.get('fn')
    return None


def every_path_passes(fn, start, pass_pred, end='exit', stop_edge=None):
    """every path from program point `start` (exclusive) to `end` ('exit' or a position) passes an element satisfying
    pass_pred(pos, elem).  Returns (ok, witness text)."""
    if end == 'exit':
        reached, ex, parent = fn.walk(start, stop_elem=pass_pred, stop_edge=stop_edge)
        if not ex:
            return True, ''
        b0 = fn.entry if start == 'entry' else start[0]
        return False, 'path reaching the function exit: ' + fn.block_lines(fn.witness(parent, b0, fn.exit))
    q = end

    def stopper(pos, e):
        if pos == q:
            return False
        return pass_pred(pos, e)
    reached, ex, parent = fn.walk(start, stop_elem=stopper, stop_edge=stop_edge)
    if q not in reached:
        return True, ''
    b0 = fn.entry if start == 'entry' else start[0]
    return False, 'path: ' + fn.block_lines(fn.witness(parent, b0, q[0]))


def dominated_by_elem(fn, q, pred):
    """every path entry -> q passes an element satisfying pred"""
    return every_path_passes(fn, 'entry', pred, end=q)


def edges_where(fn, atom_pred):
    """set of CFG edges (block, succ_index) on which some condition atom satisfies atom_pred(node_id, truth)"""
    out = set()
    for b, blk in fn.blocks.items():
        if len(blk['succ']) != 2 or not blk.get('term') or 'c' not in blk['term']:
            continue
        for si in (0, 1):
            if blk['succ'][si] is None:
                continue
            for (s, truth) in fn.edge_conds(b, si):
                if atom_pred(s, truth):
                    out.add((b, si))
    return out


def dominated_by_edges(fn, q, edges, extra_elem=None):
    """True iff every path entry -> q takes one of `edges` (collective dominance).
    Implemented as: q is unreachable from entry when the walk may use any edge but is *required* to avoid them -- i.e.
    q reachable in the graph with `edges` removed means some path avoids all of them."""
    es = set(edges)

    def stop_edge(b, si):
        return (b, si) in es
    stopper = None
    if extra_elem is not None:
        def stopper(pos, e):
            if pos == q:
                return False
            return extra_elem(pos, e)
    reached, ex, parent = fn.walk('entry', stop_elem=stopper, stop_edge=stop_edge)
    if q in reached:
        return False, 'path avoiding the guard: ' + fn.block_lines(fn.witness(parent, fn.entry, q[0]))
    return True, ''


def reachable_from_edges(fn, edges):
    """positions reachable after taking one of `edges`"""
    out = set()
    for (b, si) in edges:
        tgt = fn.blocks[b]['succ'][si]
        if tgt is None:
            continue
        reached, ex, parent = fn.walk((tgt, -1))
        out |= reached
    return out


# ---------------------------------------------------------------------------------------------
# interprocedural summaries
# ---------------------------------------------------------------------------------------------
class Summaries(object):
    def __init__(self, facts, max_depth=8):
        self.facts = facts
        self.max_depth = max_depth
        self._may = {}
        self._must = {}

    def targets(self, fn, e, may=True):
        """function bodies an element can transfer control to (resolved callee, overriders for virtual calls when may)"""
        u = elem_fn_uid(e, fn)
        out = []
        if isinstance(e, int):
            n = fn.nodes[e]
            if n.get('k') == 'lambda':
                return []
        if not u:
            return out
        f = self.facts.fns.get(u)
        if f is not None:
            out.append(f)
        if may and isinstance(e, int) and fn.nodes[e].get('virt'):
            for ou in self.facts.overriders(u):
                g = self.facts.fns.get(ou)
                if g is not None:
                    out.append(g)
        return out

    def may(self, fn, key, pred, depth=None, _stack=None):
        """some path through fn (or its callees up to max_depth) contains an element with pred(fn, pos, elem) true"""
        depth = self.max_depth if depth is None else depth
        ck = (key, fn.u)
        if ck in self._may:
            return self._may[ck]
        _stack = _stack or set()
        if fn.u in _stack:
            return False
        _stack = _stack | {fn.u}
        res = False
        for b, i, e in fn.iter_elems():
            if pred(fn, (b, i), e):
                res = True
                break
            if depth > 0:
                for g in self.targets(fn, e, may=True):
                    if self.may(g, key, pred, depth - 1, _stack):
                        res = True
                        break
                if res:
                    break
        # a negative answer found with a reduced depth budget (or inside a cycle) is not final: only positive answers and
        # answers of top-level queries are remembered
        if res or (depth == self.max_depth and len(_stack) == 1):
            self._may[ck] = res
        return res

    def must(self, fn, key, pred, depth=None, _stack=None):
        """every path entry->exit of fn passes an element with pred true, or a call whose (static) callee must"""
        depth = self.max_depth if depth is None else depth
        ck = (key, fn.u)
        if ck in self._must:
            return self._must[ck]
        _stack = _stack or set()
        if fn.u in _stack:
            return False
        _stack2 = _stack | {fn.u}

        def passes(pos, e):
            if pred(fn, pos, e):
                return True
            if depth > 0:
                u = elem_fn_uid(e, fn)
                if u:
                    g = self.facts.fns.get(u)
                    if g is not None and not (isinstance(e, int) and fn.nodes[e].get('virt')):
                        return self.must(g, key, pred, depth - 1, _stack2)
            return False
        ok, _ = every_path_passes(fn, 'entry', passes)
        if ok or (depth == self.max_depth and not _stack):
            self._must[ck] = ok
        return ok

    def elem_must(self, fn, pos, e, key, pred):
        """element e itself satisfies pred or is a call to a function that must"""
        if pred(fn, pos, e):
            return True
        u = elem_fn_uid(e, fn)
        if u:
            g = self.facts.fns.get(u)
            if g is not None and not (isinstance(e, int) and fn.nodes[e].get('virt')):
                return self.must(g, key, pred)
        return False

    def elem_may(self, fn, pos, e, key, pred):
        if pred(fn, pos, e):
            return True
        for g in self.targets(fn, e, may=True):
            if self.may(g, key, pred):
                return True
        return False


# ---------------------------------------------------------------------------------------------
# RAII helpers
# ---------------------------------------------------------------------------------------------
def local_objects(fn, cls_pred):
    """[(decl pos, var id, var dict, ctor node id)] for local variables whose class satisfies cls_pred(pname)"""
    out = []
    for pos, s, n in fn.stmt_elems(('decl',)):
        for v in n['vars']:
            c = v.get('cls')
            if c and cls_pred(c):
                out.append((pos, v['v'], v, v.get('init', -1)))
    return out


def auto_dtor_positions(fn, var_id):
    out = []
    for b, i, e in fn.iter_elems():
        if isinstance(e, dict) and e.get('d') == 'auto' and e.get('v') == var_id:
            out.append((b, i))
    return out


def scoped_lock_regions(fn, lock_cls_pred, mutex_member=None):
    """For each RAII lock object: (var dict, ctor node, set of positions where the lock is held).
    The lock is held from its declaration to its automatic destructor, minus the stretch after an explicit
    `.release()` up to a following `.acquire(...)`.  mutex_member filters on the last member name of the ctor's
    first argument."""
    regions = []
    for pos, vid, v, init in local_objects(fn, lock_cls_pred):
        ctor = fn.n(init)
        args = ctor.get('a', []) if ctor.get('k') == 'ctor' else []
        mname = last_member(fn, args[0]) if args else None
        if mutex_member is not None and mname not in (mutex_member if isinstance(mutex_member, (set, tuple, list)) else (mutex_member,)):
            continue
        dpos = set(auto_dtor_positions(fn, vid))

        def is_var_call(e, names):
            if not isinstance(e, int):
                return False
            n = fn.nodes[e]
            if n.get('k') != 'call' or n.get('obj', -1) < 0:
                return False
            o = fn.n(fn.strip(n['obj']))
            if o.get('k') != 'var' or o.get('v') != vid:
                return False
            d = fn.callee(e)
            return bool(d) and d['n'] in names

        held_initially = bool(args)   # default-constructed scoped locks hold nothing
        held = set()
        # state walk: positions reachable while held
        # phase 1: from declaration (if constructed with a mutex)
        starts = []
        if held_initially:
            starts.append(pos)
        for p2, s2, n2 in fn.stmt_elems(('call',)):
            if is_var_call(s2, ('acquire', 'lock', 'try_acquire')):
                starts.append(p2)
        for st in starts:
            reached, ex, parent = fn.walk(st, stop_elem=lambda p, e: p in dpos or is_var_call(e, ('release', 'unlock')))
            held |= reached
        regions.append({'var': v, 'ctor': init, 'pos': pos, 'mutex': mname, 'mutex_path': fn.path(args[0]) if args else None,
                        'held': held, 'args': args})
    return regions


# ---------------------------------------------------------------------------------------------
# forward must-dataflow (sets; meet = intersection) over program points
# ---------------------------------------------------------------------------------------------
def dataflow_must(fn, transfer_elem, transfer_edge=None, init=frozenset(), may=False, start_block=None):
    """Returns {pos: state-before-element}, {block: state-at-block-end}.  States are frozensets.
    With may=True the meet is union (may-analysis)."""
    TOP = None
    inb = {b: TOP for b in fn.blocks}
    start_block = fn.entry if start_block is None else start_block
    inb[start_block] = frozenset(init)
    before = {}
    outb = {}
    work = [start_block]
    iters = 0
    while work:
        iters += 1
        if iters > 20000:
            raise AnalysisBroken('dataflow did not converge in %s' % fn.q)
        b = work.pop()
        st = inb[b]
        if st is TOP:
            continue
        for i, e in enumerate(fn.blocks[b]['e']):
            before[(b, i)] = st
            st = transfer_elem(st, (b, i), e)
        outb[b] = st
        blk = fn.blocks[b]
        if blk.get('noret'):
            continue
        for si, s in enumerate(blk['succ']):
            if s is None:
                continue
            st2 = transfer_edge(st, b, si) if transfer_edge else st
            old = inb[s]
            if old is TOP:
                new = st2
            else:
                new = (old | st2) if may else (old & st2)
            if new != old:
                inb[s] = new
                work.append(s)
    return before, outb


LOCK_ACQ = ('acquire', 'lock', 'lock_shared', 'lock_read')
LOCK_REL = ('release', 'unlock', 'unlock_shared')
LOCK_TRY = ('try_acquire', 'try_lock', 'try_lock_shared')


def lockset(fn, lock_cls_pred):
    """must-lockset for RAII lock objects declared in fn.
    Returns (before: {pos: frozenset(var ids held)}, info: {var id: {'mutex': last member name, 'path': ..}})"""
    info = {}
    for pos, vid, v, init in local_objects(fn, lock_cls_pred):
        ctor = fn.n(init)
        args = ctor.get('a', []) if ctor.get('k') == 'ctor' else []
        info[vid] = {'var': v['n'], 'mutex': last_member(fn, args[0]) if args else None,
                     'path': fn.path(args[0]) if args else None, 'args': args, 'decl_pos': pos, 'cls': v.get('cls')}

    def var_call(e):
        if not isinstance(e, int):
            return None, None
        n = fn.nodes[e]
        if n.get('k') != 'call' or n.get('obj', -1) < 0:
            return None, None
        o = fn.n(fn.strip(n['obj']))
        if o.get('k') != 'var' or o.get('v') not in info:
            return None, None
        d = fn.callee(e)
        return o['v'], (d['n'] if d else None)

    def tr(st, pos, e):
        if isinstance(e, int):
            n = fn.nodes[e]
            if n.get('k') == 'decl':
                for v in n['vars']:
                    if v['v'] in info and info[v['v']]['args']:
                        st = st | {v['v']}
                return st
            vid, nm = var_call(e)
            if vid is not None:
                if nm in LOCK_ACQ:
                    a = n.get('a', [])
                    if a and info[vid]['mutex'] is None:
                        info[vid]['mutex'] = last_member(fn, a[0])
                        info[vid]['path'] = fn.path(a[0])
                    return st | {vid}
                if nm in LOCK_REL:
                    return st - {vid}
                if nm in LOCK_TRY:
                    a = n.get('a', [])
                    if a and info[vid]['mutex'] is None:
                        info[vid]['mutex'] = last_member(fn, a[0])
                        info[vid]['path'] = fn.path(a[0])
            return st
        if isinstance(e, dict) and e.get('d') == 'auto' and e.get('v') in info:
            return st - {e['v']}
        return st

    def tre(st, b, si):
        for (s, truth) in fn.edge_conds(b, si):
            vid, nm = var_call(fn.strip(s))
            if vid is not None and nm in LOCK_TRY and truth:
                st = st | {vid}
        return st
    before, outb = dataflow_must(fn, tr, tre)
    return before, info


# ---------------------------------------------------------------------------------------------
# reaching definitions of local variables / parameters (may analysis)
# ---------------------------------------------------------------------------------------------
class Defs(object):
    """reaching definitions for the local variables of one function.
    A definition is (var id, node id) where node is: a decl (init), an assignment binop, a ++/-- unop, or a call that
    receives the variable by reference / address ('escape' def).  Parameters start with def node -1."""

    def __init__(self, fn):
        self.fn = fn
        self.defs_at = {}     # element node id -> [(vid, defnode, value node or None)]
        pm = fn.parent_map()
        for pos, s, n in fn.stmt_elems(None, reachable_only=False):
            k = n.get('k')
            if k == 'decl':
                for v in n['vars']:
                    self.defs_at.setdefault(s, []).append((v['v'], s, v.get('init', None)))
            elif k == 'binop' and n['op'] in ('=', '+=', '-=', '*=', '/=', '|=', '&=', '^=', '<<=', '>>=', '%='):
                l = fn.n(n['l'])
                if l.get('k') == 'var':
                    self.defs_at.setdefault(s, []).append((l['v'], s, n['r'] if n['op'] == '=' else None))
            elif k == 'unop' and n['op'] in ('++', '--'):
                l = fn.n(n['sub'])
                if l.get('k') == 'var':
                    self.defs_at.setdefault(s, []).append((l['v'], s, None))
            elif k in ('call', 'ctor'):
                d = fn.callee(s)
                mut = (d or {}).get('mut')
                args = list(n.get('a', []))
                # operator calls written as member calls carry the object separately: parameters index the explicit arguments
                for idx, a in enumerate(args):
                    an = fn.n(a)
                    can_modify = True if mut is None or idx >= len(mut) else bool(mut[idx])
                    if not can_modify:
                        continue
                    if an.get('k') == 'var' and 'fn' not in an:
                        # the variable is bound to a non-const reference parameter: the call may redefine it
                        self.defs_at.setdefault(s, []).append((an['v'], s, None))
                    elif an.get('k') == 'unop' and an['op'] == '&' and fn.n(an['sub']).get('k') == 'var':
                        self.defs_at.setdefault(s, []).append((fn.n(an['sub'])['v'], s, None))
        init = frozenset((p['v'], -1) for p in fn.d.get('params', []))

        def tr(st, pos, e):
            if isinstance(e, int) and e in self.defs_at:
                ds = self.defs_at[e]
                vids = set(d[0] for d in ds)
                escape_only = fn.nodes[e].get('k') in ('call', 'ctor')
                if escape_only:
                    # may-def: keep the old definitions too
                    return st | frozenset((d[0], d[1]) for d in ds)
                st = frozenset(x for x in st if x[0] not in vids)
                return st | frozenset((d[0], d[1]) for d in ds)
            return st
        self.before, _ = dataflow_must(fn, tr, None, init=init, may=True)
        self.value_of = {}
        for s, ds in self.defs_at.items():
            for vid, dn, val in ds:
                self.value_of[(vid, dn)] = val

    def reaching(self, pos, vid):
        st = self.before.get(pos)
        if st is None:
            return None
        return [d for (v, d) in st if v == vid]

    def unique_value(self, use_node):
        """if use_node (a var use) has exactly one reaching definition with a value expression, return that value node"""
        fn = self.fn
        s = fn.strip(use_node)
        n = fn.n(s)
        if n.get('k') != 'var':
            return None
        pos = fn.pos_of(s)
        if pos is None:
            return None
        ds = self.reaching(pos, n['v'])
        if not ds or len(ds) != 1:
            return None
        return self.value_of.get((n['v'], ds[0]))

    def values(self, use_node):
        """all reaching value expressions (None entries for unknown defs)"""
        fn = self.fn
        s = fn.strip(use_node)
        n = fn.n(s)
        if n.get('k') != 'var':
            return None
        pos = fn.pos_of(s)
        if pos is None:
            return None
        ds = self.reaching(pos, n['v'])
        if ds is None:
            return None
        return [(d, self.value_of.get((n['v'], d))) for d in ds]


def resolve_cond_source(fn, defs, s):
    """for a condition atom node: the expression whose value is tested -- looks through a variable with a unique reaching
    definition (e.g. `if (T* t = f())`, `t = f(); if (!t)`) and through assignment expressions `(x = f())`"""
    s = fn.strip(s)
    n = fn.n(s)
    for _ in range(6):
        if n.get('k') == 'var':
            v = defs.unique_value(s)
            if v is None:
                return s
            s = fn.strip(v)
            n = fn.n(s)
            continue
        if n.get('k') == 'binop' and n['op'] == '=':
            s = fn.strip(n['r'])
            n = fn.n(s)
            continue
        break
    return s


# ---------------------------------------------------------------------------------------------
# field access classification
# ---------------------------------------------------------------------------------------------
ASSIGN_OPS = ('=', '+=', '-=', '*=', '/=', '|=', '&=', '^=', '<<=', '>>=', '%=')


def access_kind(fn, s):
    """how the lvalue designated by node s is used: 'read', 'write', 'rmw', 'call:<name>', 'addr', 'other'"""
    pm = fn.parent_map()
    cur = s
    for _ in range(12):
        p = pm.get(cur)
        if p is None:
            return 'other'
        pn = fn.nodes[p]
        k = pn.get('k')
        if k == 'rd':
            return 'read'
        if k == 'binop' and pn['op'] in ASSIGN_OPS and pn['l'] == cur:
            return 'write'
        if k == 'unop' and pn['op'] in ('++', '--'):
            return 'write'
        if k == 'unop' and pn['op'] == '&':
            return 'addr'
        if k == 'call' and pn.get('obj') == cur:
            op = atomic_op(fn, p)
            if op:
                return {'load': 'read', 'store': 'write', 'rmw': 'rmw', 'cas': 'rmw'}.get(op['kind'], 'other')
            d = fn.callee(p)
            return 'call:' + (d['n'] if d else '?')
        if k in ('member', 'index', 'cast'):
            cur = p
            continue
        if k == 'call':
            return 'arg'
        return 'other'
    return 'other'


def member_accesses(fn, names, reachable_only=True):
    """[(pos, s, node, kind)] for member nodes whose field name is in names"""
    out = []
    for pos, s, n in fn.stmt_elems(('member',), reachable_only):
        if n['n'] in names and 'fn' not in n:
            out.append((pos, s, n, access_kind(fn, s)))
    return out


def full_fence_pred(facts):
    """element predicate: a seq_cst fence / seq_cst RMW, or a call to a function every path of which contains one"""
    summ = Summaries(facts, max_depth=3)

    def pred(fn, pos, e):
        return isinstance(e, int) and is_full_fence(atomic_op(fn, e))

    def elem(fn, pos, e):
        return summ.elem_must(fn, pos, e, 'fullfence', pred)
    return elem


# ---------------------------------------------------------------------------------------------
# assignments and value identity (class-typed values use operator= / copy constructors)
# ---------------------------------------------------------------------------------------------
def assignments(fn, reachable_only=True):
    """[(pos, node id, lhs node, rhs node)] for built-in `=` and for overloaded operator= calls"""
    out = []
    for pos, s, n in fn.stmt_elems(('binop', 'call'), reachable_only):
        if n.get('k') == 'binop' and n['op'] == '=':
            out.append((pos, s, n['l'], n['r']))
        elif n.get('k') == 'call' and n.get('op') == '=' and n.get('obj', -1) >= 0 and n.get('a'):
            if atomic_op(fn, s):
                continue
            out.append((pos, s, n['obj'], n['a'][0]))
    return out


def value_root(fn, s):
    """look through reads, casts, copy/move constructions and std::move/std::forward"""
    for _ in range(10):
        s = fn.strip(s)
        n = fn.n(s)
        k = n.get('k')
        if k == 'ctor' and len(n.get('a', [])) == 1:
            s = n['a'][0]
            continue
        if k == 'call' and (fn.callee(s) or {}).get('p') in ('std::move', 'std::forward') and n.get('a'):
            s = n['a'][0]
            continue
        break
    return s


# ---------------------------------------------------------------------------------------------
# constant-flag pruning: `reserved = true; ... if (reserved)` -- the false edge is infeasible on that path
# ---------------------------------------------------------------------------------------------
def constant_flag_states(fn, start_block=None):
    """must-dataflow over local variables whose every definition is a constant: state = frozenset of (var id, value).
    Returns a stop_edge(state_at_block_end) helper: edges that contradict the known value of a branch-on-variable."""
    defs = Defs(fn)
    const_def = {}
    for s, ds in defs.defs_at.items():
        for vid, dn, val in ds:
            v = fn.cv(val) if val is not None else None
            const_def[(vid, dn)] = v

    def tr(st, pos, e):
        if isinstance(e, int) and e in defs.defs_at:
            for vid, dn, val in defs.defs_at[e]:
                st = frozenset(x for x in st if x[0] != vid)
                v = const_def.get((vid, dn))
                if v is not None and fn.nodes[e].get('k') in ('decl', 'binop'):
                    st = st | {(vid, int(v))}
            return st
        return st
    before, outb = dataflow_must(fn, tr, None, start_block=start_block)
    infeasible = set()
    for b, blk in fn.blocks.items():
        t = blk.get('term')
        if not t or 'c' not in t or len(blk['succ']) != 2 or b not in outb:
            continue
        known = dict(outb[b])
        for si in (0, 1):
            for (s, truth) in fn.edge_conds(b, si):
                n = fn.n(fn.strip(s))
                if n.get('k') == 'var' and n.get('v') in known:
                    if bool(known[n['v']]) != truth:
                        infeasible.add((b, si))
    return infeasible


# ---------------------------------------------------------------------------------------------
# identifying local variables / parameters structurally (never by their spelling)
# ---------------------------------------------------------------------------------------------
def vars_initialised_from(fn, call_nodes):
    """ids of local variables whose declaration / assignment takes its value from one of the given call nodes"""
    out = set()
    cn = set(call_nodes)
    for pos, s, n in fn.stmt_elems(('decl',)):
        for v in n['vars']:
            if 'init' in v and (fn.subtree(v['init']) & cn):
                out.add(v['v'])
    for pos, s, l, r in assignments(fn):
        ln = fn.n(fn.strip(l))
        if ln.get('k') == 'var' and (fn.subtree(r) & cn):
            out.add(ln['v'])
    return out


def param_ids(fn, type_pred):
    """variable ids of the parameters whose type satisfies type_pred"""
    return [p['v'] for p in fn.d.get('params', []) if type_pred(p['ty'])]


def is_var(fn, s, vids):
    n = fn.n(fn.strip(s))
    return n.get('k') == 'var' and n.get('v') in vids


def returned_vars(fn):
    out = set()
    for pos, s, n in fn.stmt_elems(('return',)):
        v = fn.n(fn.strip(n.get('sub', -1)))
        if v.get('k') == 'var':
            out.add(v['v'])
    return out


# ---------------------------------------------------------------------------------------------
# path exploration with a small abstract state (product construction): used where a rule must correlate a branch on a
# variable (`if (result)`) with what happened to that variable earlier on the same path
# ---------------------------------------------------------------------------------------------
def product_walk(fn, init, elem_tr, edge_tr=None, start_block=None, limit=200000):
    """explore all (block, state) pairs reachable from the entry (or start_block) with state `init`.
    elem_tr(state, pos, e) -> state ; edge_tr(state, b, si) -> state | None (None = edge infeasible in that state).
    Returns {(block, state_in)}: parent (block, state) (for witnesses)."""
    start = fn.entry if start_block is None else start_block
    seen = {(start, init): None}
    work = [(start, init)]
    while work:
        if len(seen) > limit:
            raise AnalysisBroken('product_walk explodes in %s' % fn.q)
        b, st0 = work.pop()
        st = st0
        blk = fn.blocks[b]
        for i, e in enumerate(blk['e']):
            st = elem_tr(st, (b, i), e)
        if blk.get('noret'):
            continue
        for si, s in enumerate(blk['succ']):
            if s is None:
                continue
            st2 = edge_tr(st, b, si) if edge_tr else st
            if st2 is None:
                continue
            if (s, st2) not in seen:
                seen[(s, st2)] = (b, st0)
                work.append((s, st2))
    return seen


def product_walk_from(fn, start_pos, init, elem_tr, edge_tr=None, limit=200000):
    """like product_walk, but starts *after* program point start_pos = (block, index) (index -1: block start) and reports
    every (pos, state_before_elem) visited: returns (visits, exits) where visits = {(pos, state)} and exits = set of states
    in which the function exit is reached.  elem_tr(state, pos, e) -> state | None (None = stop this path here)."""
    b0, i0 = start_pos
    seen = set()
    visits = set()
    exits = set()
    work = [(b0, i0 + 1, init)]
    while work:
        if len(seen) > limit:
            raise AnalysisBroken('product_walk_from explodes in %s' % fn.q)
        b, i_from, st = work.pop()
        if (b, i_from, st) in seen:
            continue
        seen.add((b, i_from, st))
        blk = fn.blocks[b]
        stopped = False
        for i in range(i_from, len(blk['e'])):
            e = blk['e'][i]
            visits.add(((b, i), st))
            st = elem_tr(st, (b, i), e)
            if st is None:
                stopped = True
                break
        if stopped or blk.get('noret'):
            continue
        if b == fn.exit:
            exits.add(st)
            continue
        for si, x in enumerate(blk['succ']):
            if x is None:
                continue
            st2 = edge_tr(st, b, si) if edge_tr else st
            if st2 is None:
                continue
            work.append((x, 0, st2))
    return visits, exits


def bool_vars_tracker(fn):
    """track what a path knows about the truth of every local variable that occurs as a branch atom: state is a tuple of
    (vid, 'T'|'F') facts.  Returns (on_elem(state, e) -> state, on_edge(state, b, si) -> state | None)."""
    defs = Defs(fn)
    tested = set()
    for b, blk in fn.blocks.items():
        if len(blk['succ']) == 2 and blk.get('term') and 'c' in blk['term']:
            for si in (0, 1):
                for (sx, truth) in fn.edge_conds(b, si):
                    n = fn.n(fn.strip(sx))
                    if n.get('k') == 'var' and 'glob' not in n:
                        tested.add(n['v'])

    def on_elem(state, e):
        if isinstance(e, int) and e in defs.defs_at:
            d = dict(state)
            for v, dn, val in defs.defs_at[e]:
                if v in tested:
                    c = fn.cv(val) if val is not None else None
                    if c is None:
                        d.pop(v, None)
                    else:
                        d[v] = 'T' if c else 'F'
            return tuple(sorted(d.items()))
        return state

    def on_edge(state, b, si):
        d = dict(state)
        for (sx, truth) in fn.edge_conds(b, si):
            n = fn.n(fn.strip(sx))
            if n.get('k') == 'var' and n.get('v') in tested:
                want = 'T' if truth else 'F'
                if d.get(n['v'], want) != want:
                    return None
                d[n['v']] = want
        return tuple(sorted(d.items()))
    return on_elem, on_edge


def var_truth_tracker(fn, vid):
    """(elem_tr, edge_tr) pieces tracking what a path knows about the truth value of local variable `vid`:
    'T' / 'F' / 'U'.  Definitions by a constant give T/F, any other definition gives U; branch atoms on the variable
    refine the state and prune contradicting edges."""
    defs = Defs(fn)

    def on_elem(state, e):
        if isinstance(e, int) and e in defs.defs_at:
            for v, dn, val in defs.defs_at[e]:
                if v == vid:
                    c = fn.cv(val) if val is not None else None
                    if c is None and val is not None and fn.n(fn.strip(val)).get('null'):
                        c = 0
                    return 'U' if c is None else ('T' if c else 'F')
        return state

    def on_edge(state, b, si):
        for (s, truth) in fn.edge_conds(b, si):
            n = fn.n(fn.strip(s))
            if n.get('k') == 'var' and n.get('v') == vid:
                want = 'T' if truth else 'F'
                if state != 'U' and state != want:
                    return None
                state = want
        return state
    return on_elem, on_edge


# ---------------------------------------------------------------------------------------------
# structural expression keys and symbolic bounds (SYM + c): used by the guard-agreement / capacity rules
# ---------------------------------------------------------------------------------------------
def expr_key(fn, s):
    """structural key of an expression, looking through reads and integral casts"""
    s = fn.strip(s)
    n = fn.n(s)
    k = n.get('k')
    if k == 'var':
        return ('g', n['glob']) if 'glob' in n else ('v', n['v'])
    if k == 'enum':
        return ('g', n.get('q'))
    if k == 'lit' and n.get('cv') is not None:
        return ('c', int(n['cv']))
    if k == 'binop':
        return ('b', n['op'], expr_key(fn, n['l']), expr_key(fn, n['r']))
    if k == 'member':
        return ('m', n['n'], expr_key(fn, n['base']) if n.get('base', -1) >= 0 else None)
    if k == 'this':
        return ('this',)
    if k == 'unop' and n['op'] in ('*', '&', '-', '!', '~'):
        return ('u', n['op'], expr_key(fn, n['sub']))
    if k == 'call' and n.get('op') in ('->', '*') and not n.get('a') and n.get('obj', -1) >= 0:
        # iterator / smart-pointer dereference: identified by the object it is applied to
        return ('u', n['op'], expr_key(fn, n['obj']))
    return ('?', s)


def sym_bound(fn, s):
    """(symbol key or None, integer offset) for `SYM`, `SYM - c`, `SYM + c` or a constant"""
    c = fn.cv(s)
    if c is not None:          # compile-time constant: compare numerically
        return None, int(c)
    s = fn.strip(s)
    n = fn.n(s)
    if n.get('k') == 'binop' and n['op'] in ('+', '-'):
        c = fn.cv(n['r'])
        if c is not None and fn.cv(n['l']) is None:
            sym, off = sym_bound(fn, n['l'])
            return sym, off + (int(c) if n['op'] == '+' else -int(c))
    if n.get('k') in ('var', 'enum'):
        return expr_key(fn, s), 0
    c = fn.cv(s)
    if c is not None:
        return None, int(c)
    return expr_key(fn, s), 0


