"""Extraction orchestration, obligation bookkeeping, verdict protocol and evidence writing."""
import json
import os
import shutil
import subprocess
import sys
import time
from concurrent.futures import ThreadPoolExecutor

from .facts import Facts, AnalysisBroken

VERIF = os.path.dirname(os.path.dirname(os.path.abspath(__file__)))
REPO = os.environ.get('VERIF_REPO', '/repo')
TBBSA = os.path.join(VERIF, '.work', 'bin', 'tbbsa')
RESOURCE_DIR = '/usr/lib/llvm-14/lib/clang/14.0.6'

# Flags of the real build (ninja -t compdb of the repo's CMake build, reduced to what the front end needs).
COMMON = ['-I%s/include' % REPO, '-fPIC', '-mrtm', '-mwaitpkg', '-D__TBB_GNU_ASM_VERSION=2040', '-w',
          '-resource-dir', RESOURCE_DIR, '-UNDEBUG_VERIF']
TBB_FLAGS = ['-D__TBB_BUILD', '-D__TBB_USE_ITT_NOTIFY'] + COMMON
MALLOC_FLAGS = ['-D__TBBMALLOC_BUILD', '-D__TBB_USE_ITT_NOTIFY', '-fno-rtti', '-fno-exceptions'] + COMMON
DRIVER_FLAGS = COMMON + ['-I%s/drivers' % VERIF]

CONFIGS = {
    # name: (std, extra defines)
    'release11': ['-std=c++11', '-DNDEBUG'],
    'release17': ['-std=c++17', '-DNDEBUG'],
    'debug11': ['-std=c++11', '-DTBB_USE_DEBUG=1'],
    # the documented, user-overridable capacity of the partitioners' range pool set to a value that is not a power of two
    'pool6': ['-std=c++11', '-DNDEBUG', '-D__TBB_RANGE_POOL_CAPACITY=6'],
    'preview17': ['-std=c++17', '-DNDEBUG', '-DTBB_PREVIEW_ISOLATED_TASK_GROUP=1', '-DTBB_PREVIEW_TASK_GROUP_EXTENSIONS=1',
                  '-DTBB_PREVIEW_FLOW_GRAPH_FEATURES=1', '-DTBB_PREVIEW_FLOW_GRAPH_TRY_PUT_AND_WAIT=1',
                  '-DTBB_PREVIEW_CONCURRENT_LRU_CACHE=1', '-DTBB_PREVIEW_MEMORY_POOL=1'],
}


def unit_flags(unit):
    if unit.startswith('src/tbbmalloc/'):
        return MALLOC_FLAGS
    if unit.startswith('src/tbb/'):
        return TBB_FLAGS
    if unit.startswith('drivers/tbb_'):
        return TBB_FLAGS + ['-iquote', '%s/src/tbb' % REPO]
    return DRIVER_FLAGS


def unit_path(unit):
    if unit.startswith('src/') or unit.startswith('include/'):
        return os.path.join(REPO, unit)
    return os.path.join(VERIF, unit)


class Workdir(object):
    _seq = 0

    def __init__(self):
        base = os.path.join(VERIF, '.work')
        os.makedirs(base, exist_ok=True)
        # one directory per instance: a rule may run an extra extraction (another configuration) while the main one is in use
        Workdir._seq += 1
        self.path = os.path.join(base, 'run-%d-%d' % (os.getpid(), Workdir._seq))
        shutil.rmtree(self.path, ignore_errors=True)
        os.makedirs(self.path)

    def cleanup(self):
        shutil.rmtree(self.path, ignore_errors=True)


def extract_one(args):
    unit, config, outdir = args
    src = unit_path(unit)
    if not os.path.exists(src):
        return unit, config, None, 'missing source file %s' % src
    out = os.path.join(outdir, '%s.%s.jsonl' % (unit.replace('/', '_'), config))
    cmd = [TBBSA, '--root', REPO + '/', '--root', VERIF + '/drivers/', '-o', out, src, '--'] + CONFIGS[config] + unit_flags(unit)
    p = subprocess.run(cmd, stdout=subprocess.PIPE, stderr=subprocess.PIPE, universal_newlines=True)
    if p.returncode != 0:
        return unit, config, None, 'tbbsa failed (%d): %s' % (p.returncode, p.stderr[-2000:])
    return unit, config, out, None


def extract(units, config, workdir, jobs=16):
    """run the extractor on each unit under one configuration, return a Facts"""
    if not os.path.exists(TBBSA):
        raise AnalysisBroken('extractor not built: run ./setup.sh')
    t0 = time.time()
    facts = Facts()
    with ThreadPoolExecutor(max_workers=jobs) as ex:
        results = list(ex.map(extract_one, [(u, config, workdir.path) for u in units]))
    for unit, cfg, out, err in results:
        if err:
            raise AnalysisBroken('unit %s [%s] could not be analysed: %s' % (unit, cfg, err))
    for unit, cfg, out, err in results:
        facts.load(out, unit)
        os.unlink(out)
    if facts.errors:
        raise AnalysisBroken('front-end errors in %s' % facts.errors)
    facts.extract_s = time.time() - t0
    facts.config = config
    return facts


class Report(object):
    """collects obligations for one property run"""

    def __init__(self, prop, tier):
        self.prop = prop
        self.tier = tier
        self.obs = {}       # key -> dict
        self.order = []
        self.floors = []
        self.notes = []
        self.configs = []
        self.units = set()
        self.functions = 0

    def ob(self, clause, rule, fn, site, ok, detail='', ln=None, key_extra=''):
        """record one obligation.  Instantiations of the same primary definition merge into one obligation
        (all must hold)."""
        if fn is not None:
            loc = '%s:%s' % (fn.file, ln if ln else fn.l0)
            fname = fn.p
            inst = fn.q
        else:
            loc, fname, inst = '-', '-', '-'
        key = (clause, rule, fname, site, key_extra)
        o = self.obs.get(key)
        if o is None:
            o = {'clause': clause, 'rule': rule, 'function': fname, 'site': site, 'loc': loc, 'ok': True, 'insts': 0, 'failing': [],
                 'detail': '', 'configs': set()}
            self.obs[key] = o
            self.order.append(key)
        o['insts'] += 1
        o['configs'].add(self.configs[-1] if self.configs else '-')
        if not ok:
            o['ok'] = False
            if len(o['failing']) < 4:
                o['failing'].append({'inst': inst, 'loc': loc, 'detail': detail, 'config': self.configs[-1] if self.configs else '-'})
            if not o['detail']:
                o['detail'] = detail
                o['loc'] = loc
        return ok

    def floor(self, clause, minimum, what=''):
        """at least `minimum` distinct obligations must have been recorded for the clause"""
        self.floors.append((clause, minimum, what))

    def count(self, clause):
        return sum(1 for k in self.obs if k[0] == clause)

    def check_floors(self):
        for clause, minimum, what in self.floors:
            n = self.count(clause)
            if n < minimum:
                raise AnalysisBroken('%s %s: matched %d instance(s), floor is %d (%s) -- the anchors moved; the rule is not '
                                     'evaluated rather than vacuously passed' % (self.prop, clause, n, minimum, what))

    def note(self, s):
        self.notes.append(s)


def load_known(prop):
    known, fixed = [], []
    path = os.path.join(VERIF, 'known_findings.txt')
    if os.path.exists(path):
        for line in open(path):
            line = line.strip()
            if not line or line.startswith('#'):
                continue
            if line.startswith('known:') and ('property=%s ' % prop) in line:
                known.append(line)
            elif line.startswith('fixed:') and ('property=%s ' % prop) in line:
                fixed.append(line)
    return known, fixed


def known_match(o, known_lines):
    for kl in known_lines:
        # a known finding is keyed by rule clause + function + site
        fields = dict(x.split('=', 1) for x in kl.split()[1:] if '=' in x)
        if fields.get('clause') == o['clause'] and fields.get('function') == o['function'] and \
                (fields.get('site') is None or fields.get('site') == o['site'].replace(' ', '_')):
            return kl
    return None


def finish(rep, meta, t0, explanation, assumptions, nd):
    """print verdicts, write evidence, return exit status"""
    known, fixed = load_known(rep.prop)
    obs = [rep.obs[k] for k in rep.order]
    viol = []
    kf = []
    for o in obs:
        if o['ok']:
            continue
        m = known_match(o, known)
        if m:
            kf.append((o, m))
        else:
            viol.append(o)
    per_clause = {}
    for o in obs:
        c = per_clause.setdefault(o['clause'], {'obligations': 0, 'discharged': 0, 'instantiations': 0})
        c['obligations'] += 1
        c['instantiations'] += o['insts']
        if o['ok']:
            c['discharged'] += 1
    for c in sorted(per_clause):
        print('  %s %-4s obligations=%d discharged=%d instantiations=%d' % (rep.prop, c, per_clause[c]['obligations'],
                                                                          per_clause[c]['discharged'], per_clause[c]['instantiations']))
    for o, m in kf:
        print('KNOWN-FINDING: property=%s %s %s at %s: %s' % (rep.prop, o['clause'], o['function'], o['loc'], o['detail']))
    replay_dir = os.path.join(VERIF, '.work', 'replay')
    os.makedirs(replay_dir, exist_ok=True)
    for old_rp in os.listdir(replay_dir):          # replay records of an earlier run of this property are stale
        if old_rp.startswith(rep.prop + '-') and old_rp.endswith('.json'):
            os.unlink(os.path.join(replay_dir, old_rp))
    for i, o in enumerate(viol):
        rp = os.path.join(replay_dir, '%s-%d.json' % (rep.prop, i))
        with open(rp, 'w') as f:
            json.dump({'property': rep.prop, 'clause': o['clause'], 'rule': o['rule'], 'function': o['function'], 'site': o['site'],
                       'loc': o['loc'], 'detail': o['detail'], 'failing': o['failing'],
                       'reproduce': './check %s --tier %s' % (rep.prop, rep.tier)}, f, indent=1)
        print('%s: %s [%s/%s] %s -- %s' % (o['loc'], o['function'], o['clause'], o['rule'], o['site'], o['detail']))
        print('VIOLATION property=%s replay=%s' % (rep.prop, rp))
    samples = []
    seen_clause = {}
    for o in obs:
        if seen_clause.get(o['clause'], 0) >= 3:
            continue
        seen_clause[o['clause']] = seen_clause.get(o['clause'], 0) + 1
        samples.append({'clause': o['clause'], 'rule': o['rule'], 'function': o['function'], 'site': o['site'], 'loc': o['loc'],
                        'instantiations': o['insts'], 'verdict': 'holds' if o['ok'] else 'VIOLATED'})
    ev = {
        'property_id': rep.prop,
        'tier': rep.tier,
        'seed': int(os.environ.get('VERIF_SEED', '0') or 0),
        'level': 'other',
        'coverage': {
            'explanation': explanation,
            'obligations': len(obs),
            'discharged': sum(1 for o in obs if o['ok']),
            'evaluations': sum(o['insts'] for o in obs),
            'distinct_nontrivial': len(obs),
            'rule': 'one obligation per (clause, rule kind, primary function definition, site); template instantiations of one '
                    'definition are evaluated separately (evaluations) and merged; every obligation is a structural predicate '
                    'over the CFG / call graph of /repo\'s current source',
            'samples': samples,
            'per_clause': per_clause,
            'floors': [{'clause': c, 'min': m, 'what': w, 'matched': rep.count(c)} for c, m, w in rep.floors],
            'units': sorted(rep.units),
            'configurations': rep.configs,
            'functions_analysed': rep.functions,
            'exhaustive': True,
            'not_decided': nd,
            'known_findings': [m for _, m in kf],
            'fixed_findings': fixed,
            'checker_cmd': './check %s --tier %s' % (rep.prop, rep.tier),
            'trusted_base': ['clang 14 front end + CFG builder', 'engine idiom models (DESIGN.md 1.2)', 'driver instantiation coverage'],
        },
        'assumptions': assumptions,
        'wall_s': round(time.time() - t0, 2),
        'violations': len(viol),
    }
    ev['coverage'].update(meta or {})
    # evidence/ describes /repo; a run against a scratch copy (self-test, seeded-change evaluation) must not overwrite it
    evdir = os.path.join(VERIF, 'evidence') if 'VERIF_REPO' not in os.environ else os.path.join(VERIF, '.work', 'evidence-scratch')
    os.makedirs(evdir, exist_ok=True)
    with open(os.path.join(evdir, '%s.json' % rep.prop), 'w') as f:
        json.dump(ev, f, indent=1, sort_keys=True, default=lambda x: sorted(x) if isinstance(x, set) else str(x))
    print('%s: %d obligations, %d discharged, %d violation(s), %d known finding(s); %d functions in %d unit(s); %.1fs' %
          (rep.prop, len(obs), ev['coverage']['discharged'], len(viol), len(kf), rep.functions, len(rep.units), ev['wall_s']))
    return 1 if viol else 0
