#!/bin/sh
# Builds the fact extractor from files on disk only (offline). ~25 s.
set -e
cd "$(dirname "$0")"
mkdir -p .work/bin evidence
if [ ! -x .work/bin/tbbsa ] || [ tools/tbbsa.cc -nt .work/bin/tbbsa ]; then
  clang++ $(llvm-config-14 --cxxflags) -O1 -fno-rtti tools/tbbsa.cc -o .work/bin/tbbsa \
     /usr/lib/llvm-14/lib/libclang-cpp.so.14 /usr/lib/llvm-14/lib/libLLVM-14.so
fi
echo "tbbsa built"
