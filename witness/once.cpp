// Witnesses for C19-D4: the collaborative_once_flag packs a runner pointer and a reference count into one word.
#include "oneapi/tbb/collaborative_call_once.h"
namespace W = tbb::detail::d1;
//@ expect-pass once_alignment : a runner is aligned so that its low bits are free for the reference count
static_assert(alignof(W::collaborative_once_runner) >= W::collaborative_once_max_references, "runner alignment must cover the reference bits");
//@ expect-pass once_mask : the reference mask is max_references - 1 and max_references is a power of two
static_assert((W::collaborative_once_max_references & (W::collaborative_once_max_references - 1)) == 0, "max references must be a power of two");
static_assert(W::collaborative_once_references_mask == W::collaborative_once_max_references - 1, "mask = max - 1");
//@ expect-pass once_states_below_pointers : the two named states are smaller than any aligned runner address
static_assert(W::collaborative_once_max_references > 2, "state values 0 and 1 must not collide with a runner address");
//@ expect-fail once_flag_copy : collaborative_once_flag is copyable
void f(tbb::collaborative_once_flag& a) { tbb::collaborative_once_flag b(a); }
//@ end
