// Witnesses for C06-D3: parallel_deterministic_reduce must only accept partitioners whose split tree does not depend on
// the schedule (simple_partitioner, static_partitioner, or none).
#include "oneapi/tbb/parallel_reduce.h"
#include "oneapi/tbb/blocked_range.h"

struct WSum {
    double s;
    WSum() : s(0) {}
    WSum(WSum&, tbb::split) : s(0) {}
    void operator()(const tbb::blocked_range<int>& r) { for (int i = r.begin(); i != r.end(); ++i) s += i; }
    void join(WSum& o) { s += o.s; }
};

//@ expect-fail det_body_auto : parallel_deterministic_reduce(range, body, auto_partitioner)
void f() { WSum b; tbb::auto_partitioner p; tbb::parallel_deterministic_reduce(tbb::blocked_range<int>(0, 100, 3), b, p); }
//@ expect-fail det_body_affinity : parallel_deterministic_reduce(range, body, affinity_partitioner)
void f() { WSum b; tbb::affinity_partitioner p; tbb::parallel_deterministic_reduce(tbb::blocked_range<int>(0, 100, 3), b, p); }
//@ expect-fail det_lambda_auto : functional form with auto_partitioner
void f() {
    tbb::auto_partitioner p;
    double r = tbb::parallel_deterministic_reduce(tbb::blocked_range<int>(0, 100, 3), 0.0,
        [](const tbb::blocked_range<int>&, double v) { return v; }, [](double a, double b) { return a + b; }, p);
    (void)r;
}
//@ expect-fail det_lambda_affinity : functional form with affinity_partitioner
void f() {
    tbb::affinity_partitioner p;
    double r = tbb::parallel_deterministic_reduce(tbb::blocked_range<int>(0, 100, 3), 0.0,
        [](const tbb::blocked_range<int>&, double v) { return v; }, [](double a, double b) { return a + b; }, p);
    (void)r;
}
//@ expect-pass det_body_simple : control - simple_partitioner is accepted
void f() { WSum b; tbb::simple_partitioner p; tbb::parallel_deterministic_reduce(tbb::blocked_range<int>(0, 100, 3), b, p); }
//@ expect-pass det_body_static : control - static_partitioner is accepted
void f() { WSum b; tbb::static_partitioner p; tbb::parallel_deterministic_reduce(tbb::blocked_range<int>(0, 100, 3), b, p); }
//@ expect-pass det_default : control - no partitioner
void f() { WSum b; tbb::parallel_deterministic_reduce(tbb::blocked_range<int>(0, 100, 3), b); }
//@ expect-pass reduce_auto : control - the ordinary reduce accepts auto_partitioner
void f() { WSum b; tbb::auto_partitioner p; tbb::parallel_reduce(tbb::blocked_range<int>(0, 100, 3), b, p); }
//@ end
