// Witnesses for C10-D4: accessor typing of concurrent_hash_map.
#include "oneapi/tbb/concurrent_hash_map.h"
typedef tbb::concurrent_hash_map<int, int> W_map;
//@ expect-fail write_through_const_accessor : an element can be modified through a const_accessor (reader lock)
void f(W_map::const_accessor& a) { a->second = 1; }
//@ expect-fail write_through_const_accessor_deref : (*const_accessor).second is assignable
void f(W_map::const_accessor& a) { (*a).second = 1; }
//@ expect-fail accessor_from_const_accessor : an accessor (writer) can be made from a const_accessor (reader)
void f(W_map::const_accessor& a) { W_map::accessor b(a); }
//@ expect-fail copy_accessor : accessors are copyable (two holders of one element lock)
void f(W_map::accessor& a) { W_map::accessor b(a); }
//@ expect-fail copy_const_accessor : const_accessors are copyable
void f(W_map::const_accessor& a) { W_map::const_accessor b(a); }
//@ expect-fail assign_accessor : accessors are assignable
void f(W_map::accessor& a, W_map::accessor& b) { a = b; }
//@ expect-fail modify_key_through_accessor : the key of an element can be modified through an accessor
void f(W_map::accessor& a) { a->first = 2; }
//@ expect-pass control_write_through_accessor : control - writing the mapped value through an accessor compiles
void f(W_map::accessor& a) { a->second = 1; }
//@ expect-pass control_read_through_const_accessor : control - reading through a const_accessor compiles
int f(W_map::const_accessor& a) { return a->second + (*a).first; }
//@ end
