// Witnesses for C08-D5: non-copyability of mutexes and scoped locks, and consistency of the reader/writer state constants
// (compiled with -fno-access-control so that the private constants are readable).
#include "oneapi/tbb/spin_mutex.h"
#include "oneapi/tbb/spin_rw_mutex.h"
#include "oneapi/tbb/queuing_mutex.h"
#include "oneapi/tbb/queuing_rw_mutex.h"
#include "oneapi/tbb/mutex.h"
#include "oneapi/tbb/rw_mutex.h"

//@ expect-fail copy_spin_mutex : spin_mutex is copyable
void f(tbb::spin_mutex& a) { tbb::spin_mutex b(a); }
//@ expect-fail copy_mutex : mutex is copyable
void f(tbb::mutex& a) { tbb::mutex b(a); }
//@ expect-fail copy_rw_mutex : rw_mutex is copyable
void f(tbb::rw_mutex& a) { tbb::rw_mutex b(a); }
//@ expect-fail copy_spin_rw_mutex : spin_rw_mutex is copyable
void f(tbb::spin_rw_mutex& a) { tbb::spin_rw_mutex b(a); }
//@ expect-fail copy_queuing_mutex : queuing_mutex is copyable
void f(tbb::queuing_mutex& a) { tbb::queuing_mutex b(a); }
//@ expect-fail copy_lock_spin : spin_mutex::scoped_lock is copyable (two owners of one critical section)
void f(tbb::spin_mutex::scoped_lock& a) { tbb::spin_mutex::scoped_lock b(a); }
//@ expect-fail copy_lock_rw : rw_mutex::scoped_lock is copyable
void f(tbb::rw_mutex::scoped_lock& a) { tbb::rw_mutex::scoped_lock b(a); }
//@ expect-fail copy_lock_queuing : queuing_mutex::scoped_lock is copyable
void f(tbb::queuing_mutex::scoped_lock& a) { tbb::queuing_mutex::scoped_lock b(a); }
//@ expect-fail copy_lock_queuing_rw : queuing_rw_mutex::scoped_lock is copyable
void f(tbb::queuing_rw_mutex::scoped_lock& a) { tbb::queuing_rw_mutex::scoped_lock b(a); }
//@ expect-fail assign_lock_spin_rw : spin_rw_mutex::scoped_lock is assignable
void f(tbb::spin_rw_mutex::scoped_lock& a, tbb::spin_rw_mutex::scoped_lock& b) { a = b; }
//@ expect-pass consts_spin_rw : spin_rw_mutex state constants are consistent
typedef tbb::spin_rw_mutex M;
static_assert((M::WRITER & M::WRITER_PENDING) == 0, "writer bits overlap");
static_assert(M::READERS == ~(M::WRITER | M::WRITER_PENDING), "reader field must be everything but the two writer bits");
static_assert((M::ONE_READER & M::READERS) == M::ONE_READER && (M::ONE_READER & (M::ONE_READER - 1)) == 0, "ONE_READER is one bit of READERS");
static_assert(((M::ONE_READER >> 1) & M::READERS) == 0, "ONE_READER is the lowest bit of READERS");
static_assert(M::BUSY == (M::WRITER | M::READERS), "BUSY = writer or any reader");
static_assert(M::WRITER != 0 && M::WRITER_PENDING != 0, "bits are non-zero");
//@ expect-pass consts_rw : rw_mutex state constants are consistent
typedef tbb::rw_mutex M;
static_assert((M::WRITER & M::WRITER_PENDING) == 0, "writer bits overlap");
static_assert(M::READERS == ~(M::WRITER | M::WRITER_PENDING), "reader field must be everything but the two writer bits");
static_assert((M::ONE_READER & M::READERS) == M::ONE_READER && (M::ONE_READER & (M::ONE_READER - 1)) == 0, "ONE_READER is one bit of READERS");
static_assert(((M::ONE_READER >> 1) & M::READERS) == 0, "ONE_READER is the lowest bit of READERS");
static_assert(M::BUSY == (M::WRITER | M::READERS), "BUSY = writer or any reader");
static_assert(M::WRITER_CONTEXT != M::READER_CONTEXT, "readers and writers sleep under different contexts");
//@ expect-pass control_default_lock : control - default-constructed scoped locks compile
void f() { tbb::spin_mutex::scoped_lock a; tbb::rw_mutex::scoped_lock b; tbb::queuing_mutex::scoped_lock c; (void)a; (void)b; (void)c; }
//@ end
