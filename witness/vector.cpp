// Witnesses for C11-D5: the segments of a concurrent_vector tile the index space.
#include "oneapi/tbb/concurrent_vector.h"
typedef tbb::detail::d1::segment_table<int, tbb::cache_aligned_allocator<int>, tbb::concurrent_vector<int>, 3> W_tab;
//@ expect-pass seg_base0 : the first segment starts at index 0
static_assert(W_tab::segment_base(0) == 0, "segment 0 must start at index 0");
//@ expect-pass seg_tiling : segment k ends exactly where segment k+1 begins, for every k that fits into size_type
constexpr bool w_tiles() {
    for (std::size_t k = 0; k + 1 < sizeof(std::size_t) * 8 - 1; ++k)
        if (W_tab::segment_base(k) + W_tab::segment_size(k) != W_tab::segment_base(k + 1)) return false;
    return true;
}
static_assert(w_tiles(), "segments overlap or leave a gap");
//@ expect-pass seg_nonempty : every segment is non-empty and sizes never shrink
constexpr bool w_sizes() {
    for (std::size_t k = 0; k + 1 < sizeof(std::size_t) * 8 - 1; ++k)
        if (W_tab::segment_size(k) == 0 || W_tab::segment_size(k + 1) < W_tab::segment_size(k)) return false;
    return true;
}
static_assert(w_sizes(), "empty or shrinking segment");
//@ expect-fail control_broken_tiling : control for the harness - a wrong tiling claim must be rejected
static_assert(W_tab::segment_base(3) + W_tab::segment_size(3) == W_tab::segment_base(5), "control");
//@ end
