// Witnesses for C09-D6: consecutive tickets are spread over distinct lanes (micro queues).
#include "oneapi/tbb/concurrent_queue.h"
constexpr std::size_t w_gcd(std::size_t a, std::size_t b) { return b == 0 ? a : w_gcd(b, a % b); }
typedef tbb::detail::d2::concurrent_queue_rep<int, tbb::cache_aligned_allocator<int>> W_rep;
//@ expect-pass lanes_pow2 : the number of lanes is a power of two
static_assert(W_rep::n_queue >= 2 && (W_rep::n_queue & (W_rep::n_queue - 1)) == 0, "n_queue must be a power of two");
//@ expect-pass lanes_coprime : the lane stride phi is coprime with the number of lanes (k*phi mod n_queue visits every lane)
static_assert(w_gcd(W_rep::phi, W_rep::n_queue) == 1, "phi and n_queue must be coprime");
//@ expect-pass lanes_distinct : n_queue consecutive tickets use pairwise distinct lanes
constexpr bool w_distinct() {
    for (std::size_t a = 0; a < W_rep::n_queue; ++a)
        for (std::size_t b = a + 1; b < W_rep::n_queue; ++b)
            if ((a * W_rep::phi) % W_rep::n_queue == (b * W_rep::phi) % W_rep::n_queue) return false;
    return true;
}
static_assert(w_distinct(), "two of n_queue consecutive tickets map to the same lane");
//@ expect-pass infinite_capacity_is_large : set_capacity(negative) means "unbounded": the constant used for it must be a huge positive number
static_assert(tbb::concurrent_bounded_queue<int>::infinite_capacity > (std::ptrdiff_t(1) << 40), "infinite_capacity is not large: set_capacity(-1) makes the queue permanently full");
//@ expect-fail queue_copy_assign_rep : the queue representation must not be copy-assignable (control for the harness)
void f(W_rep& a, W_rep& b) { a = b; }
//@ end
