#include <oneapi/tbb/enumerable_thread_specific.h>
#include <cstdio>
#include <vector>
#include <memory>
#include <new>
int main() {
    using ets_t = tbb::enumerable_thread_specific<int, tbb::cache_aligned_allocator<int>, tbb::ets_key_per_instance>;
    std::vector<std::unique_ptr<ets_t>> v;
    int refused = 0;
    for (int i = 0; i < 1100; ++i) { try { v.emplace_back(new ets_t(i)); } catch (const std::bad_alloc&) { ++refused; v.emplace_back(nullptr); } }
    int bad = 0;
    for (int r = 0; r < 2; ++r) for (int i = 0; i < 1100; ++i) { if (v[i] && v[i]->local() != i) ++bad; }
    std::printf("containers refused (no TLS key left): %d; containers returning another container's element: %d\n", refused, bad);
    return bad ? 1 : 0;
}
