#include <oneapi/tbb/task.h>
#include <oneapi/tbb/task_arena.h>
#include <oneapi/tbb/task_group.h>
#include <atomic>
#include <chrono>
#include <cstdio>
#include <cstdlib>
#include <functional>
#include <thread>
using namespace tbb::detail;
static std::atomic<int> stage{0};
static std::atomic<bool> finished{false};
struct FnTask : d1::task {
    std::function<void()> f; d1::wait_context& w;
    FnTask(std::function<void()> f_, d1::wait_context& w_) : f(std::move(f_)), w(w_) {}
    d1::task* execute(d1::execution_data&) override { f(); w.release(); return nullptr; }
    d1::task* cancel(d1::execution_data&) override { w.release(); return nullptr; }
};
int main() {
    std::thread wd([]{ for (int i=0;i<100 && !finished;++i) std::this_thread::sleep_for(std::chrono::milliseconds(100));
        if (!finished) { std::printf("PROBE FAIL: hang at stage %d\n", stage.load()); std::fflush(stdout); std::_Exit(1);} });
    tbb::task_arena arena(2, 2);
    arena.initialize();
    int continued = 0;
    arena.execute([&] {
        tbb::task_group tg, inner;
        tbb::task_group_context ctx;
        d1::wait_context wctx(1);
        tbb::task::suspend_point sp_a = nullptr;
        tbb::task_handle deferred_f;
        tg.run([&] { // B
            deferred_f = inner.defer([&] { stage = 5; });
            tbb::this_task_arena::isolate([&] {
                inner.run([&] { stage = 2; tbb::task::resume(sp_a); stage = 3; });
                inner.wait();
                stage = 6;
            });
        });
        FnTask a([&] {
            tbb::task::suspend([&](tbb::task::suspend_point sp) { sp_a = sp; stage = 1; });
            ++continued; stage = 4;
            inner.run(std::move(deferred_f));
        }, wctx);
        submit(a, arena, ctx, /*as_critical=*/true);
        d1::wait(wctx, ctx);
        tg.wait();
    });
    finished = true; wd.join();
    std::printf("PROBE OK continued=%d\n", continued);
    return continued == 1 ? 0 : 1;
}
