// Side finding: limiter_node lost wake-up (unmodified library)
#include <oneapi/tbb/flow_graph.h>
#include <atomic>
#include <chrono>
#include <cstdio>
#include <thread>
using namespace oneapi::tbb::flow;
int main() {
    graph g;
    std::atomic<int> processed{0};
    queue_node<int> q(g);
    limiter_node<int> lim(g, 1);
    function_node<int, continue_msg, lightweight> work(g, unlimited, [&](int v) noexcept {
        if (v == 1) std::this_thread::sleep_for(std::chrono::milliseconds(300));
        ++processed;
        return continue_msg();
    });
    make_edge(q, lim);
    make_edge(lim, work);
    make_edge(work, lim.decrementer());
    std::thread x([&] { lim.try_put(1); });              // direct put, body runs inline for 300 ms
    std::this_thread::sleep_for(std::chrono::milliseconds(100));
    q.try_put(2);                                          // rejected by the limiter (put in flight), q becomes a pull predecessor
    x.join();
    g.wait_for_all();
    int p = processed.load();
    int left = 0, v;
    while (q.try_get(v)) ++left;
    std::printf("processed %d of 2, %d left in the queue_node\n", p, left);
    return p == 2 ? 0 : 1;
}
