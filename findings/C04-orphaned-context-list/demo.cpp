// Replay: a context bound by a thread that has since exited sits on an orphaned context list, which the
// cancellation propagation never walks: a descendant of a cancelled context stays uncancelled.
#include "oneapi/tbb/task_group.h"
#include "oneapi/tbb/parallel_for.h"
#include "oneapi/tbb/global_control.h"
#include <cstdio>
#include <thread>
int main() {
    tbb::task_group_context parent(tbb::task_group_context::isolated);
    tbb::task_group_context child(tbb::task_group_context::bound);     // persistent, lives longer than the thread that binds it
    tbb::task_group_context child2(tbb::task_group_context::bound);    // control: bound by the main thread
    // 1. a short-lived application thread runs work of `parent` and, nested in it, work of `child` (binds child under parent)
    std::thread t([&] {
        tbb::parallel_for(0, 1, [&](int) {
            tbb::parallel_for(0, 4, [](int) {}, child);
        }, parent);
    });
    t.join();     // the thread's scheduler data is destroyed, its context list is orphaned (child is still on it)
    // 2. control: the same from the main thread
    tbb::parallel_for(0, 1, [&](int) {
        tbb::parallel_for(0, 4, [](int) {}, child2);
    }, parent);
    // 3. cancel the parent: every context bound beneath it must be cancelled
    bool won = parent.cancel_group_execution();
    std::printf("cancel returned %d; parent=%d child(bound by exited thread)=%d child2(bound by main)=%d\n", (int)won,
                (int)parent.is_group_execution_cancelled(), (int)child.is_group_execution_cancelled(), (int)child2.is_group_execution_cancelled());
    int rc = 0;
    if (!child2.is_group_execution_cancelled()) { std::printf("FAIL: control child2 not cancelled\n"); rc = 1; }
    if (!child.is_group_execution_cancelled()) { std::printf("FAIL: child is bound beneath the cancelled parent but was not cancelled\n"); rc = 1; }
    // 4. consequence: nested work started with `child` inside the (cancelled) parent's group still runs
    int ran = 0;
    tbb::task_group_context parent2(tbb::task_group_context::isolated);
    (void)parent2;
    tbb::parallel_for(0, 8, [&](int) { ++ran; }, child);
    std::printf("bodies run with the child context after the cancellation: %d (expected 0)\n", ran);
    if (ran) rc = 1;
    return rc;
}
