#include <oneapi/tbb/task_arena.h>
#include <atomic>
#include <thread>
#include <chrono>
#include <cstdio>
#include <cstdlib>
#include <unistd.h>
int main(int argc, char** argv){
    int n = argc > 1 ? std::atoi(argv[1]) : 40000;
    tbb::task_arena a(n);
    std::atomic<bool> ran{false};
    a.enqueue([&]{ ran = true; });
    for (int i = 0; i < 3000 && !ran; ++i) std::this_thread::sleep_for(std::chrono::milliseconds(1));
    std::printf("n=%d ran=%d\n", n, (int)ran.load());
    if (!ran) _exit(1);
    return 0;
}
