// NOT part of the seeded change: a reproducer for a weakness of the UNMODIFIED library (see README.md, last section).
//
// With no regular workers allowed (max_allowed_parallelism = 1) two fire-and-forget tasks are enqueued; the single
// "mandatory concurrency" worker runs the first one (it suspends, on the worker's own stack), then the second one
// (it suspends on a coroutine). The first task is resumed and finishes; the worker is back on its own stack, finds
// that it has to leave (no enqueued tasks -> mandatory concurrency is off, allotment 0) and leaves the arena,
// although a suspended task still lives in it. When that task is resumed, task::resume() advertises the work with
// arena::wakeup, which neither enables mandatory concurrency nor finds any thread to wake up: the resume task stays
// in the arena's resume stream for ever.
//
// build: g++ -std=c++17 -O2 -pthread -I/repo/include other_weakness_orphaned_resume.cpp -L<libdir> -ltbb -Wl,-rpath,<libdir>
// exit 0: both tasks continued; exit 1: the second one is never continued.
#include <oneapi/tbb/task.h>
#include <oneapi/tbb/task_arena.h>
#include <oneapi/tbb/global_control.h>
#include <atomic>
#include <chrono>
#include <thread>
#include <cstdio>
#include <cstdlib>

std::atomic<tbb::task::suspend_point> sp_first{nullptr}, sp_second{nullptr};
std::atomic<int> done_first{0}, done_second{0};

template <typename P> static bool wait_for(P pred, int ms) {
    for (int i = 0; i < ms; ++i) { if (pred()) return true; std::this_thread::sleep_for(std::chrono::milliseconds(1)); }
    return pred();
}

int main() {
    tbb::global_control gc(tbb::global_control::max_allowed_parallelism, 1);
    tbb::task_arena a(4);
    std::atomic<int> order{0};
    for (int k = 0; k < 2; ++k)
        a.enqueue([&] {
            int me = order++;   // 0: suspends on the worker's own stack, 1: suspends on a coroutine above it
            tbb::task::suspend([&](tbb::task::suspend_point sp) { (me == 0 ? sp_first : sp_second) = sp; });
            (me == 0 ? done_first : done_second) = 1;
        });
    if (!wait_for([&] { return sp_first.load() && sp_second.load(); }, 5000)) { std::printf("setup failed\n"); return 2; }
    std::this_thread::sleep_for(std::chrono::milliseconds(200));
    tbb::task::resume(sp_first.load());
    if (!wait_for([&] { return done_first.load() == 1; }, 5000)) { std::printf("first task not continued\n"); std::fflush(stdout); std::_Exit(1); }
    std::this_thread::sleep_for(std::chrono::milliseconds(300));   // the worker leaves the arena
    tbb::task::resume(sp_second.load());
    if (!wait_for([&] { return done_second.load() == 1; }, 5000)) {
        std::printf("FAIL: resume() was called for the second suspended task 5 s ago, it is not continued (no thread in the arena)\n");
        std::fflush(stdout); std::_Exit(1);
    }
    std::printf("OK\n");
    return 0;
}
