// sequencer_node: a message whose sequence number is size_t(-1) is accepted and overwrites a buffered message
#include <oneapi/tbb/flow_graph.h>
#include <cstdio>
#include <vector>
struct Msg { std::size_t seq; int payload; };
int main() {
    using namespace tbb::flow;
    graph g;
    sequencer_node<Msg> s(g, [](const Msg& m) -> std::size_t { return m.seq; });
    std::vector<Msg> out;
    function_node<Msg, continue_msg> sink(g, serial, [&](const Msg& m) { out.push_back(m); return continue_msg(); });
    make_edge(s, sink);
    bool a3 = s.try_put(Msg{3, 103});
    bool a1 = s.try_put(Msg{1, 101});
    bool a2 = s.try_put(Msg{2, 102});
    bool ax = s.try_put(Msg{std::size_t(-1), 999});      // "no number"
    bool a0 = s.try_put(Msg{0, 100});
    g.wait_for_all();
    std::printf("accepted: 3:%d 1:%d 2:%d max:%d 0:%d\nforwarded:", a3, a1, a2, ax, a0);
    for (auto& m : out) std::printf(" (%zu,%d)", m.seq, m.payload);
    std::printf("\n");
    bool ok = out.size() == 4;
    for (std::size_t i = 0; ok && i < 4; ++i) ok = out[i].seq == i && out[i].payload == int(100 + i);
    std::printf(ok ? "OK: items 0,1,2,3 forwarded in order\n" : "FAIL: the items numbered 0,1,2,3 were not forwarded exactly once in order\n");
    return ok ? 0 : 1;
}
