#include <oneapi/tbb/flow_graph.h>
#include <cstdio>
struct by_key {
    bool descending;
    by_key(bool d = false) : descending(d) {}
    bool operator()(int a, int b) const { return descending ? a > b : a < b; }
};
int main() {
    tbb::flow::graph g;
    tbb::flow::priority_queue_node<int, by_key> q(g, by_key(true)); // smallest first
    tbb::flow::priority_queue_node<int, by_key> c(q);               // copy
    for (int v : {3, 1, 2}) { q.try_put(v); c.try_put(v); }
    g.wait_for_all();
    int a = 0, b = 0; q.try_get(a); c.try_get(b);
    std::printf("original first=%d copy first=%d\n", a, b);
    return a == b ? 0 : 1;
}
