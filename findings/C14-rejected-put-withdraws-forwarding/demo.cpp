// C14: a released reservation is offered again - unless a rejected duplicate put is handled later in the same aggregator batch
#include <oneapi/tbb/flow_graph.h>
#include <atomic>
#include <thread>
#include <chrono>
#include <cstdio>
using namespace tbb::flow;
static std::atomic<bool> park{false}, parked{false};
int main() {
    graph g;
    sequencer_node<int> s(g, [](const int& v) -> std::size_t {
        if (v == 0 && park.load() && !parked.exchange(true)) { while (park.load()) std::this_thread::yield(); }
        return std::size_t(v);
    });
    int v = -1;
    s.try_put(0); g.wait_for_all();
    if (!s.try_get(v) || v != 0) { std::printf("setup failed (get 0)\n"); return 2; }      // item 0 emitted: my_head == 1
    s.try_put(1); g.wait_for_all();
    if (!s.try_reserve(v) || v != 1) { std::printf("setup failed (reserve 1)\n"); return 2; } // item 1 reserved by us
    queue_node<int> q(g);
    make_edge(s, q);                    // the forward task finds the only item reserved and does nothing
    g.wait_for_all();
    // keep the aggregator handler busy inside the user's sequencer functor
    park = true;
    std::thread t0([&] { s.try_put(0); });     // a rejected duplicate as well: this batch raises no forwarding request
    while (!parked.load()) std::this_thread::yield();
    // two operations pile up behind the busy handler; they form ONE batch, handled newest first:
    std::thread t2([&] { s.try_put(0); });                         // duplicate of an emitted tag: rejected
    std::this_thread::sleep_for(std::chrono::milliseconds(200));
    std::thread t1([&] { s.try_release(); });                      // gives item 1 back: it must be offered to q now
    std::this_thread::sleep_for(std::chrono::milliseconds(200));
    park = false;
    t0.join(); t1.join(); t2.join();
    g.wait_for_all();
    int got = -1;
    bool ok = q.try_get(got) && got == 1;
    if (!ok) { std::printf("FAIL: the released item 1 was not forwarded to the accepting successor (it is stuck in the sequencer_node)\n"); return 1; }
    std::printf("OK: item 1 reached the successor\n");
    return 0;
}
