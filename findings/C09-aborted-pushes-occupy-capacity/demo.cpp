// Side observations on the UNMODIFIED library (not part of the seeded change).
//  W1: two consumers blocked in pop(), abort(), both retry pop(): the aborted pops give their tickets back with
//      head_counter-- ; the consumer that wakes first retries (head_counter++) before the second one has decremented,
//      so both end up waiting for the same ticket. Items pushed afterwards are not delivered / a consumer hangs.
//  W2: aborted pushes leave invalid entries that keep occupying capacity: try_push reports "full" and push() blocks
//      although the queue holds fewer than capacity() items (even when it is empty).
#include <oneapi/tbb/concurrent_queue.h>
#include <atomic>
#include <chrono>
#include <cstdio>
#include <thread>
#include <vector>

using namespace std::chrono_literals;

static int w1() {
    tbb::concurrent_bounded_queue<int> q;
    std::atomic<int> got{0}, aborted{0};
    std::atomic<bool> quit{false};
    auto consumer = [&] {
        for (;;) {
            int v;
            try { q.pop(v); }
            catch (tbb::user_abort&) { ++aborted; if (quit) return; continue; }
            ++got;
            return;
        }
    };
    std::thread a(consumer), b(consumer);
    while (q.size() != -2) std::this_thread::sleep_for(1ms);
    std::this_thread::sleep_for(50ms);
    q.abort();
    while (aborted < 2) std::this_thread::sleep_for(1ms);
    std::this_thread::sleep_for(50ms);
    std::printf("W1: after abort+retry size()=%td (expected -2)\n", q.size());
    q.push(1);
    std::this_thread::sleep_for(200ms);
    int got1 = got;
    q.push(2);
    std::this_thread::sleep_for(500ms);
    int got2 = got;
    std::printf("W1: consumers served after 1st push: %d (expected 1), after 2nd push: %d (expected 2)\n", got1, got2);
    int rc = (got1 == 1 && got2 == 2) ? 0 : 1;
    if (rc) { std::printf("W1: REPRODUCED (blocked pop not served / consumer stuck)\n"); std::fflush(stdout); std::_Exit(10); }
    a.join(); b.join();
    return rc;
}

static int w2() {
    tbb::concurrent_bounded_queue<int> q;
    q.set_capacity(2);
    q.push(0); q.push(1);
    std::atomic<int> ab{0};
    auto producer = [&] { try { q.push(7); } catch (tbb::user_abort&) { ++ab; } };
    std::thread a(producer), b(producer);
    while (q.size() != 4) std::this_thread::sleep_for(1ms);
    std::this_thread::sleep_for(50ms);
    q.abort();
    a.join(); b.join();
    int v;
    q.pop(v); q.pop(v);
    std::printf("W2: size()=%td empty()=%d capacity()=%td\n", q.size(), (int)q.empty(), q.capacity());
    bool ok = q.try_push(5);
    std::printf("W2: try_push on the empty queue of capacity 2 -> %s\n", ok ? "true" : "false (REPRODUCED)");
    return ok ? 0 : 1;
}

int main(int argc, char**) {
    int r2 = w2();
    int r1 = argc > 1 ? 0 : w1();
    return r1 | r2;
}
