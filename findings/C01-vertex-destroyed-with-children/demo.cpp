// Genuine weakness of the UNMODIFIED library (not related to patch.diff): a task_handle that outlives the thread
// (no argument) or the explicit task_arena (any argument) in which task_group::defer() created it crashes when it
// is finally run: the per-slot reference_vertex it points to was freed together with the arena.
// Build against /repo exactly like demo.cpp.  Observed: SIGSEGV in ~task_handle_task -> m_wait_tree_vertex->release().
#include <oneapi/tbb/task_group.h>
#include <oneapi/tbb/task_arena.h>
#include <atomic>
#include <thread>
#include <cstdio>
#include <chrono>
#include <cstdlib>
#include <unistd.h>
int main(int argc, char**) {
  std::thread wd([]{ std::this_thread::sleep_for(std::chrono::seconds(20)); std::fprintf(stderr,"HANG\n"); _exit(4); });
  wd.detach();
  tbb::task_group tg;
  std::atomic<int> ran{0};
  tbb::task_handle h;
  if (argc > 1) {
      // variant 2: handle created inside an explicit arena that is destroyed afterwards
      tbb::task_arena a(2);
      a.execute([&]{ h = tg.defer([&]{ ran++; }); });
  } else {
      std::thread t([&]{ h = tg.defer([&]{ ran++; }); });
      t.join();
  }
  std::this_thread::sleep_for(std::chrono::milliseconds(500));
  // churn the allocator a bit
  for (int i = 0; i < 1000; ++i) { tbb::task_group g; g.run([]{}); g.wait(); }
  tg.run(std::move(h));
  tg.wait();
  std::printf("ran=%d\n", ran.load());
  return ran == 1 ? 0 : 1;
}
