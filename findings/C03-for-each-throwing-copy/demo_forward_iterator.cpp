// Replay 2: parallel_for_each over a FORWARD iterator whose copy constructor throws while the block task is being built.
#include "oneapi/tbb/parallel_for_each.h"
#include <atomic>
#include <chrono>
#include <cstdio>
#include <cstdlib>
#include <iterator>
#include <stdexcept>
#include <thread>
#include <vector>
static std::atomic<int> copies{0};
static int throw_at = 1000000;
static std::atomic<bool> armed{false};
struct FwdIt {
    typedef std::forward_iterator_tag iterator_category;
    typedef int value_type;
    typedef std::ptrdiff_t difference_type;
    typedef int* pointer;
    typedef int& reference;
    int* p;
    explicit FwdIt(int* q = nullptr) : p(q) {}
    FwdIt(const FwdIt& o) : p(o.p) { if (armed && ++copies == throw_at) throw std::runtime_error("iterator copy failed"); }
    FwdIt& operator=(const FwdIt& o) { p = o.p; return *this; }
    int& operator*() const { return *p; }
    FwdIt& operator++() { ++p; return *this; }
    FwdIt operator++(int) { FwdIt t(*this); ++p; return t; }
    bool operator==(const FwdIt& o) const { return p == o.p; }
    bool operator!=(const FwdIt& o) const { return p != o.p; }
};
int main(int argc, char** argv) {
    if (argc > 1) throw_at = std::atoi(argv[1]);
    std::vector<int> v(10, 1);
    std::atomic<bool> done{false};
    std::thread watchdog([&] {
        for (int k = 0; k < 100 && !done; ++k) std::this_thread::sleep_for(std::chrono::milliseconds(100));
        if (!done) { std::printf("FAIL: parallel_for_each neither returned nor threw within 10 s (copies=%d)\n", copies.load()); std::fflush(stdout); std::_Exit(1); }
    });
    int rc = 0;
    std::atomic<int> bodies{0};
    FwdIt b(v.data()), e(v.data() + v.size());
    armed = true;
    try {
        tbb::parallel_for_each(b, e, [&](int&) { ++bodies; });
        std::printf("returned normally (bodies=%d copies=%d)\n", bodies.load(), copies.load());
    } catch (const std::runtime_error& ex) {
        std::printf("OK: caught '%s' (bodies run=%d)\n", ex.what(), bodies.load());
    }
    done = true;
    watchdog.join();
    return rc;
}
