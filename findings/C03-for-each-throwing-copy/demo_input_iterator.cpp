// Replay: parallel_for_each over an input iterator; copying the 3rd item into the block buffer throws.
// Expected: the exception is rethrown from parallel_for_each.  Observed on the pinned tree: parallel_for_each never returns.
#include "oneapi/tbb/parallel_for_each.h"
#include "oneapi/tbb/global_control.h"
#include <atomic>
#include <chrono>
#include <cstdio>
#include <cstdlib>
#include <iterator>
#include <stdexcept>
#include <thread>

static std::atomic<int> live{0}, copies{0};
static int throw_at = 3;
struct Item {
    int v;
    explicit Item(int x) : v(x) { ++live; }
    Item(const Item& o) : v(o.v) {
        if (++copies == throw_at) throw std::runtime_error("copy failed");
        ++live;
    }
    ~Item() { --live; }
};
// a genuine input iterator (single pass)
struct InIt {
    typedef std::input_iterator_tag iterator_category;
    typedef Item value_type;
    typedef std::ptrdiff_t difference_type;
    typedef const Item* pointer;
    typedef const Item& reference;
    int i;
    mutable Item cur;
    explicit InIt(int k) : i(k), cur(k) {}
    InIt(const InIt& o) : i(o.i), cur(o.i) {}
    InIt& operator=(const InIt& o) { i = o.i; cur.v = o.i; return *this; }
    const Item& operator*() const { cur.v = i; return cur; }
    InIt& operator++() { ++i; return *this; }
    InIt operator++(int) { InIt t(*this); ++i; return t; }
    bool operator==(const InIt& o) const { return i == o.i; }
    bool operator!=(const InIt& o) const { return i != o.i; }
};
int main(int argc, char** argv) {
    if (argc > 1) throw_at = std::atoi(argv[1]);
    std::atomic<bool> done{false};
    std::thread watchdog([&] {
        for (int k = 0; k < 100 && !done; ++k) std::this_thread::sleep_for(std::chrono::milliseconds(100));
        if (!done) { std::printf("FAIL: parallel_for_each neither returned nor threw within 10 s (exception swallowed, wait hangs)\n"); std::fflush(stdout); std::_Exit(1); }
    });
    int rc = 0;
    std::atomic<int> bodies{0};
    try {
        tbb::parallel_for_each(InIt(0), InIt(10), [&](const Item&) { ++bodies; });
        if (throw_at <= 10) { std::printf("FAIL: returned normally, no exception (bodies=%d)\n", bodies.load()); rc = 1; }
        else std::printf("OK: no throw configured, returned normally (bodies=%d)\n", bodies.load());
    } catch (const std::runtime_error& e) {
        std::printf("OK: caught '%s' (bodies run=%d)\n", e.what(), bodies.load());
    }
    done = true;
    watchdog.join();
    return rc;
}
