#include <oneapi/tbb/concurrent_vector.h>
#include <cstdio>
#include <thread>
#include <atomic>
#include <chrono>
#include <cstdlib>
static bool g_fail_table = false;
template <typename T> struct A {
  using value_type = T; A()=default; template<class U> A(const A<U>&){}
  T* allocate(std::size_t n){ if (!std::is_same<T,int>::value && g_fail_table) throw std::bad_alloc(); return static_cast<T*>(::operator new(n*sizeof(T))); }
  void deallocate(T* p, std::size_t){ ::operator delete(p); }
  template<class U> bool operator==(const A<U>&) const {return true;} template<class U> bool operator!=(const A<U>&) const {return false;}
};
int main(){ setvbuf(stdout,nullptr,_IONBF,0);
  std::atomic<bool> done{false};
  std::thread wd([&]{ for(int i=0;i<50&&!done;++i) std::this_thread::sleep_for(std::chrono::milliseconds(100)); if(!done){ std::printf("HANG\n"); std::_Exit(3);} });
  tbb::concurrent_vector<int, A<int>> v;
  for (int i=0;i<8;++i) v.push_back(i);
  g_fail_table = true;
  try { v.push_back(8); std::printf("no throw\n"); } catch (std::bad_alloc&) { std::printf("table alloc threw\n"); }
  g_fail_table = false;
  std::printf("size=%zu cap=%zu\n", v.size(), v.capacity());
  try { v.grow_to_at_least(9); std::printf("gtal ok size=%zu\n", v.size()); } catch (std::exception& e) { std::printf("threw %s\n", e.what()); }
  done = true; wd.join();
  return 0;
}
