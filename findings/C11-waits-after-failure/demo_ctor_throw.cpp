#include <oneapi/tbb/concurrent_vector.h>
#include <cstdio>
#include <thread>
#include <atomic>
#include <chrono>
#include <cstdlib>
static bool g_throw = false;
struct T { int v; T(int x):v(x){} T(const T& o):v(o.v){ if (g_throw) throw 42; } };
int main(){ setvbuf(stdout,nullptr,_IONBF,0);
  std::atomic<bool> done{false};
  std::thread wd([&]{ for(int i=0;i<50&&!done;++i) std::this_thread::sleep_for(std::chrono::milliseconds(100)); if(!done){ std::printf("HANG\n"); std::_Exit(3);} });
  tbb::concurrent_vector<T> v;
  v.push_back(T(0));            // first_block = 1, size 1
  g_throw = true;
  try { v.grow_by(2, T(1)); } catch (int) { std::printf("ctor threw\n"); }
  g_throw = false;
  std::printf("size=%zu cap=%zu\n", v.size(), v.capacity());
  try { v.push_back(T(3)); std::printf("push_back ok size=%zu\n", v.size()); } catch (std::exception& e) { std::printf("threw %s\n", e.what()); }
  done = true; wd.join();
  return 0;
}
