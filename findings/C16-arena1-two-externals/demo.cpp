// Replay: two EXTERNAL threads inside task_arena(1) at the same time (the second one in the slot that a one-slot arena
// only has for its mandatory worker).  A functor that the mandatory worker runs on behalf of a waiting caller is allowed by
// the property ("plus the single extra worker ... while it has enqueued work"); two application threads inside are not.
#include <oneapi/tbb/task_arena.h>
#include <atomic>
#include <chrono>
#include <cstdio>
#include <thread>
int main() {
    tbb::task_arena a(1);      // max_concurrency 1, reserved_for_masters 1
    a.initialize();
    std::atomic<int> ext_inside{0}, max_ext{0};
    int idx[2] = {-1, -1};
    bool own[2] = {false, false};
    auto body = [&](int k) {
        std::thread::id me = std::this_thread::get_id();
        a.execute([&] {
            own[k] = (std::this_thread::get_id() == me);     // did the calling thread itself enter the arena?
            idx[k] = tbb::this_task_arena::current_thread_index();
            if (own[k]) {
                int n = ++ext_inside;
                int m = max_ext.load();
                while (m < n && !max_ext.compare_exchange_weak(m, n)) {}
            }
            std::this_thread::sleep_for(std::chrono::milliseconds(300));
            if (own[k]) --ext_inside;
        });
    };
    std::thread t1(body, 0), t2(body, 1);
    t1.join(); t2.join();
    std::printf("external threads inside task_arena(1) at once: %d; functor 0: own thread=%d index=%d; functor 1: own thread=%d index=%d; max_concurrency()=%d\n",
                max_ext.load(), (int)own[0], idx[0], (int)own[1], idx[1], a.max_concurrency());
    if (max_ext.load() > 1) { std::printf("FAIL: two application threads were inside an arena of concurrency 1\n"); return 1; }
    std::printf("OK\n");
    return 0;
}
