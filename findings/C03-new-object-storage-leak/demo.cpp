// every failed task construction (the functor's copy constructor throws inside task_group::run) must give the small-object
// storage back: measured through the process' resident memory after many failures
#include <oneapi/tbb/task_group.h>
#include <cstdio>
#include <stdexcept>
#include <fstream>
#include <string>
static long rss_kb() { std::ifstream f("/proc/self/status"); std::string k; while (f >> k) { if (k == "VmRSS:") { long v; f >> v; return v; } } return -1; }
struct F {
    char pad[200];
    bool thrower;
    explicit F(bool t) : thrower(t) {}
    F(const F& o) : thrower(o.thrower) { if (thrower) throw std::runtime_error("copy"); }
    void operator()() const {}
};
int main() {
    tbb::task_group tg;
    F f(true);
    for (int i = 0; i < 1000; ++i) { try { tg.run(f); } catch (const std::runtime_error&) {} }
    long before = rss_kb();
    int thrown = 0;
    for (int i = 0; i < 400000; ++i) { try { tg.run(f); } catch (const std::runtime_error&) { ++thrown; } }
    tg.wait();
    long after = rss_kb();
    std::printf("thrown=%d rss before=%ld kB after=%ld kB growth=%ld kB\n", thrown, before, after, after - before);
    return (after - before) > 20000 ? 1 : 0;
}
