// blocked_range2d / 3d / blocked_nd_range: the split dimension is chosen by comparing size*double(grain): above 2^53 the
// products round, a tie goes to the first dimension - which may be one that is not divisible
#include <oneapi/tbb/blocked_range2d.h>
#include <oneapi/tbb/blocked_range3d.h>
#include <oneapi/tbb/blocked_nd_range.h>
#include <cstdio>
#include <cstddef>
int main() {
    const std::size_t big = (std::size_t(1) << 60);
    int bad = 0;
    {   // rows: size 5, grain 5 -> not divisible; cols: size 2^60+1, grain 2^60 -> divisible
        tbb::blocked_range2d<std::size_t> r(0, 5, 5, 0, big + 1, big);
        bool rows_div = r.rows().is_divisible(), cols_div = r.cols().is_divisible();
        tbb::blocked_range2d<std::size_t> s(r, tbb::split());
        std::printf("2d: rows divisible=%d cols divisible=%d; after split rows [%zu,%zu) + [%zu,%zu), cols [%zu,%zu) + [%zu,%zu)\n", rows_div, cols_div,
                    r.rows().begin(), r.rows().end(), s.rows().begin(), s.rows().end(), r.cols().begin(), r.cols().end(), s.cols().begin(), s.cols().end());
        if (r.rows().size() != 5 || s.rows().size() != 5) { std::printf("FAIL 2d: the row range (size 5, grain 5) is not divisible but was split\n"); ++bad; }
    }
    {
        tbb::blocked_range3d<std::size_t> r(0, 5, 5, 0, 7, 7, 0, big + 1, big);
        tbb::blocked_range3d<std::size_t> s(r, tbb::split());
        if (r.pages().size() != 5 || s.pages().size() != 5 || r.rows().size() != 7 || s.rows().size() != 7) {
            std::printf("FAIL 3d: a dimension that is not divisible was split (pages %zu+%zu, rows %zu+%zu)\n", r.pages().size(), s.pages().size(), r.rows().size(), s.rows().size()); ++bad; }
    }
    {
        using R = tbb::blocked_nd_range<std::size_t, 2>;
        R r(R::dim_range_type(0, 5, 5), R::dim_range_type(0, big + 1, big));
        R s(r, tbb::split());
        if (r.dim(0).size() != 5 || s.dim(0).size() != 5) { std::printf("FAIL nd: dimension 0 (size 5, grain 5) is not divisible but was split (%zu+%zu)\n", r.dim(0).size(), s.dim(0).size()); ++bad; }
    }
    std::printf(bad ? "FAIL: %d of 3 range types split a dimension that is not divisible\n" : "OK (%d)\n", bad);
    return bad ? 1 : 0;
}
