// Genuine weakness of the UNMODIFIED library (not part of the seeded change):
// scalable_realloc(p, n) with n close to SIZE_MAX on a >= 1 MB object "succeeds".
// Backend::remap() computes alignToBin(newSize + userOffset) without an overflow check,
// the sum wraps to a tiny value, the region is mremap()-shrunk to 12 KB and the old pointer
// is returned with scalable_msize() == n.  The first min(old,new) bytes are NOT kept.
#include "tbb/scalable_allocator.h"
#include <csetjmp>
#include <csignal>
#include <cstdint>
#include <cstdio>
#include <cstring>
static sigjmp_buf jb;
static void h(int) { siglongjmp(jb, 1); }
int main() {
    const size_t sz = 2 * 1024 * 1024;
    char *p = (char *)scalable_malloc(sz);
    memset(p, 0x5a, sz);
    char *q = (char *)scalable_realloc(p, SIZE_MAX - 10);
    if (!q) { printf("OK: realloc(p, SIZE_MAX-10) failed as it must\n"); return 0; }
    printf("BUG: realloc(p, SIZE_MAX-10) returned %p (old %p), scalable_msize=%zu\n", (void *)q, (void *)p,
           scalable_msize(q));
    signal(SIGSEGV, h);
    if (sigsetjmp(jb, 1) == 0) {
        volatile char c = q[sz / 2];
        printf("byte at 1MB still readable: 0x%02x\n", (unsigned char)c);
    } else
        printf("BUG: byte 1MB of the 2MB object is no longer mapped - contents lost\n");
    return 1;
}
