#include <oneapi/tbb/parallel_reduce.h>
#include <oneapi/tbb/blocked_range.h>
#include <oneapi/tbb/global_control.h>
#include <oneapi/tbb/task_arena.h>
#include <vector>
#include <cstdio>
#include <cstring>
int main(){
  std::vector<float> v(1000003);
  unsigned s=12345; for(auto&x:v){ s=s*1664525u+1013904223u; x=(s>>8)/float(1<<20) * ((s&1)?1e-3f:1e3f);}
  for (int p : {1,2,3,4,7,8}) {
    tbb::task_arena ar(p); ar.execute([&]{
    float r = tbb::parallel_deterministic_reduce(tbb::blocked_range<size_t>(0,v.size()), 0.f,
       [&](const tbb::blocked_range<size_t>& r, float a){ for(size_t i=r.begin();i<r.end();++i) a+=v[i]; return a;},
       [](float a,float b){return a+b;}, tbb::static_partitioner());
    float r2 = tbb::parallel_deterministic_reduce(tbb::blocked_range<size_t>(0,v.size(),1000), 0.f,
       [&](const tbb::blocked_range<size_t>& r, float a){ for(size_t i=r.begin();i<r.end();++i) a+=v[i]; return a;},
       [](float a,float b){return a+b;}, tbb::simple_partitioner());
    unsigned u,u2; memcpy(&u,&r,4); memcpy(&u2,&r2,4);
    printf("p=%d static=%08x simple=%08x\n",p,u,u2); });
  }
}
