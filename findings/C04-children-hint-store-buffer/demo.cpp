// Litmus for C04: first child bound beneath a parent that is being cancelled (store-buffer reordering between
// parent.my_may_have_children store and the speculative load of parent.my_cancellation_requested in bind_to_impl).
#include <oneapi/tbb/parallel_for.h>
#include <oneapi/tbb/task_group.h>
#include <oneapi/tbb/global_control.h>
#include <atomic>
#include <thread>
#include <cstdio>
#include <cstdlib>
#include <chrono>
#include <random>

std::atomic<long> go{0}, done{0};
std::atomic<tbb::task_group_context*> target{nullptr};
std::atomic<bool> stop{false};
std::atomic<int> delay{0};

int main(int argc, char** argv) {
    long iters = argc > 1 ? atol(argv[1]) : 2000000;
    int maxdelay = argc > 2 ? atoi(argv[2]) : 400;
    long bad = 0, cancelled_seen = 0, not_cancelled_parent = 0;
    std::thread B([&] {
        long seen = 0;
        for (;;) {
            long g;
            while ((g = go.load(std::memory_order_acquire)) == seen) { if (stop.load()) return; }
            seen = g;
            int d = delay.load(std::memory_order_relaxed);
            for (volatile int i = 0; i < d; ++i) {}
            target.load(std::memory_order_relaxed)->cancel_group_execution();
            done.store(g, std::memory_order_release);
        }
    });
    std::mt19937 rng(12345);
    tbb::task_group_context G;
    tbb::parallel_for(0, 1, [&](int) {
        for (long it = 1; it <= iters; ++it) {
            tbb::task_group_context P;
            bool c_cancelled = true, p_cancelled = false;
            tbb::parallel_for(0, 1, [&](int) {
                // current context is P (bound beneath G), P has no children yet
                target.store(&P, std::memory_order_relaxed);
                delay.store(int(rng() % maxdelay), std::memory_order_relaxed);
                tbb::task_group_context C;
                go.store(it, std::memory_order_release);
                tbb::parallel_for(0, 1, [](int) {}, C);        // binds C beneath P (P has a parent: grand-parent branch)
                while (done.load(std::memory_order_acquire) != it) {}
                c_cancelled = C.is_group_execution_cancelled();
                p_cancelled = P.is_group_execution_cancelled();
            }, P);
            if (p_cancelled && !c_cancelled) {
                ++bad;
                if (bad <= 5) std::printf("iteration %ld: parent cancelled, its bound child is NOT cancelled\n", it);
            }
            if (c_cancelled) ++cancelled_seen;
            if (!p_cancelled) ++not_cancelled_parent;
        }
    }, G);
    stop = true;
    go.store(-1);
    B.join();
    std::printf("iterations %ld, child cancelled %ld, child missed %ld, parent not cancelled %ld\n", iters, cancelled_seen, bad, not_cancelled_parent);
    return bad ? 1 : 0;
}
