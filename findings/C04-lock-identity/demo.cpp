// Demonstration for the C04 finding: a context bound beneath a descendant of a cancelled context while the cancellation
// is propagating stays uncancelled, because bind_to_impl's "locked" re-copy takes the_context_state_propagation_mutex
// while the propagation runs under cancellation_disseminator::my_threads_list_mutex (a different mutex).
//
// Context tree:  ctx1 (cancelled by thread T1)  <-  ctx2 (bound on the main thread A)  <-  ctx5 (bound on worker B
// during the propagation).  Expected by the property: after cancel returned and the binding completed, ctx5 is cancelled.
//
// The schedule (T1 has walked B's list and not yet A's list when B binds ctx5) is made reproducible by the replay-only
// delay in the scratch tree (env VERIF_C04_DELAY); the library logic itself is unchanged.
#include <oneapi/tbb/task_group.h>
#include <oneapi/tbb/global_control.h>
#include <atomic>
#include <chrono>
#include <cstdio>
#include <thread>

static std::atomic<bool> h_started{false}, go_cancel{false}, cancel_done{false}, h_done{false};
static std::atomic<int> ctx5_cancelled{-1}, ctx2_cancelled{-1};

int main() {
    tbb::global_control gc(tbb::global_control::max_allowed_parallelism, 4);
    tbb::task_group_context ctx1;                       // root of the tree, bound lazily (parent = arena default => isolated)
    std::thread canceller;
    tbb::task_group tg1(ctx1);
    tg1.run_and_wait([&] {                              // runs on A under ctx1
        tbb::task_group_context ctx2;                   // will be bound to ctx1, registered in A's context list
        tbb::task_group tg2(ctx2);
        tg2.run_and_wait([&] {                          // runs on A under ctx2
            canceller = std::thread([&] {               // T1: newest thread => its list and the workers' lists are walked first
                while (!go_cancel.load()) std::this_thread::yield();
                ctx1.cancel_group_execution();
                cancel_done.store(true);
            });
            tg2.run([&] {                               // must be stolen by a worker B (A only spins below)
                h_started.store(true);
                go_cancel.store(true);
                std::this_thread::sleep_for(std::chrono::milliseconds(200));   // T1 is now sleeping before A's list
                tbb::task_group_context ctx5;           // bound to ctx2 on B *during* the propagation
                tbb::task_group tg5(ctx5);
                tg5.run_and_wait([&] {
                    while (!cancel_done.load()) std::this_thread::yield();     // cancel_group_execution() returned
                    ctx5_cancelled.store(ctx5.is_group_execution_cancelled() ? 1 : 0);
                    ctx2_cancelled.store(ctx2.is_group_execution_cancelled() ? 1 : 0);
                });
                h_done.store(true);
            });
            while (!h_done.load()) std::this_thread::yield();   // A does not execute its own spawned task: no wait here
        });
    });
    canceller.join();
    std::printf("ctx1 cancelled=%d ctx2 cancelled=%d ctx5 cancelled=%d\n", (int)ctx1.is_group_execution_cancelled(),
                ctx2_cancelled.load(), ctx5_cancelled.load());
    if (ctx2_cancelled.load() == 1 && ctx5_cancelled.load() == 0) {
        std::printf("FAIL: ctx5 is bound beneath cancelled ctx2/ctx1 but was not cancelled\n");
        return 1;
    }
    std::printf("PASS\n");
    return 0;
}
