// C14: remove_edge(buffering sender of continue_msg, continue_node) decrements the node's predecessor count twice
#include <oneapi/tbb/flow_graph.h>
#include <cstdio>
#include <atomic>
using namespace tbb::flow;
template <typename Sender>
int run(const char* what) {
    graph g;
    std::atomic<int> fired{0};
    continue_node<continue_msg> c(g, [&](const continue_msg&) { ++fired; return continue_msg(); });
    Sender q(g);
    broadcast_node<continue_msg> b1(g), b2(g);
    make_edge(q, c); make_edge(b1, c); make_edge(b2, c);          // 3 predecessors
    remove_edge(q, c);                                           // 2 predecessors remain
    b1.try_put(continue_msg());
    g.wait_for_all();
    int after_one = fired;
    b2.try_put(continue_msg());
    g.wait_for_all();
    std::printf("%s: fired after 1 of 2 signals: %d, after 2 of 2: %d\n", what, after_one, int(fired));
    return (after_one == 0 && fired == 1) ? 0 : 1;
}
int main() {
    int bad = 0;
    bad += run<queue_node<continue_msg>>("queue_node");
    bad += run<buffer_node<continue_msg>>("buffer_node");
    bad += run<broadcast_node<continue_msg>>("broadcast_node (control)");
    std::printf(bad ? "FAIL\n" : "OK\n");
    return bad;
}
