#include <oneapi/tbb/concurrent_queue.h>
#include <cstdio>
int main(){
  tbb::concurrent_bounded_queue<int> q;
  printf("default cap=%td\n", q.capacity());
  q.set_capacity(-1);
  printf("cap after set_capacity(-1)=%td\n", q.capacity());
  bool ok=q.try_push(1);
  printf("try_push on empty queue -> %d\n", ok);
  return ok?0:1;
}
