#include <oneapi/tbb/concurrent_queue.h>
#include <cstdio>
#include <new>
#include <memory>
static bool fail_now=false;
template<class T> struct A {
  using value_type=T;
  A()=default; template<class U> A(const A<U>&){}
  T* allocate(std::size_t n){ if(fail_now) throw std::bad_alloc(); return std::allocator<T>().allocate(n);}
  void deallocate(T*p,std::size_t n){ std::allocator<T>().deallocate(p,n);}
  template<class U> bool operator==(const A<U>&)const{return true;}
  template<class U> bool operator!=(const A<U>&)const{return false;}
};
int main(){ setvbuf(stdout,nullptr,_IONBF,0);
  tbb::concurrent_queue<int,A<int>> q;
  for(int i=0;i<256;i++) q.push(i);      // fills first page of every sub-queue
  fail_now=true;
  try{ q.push(256); printf("no exception?\n"); }catch(std::bad_alloc&){ printf("push(256) threw bad_alloc\n"); }
  fail_now=false;
  int v, n=0;
  while(q.try_pop(v)) { if(v!=n) printf("order! %d %d\n",v,n); n++; }
  printf("popped %d, empty=%d size=%zu\n",n,(int)q.empty(),q.unsafe_size());
  return n==256?0:1;
}
