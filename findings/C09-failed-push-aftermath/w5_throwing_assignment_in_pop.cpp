#include <oneapi/tbb/concurrent_queue.h>
#include <thread>
#include <atomic>
#include <chrono>
#include <cstdio>
#include <cstdlib>
using namespace std::chrono_literals;
struct T { int v{0}; static bool boom; T()=default; T(int x):v(x){} T(const T&)=default;
  T& operator=(const T&o){ if(boom){boom=false; throw 1;} v=o.v; return *this;} };
bool T::boom=false;
int main(){ setvbuf(stdout,nullptr,_IONBF,0);
  tbb::concurrent_bounded_queue<T> q; q.set_capacity(1);
  q.push(T(1));
  std::atomic<int> d{0};
  std::thread D([&]{ q.push(T(2)); d=1; });
  while(q.size()<2) std::this_thread::yield();
  std::this_thread::sleep_for(100ms);
  T::boom=true; T out;
  try{ q.pop(out); printf("no throw\n"); }catch(int){ printf("pop threw from T::operator= (item 1 destroyed, slot vacated)\n"); }
  std::this_thread::sleep_for(500ms);
  printf("500ms later: blocked push %s (size=%td)\n", d? "completed":"STILL BLOCKED although the queue holds no item", q.size());
  int rc = d?0:1;
  std::thread([&]{ std::this_thread::sleep_for(3s); printf("giving up\n"); _Exit(rc?rc:2);}).detach();
  if(!d){ T o2; bool r=q.try_pop(o2); printf("try_pop -> %d\n",r);} 
  D.join(); return rc; }
