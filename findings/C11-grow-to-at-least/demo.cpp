// Demonstration for the C11 finding: concurrent_vector::grow_to_at_least(n) never returns for n - size() in [2^31, 2^32)
// because internal_grow_to_at_least decides "do I have to construct the claimed range?" on
//     int delta = static_cast<int>(new_size) - static_cast<int>(old_size);
// which is negative for such n: the size is already raised by the CAS, nobody constructs/allocates the range, and the caller
// then waits forever for segments that no thread will ever allocate.
#include <oneapi/tbb/concurrent_vector.h>
#include <cstdio>
#include <cstdlib>
int main(int argc, char** argv) {
    std::size_t n = argc > 1 ? std::strtoull(argv[1], nullptr, 0) : 0x80000000ull;
    tbb::concurrent_vector<char> v;
    v.grow_to_at_least(n);
    std::printf("grow_to_at_least(%zu) returned, size=%zu, v[n-1]=%d\n", n, v.size(), (int)v[n - 1]);
    return v.size() >= n ? 0 : 1;
}
