#include <oneapi/tbb/concurrent_queue.h>
#include <thread>
#include <atomic>
#include <chrono>
#include <cstdio>
#include <cstdlib>
using namespace std::chrono_literals;
int main(){
  tbb::concurrent_bounded_queue<int> q;
  std::atomic<int> p1{0};
  std::thread P1([&]{ int v; try{ q.pop(v); p1=1;}catch(tbb::user_abort&){p1=2;} });
  while(q.size()>-1) std::this_thread::yield();
  std::this_thread::sleep_for(100ms);
  std::thread pusher([&]{ std::this_thread::sleep_for(300ms); q.push(7); });
  std::thread W([&]{ std::this_thread::sleep_for(3s); printf("HANG: item pushed but pop never returns; p1=%d size=%td\n",(int)p1,q.size()); fflush(stdout); _Exit(2);});
  W.detach();
  q.abort();
  int v=0; q.pop(v);       // a new pop issued right after abort() returned
  printf("popped %d p1=%d\n",v,(int)p1);
  P1.join(); pusher.join();
  return 0;
}
