// unmodified library: a message copy that throws inside queue_node::try_put leaves the node's aggregator busy for ever
#include <oneapi/tbb/flow_graph.h>
#include <cstdio>
#include <thread>
#include <chrono>
#include <stdexcept>
static bool g_throw = false;
struct M { int v; M(int x=0):v(x){} M(const M& o):v(o.v){ if (g_throw) { g_throw=false; throw std::runtime_error("copy"); } } M& operator=(const M&)=default; };
int main(){
  std::thread([]{ std::this_thread::sleep_for(std::chrono::seconds(5)); std::fprintf(stderr, "HANG: second try_put never returns\n"); std::_Exit(2);}).detach();
  tbb::flow::graph g; tbb::flow::queue_node<M> q(g);
  M m(1);
  g_throw = true;
  try { q.try_put(m); std::fprintf(stderr, "no throw?\n"); } catch (std::exception& e) { std::fprintf(stderr, "first try_put threw: %s\n", e.what()); }
  bool r = q.try_put(M(2));
  std::fprintf(stderr, "second try_put returned %d\n", r);
  return 0;
}
