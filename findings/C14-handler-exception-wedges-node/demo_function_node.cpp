// function_node with concurrency 1 and a queue: a message that has to be queued is copied inside the node's aggregator handler.
// If that copy throws, the exception leaves the handler: later operations on the node never complete.
#include <oneapi/tbb/flow_graph.h>
#include <atomic>
#include <cstdio>
#include <thread>
#include <chrono>
#include <stdexcept>
#include <unistd.h>
static std::atomic<int> arm{0};
struct Msg {
    int v = 0;
    Msg() = default;
    explicit Msg(int x) : v(x) {}
    Msg(const Msg& o) : v(o.v) { if (o.v == 2 && arm.load() && arm.fetch_sub(1) == 1) throw std::runtime_error("copy"); }
    Msg& operator=(const Msg&) = default;
};
int main() {
    std::thread wd([] { std::this_thread::sleep_for(std::chrono::seconds(10)); std::fprintf(stderr, "HANG: an operation on the node never completed\n"); _exit(2); });
    wd.detach();
    tbb::flow::graph g;
    std::atomic<bool> release{false};
    std::atomic<int> seen{0};
    tbb::flow::function_node<Msg, int> n(g, 1, [&](const Msg& m) { while (!release) std::this_thread::yield(); ++seen; return m.v; });
    n.try_put(Msg(1));                 // occupies the node
    std::this_thread::sleep_for(std::chrono::milliseconds(100));
    bool thrown = false;
    for (int k = 1; k <= 4 && !thrown; ++k) {     // find the copy that happens inside the handler
        arm = k;
        try { n.try_put(Msg(2)); } catch (const std::runtime_error&) { thrown = true; std::printf("try_put threw at copy #%d\n", k); }
        if (!thrown) { arm = 0; }
    }
    std::fflush(stdout);
    n.try_put(Msg(3));
    release = true;
    g.wait_for_all();
    std::printf("seen=%d\n", seen.load());
    return 0;
}
