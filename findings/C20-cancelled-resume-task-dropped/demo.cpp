#include <oneapi/tbb/task_arena.h>
#include <oneapi/tbb/task_group.h>
#include <oneapi/tbb/task.h>
#include <atomic>
#include <thread>
#include <chrono>
#include <cstdio>
#include <unistd.h>
int main(int argc, char**) {
    std::thread([]{ std::this_thread::sleep_for(std::chrono::seconds(8)); std::printf("HANG: suspended task never continued\n"); std::fflush(stdout); _exit(2); }).detach();
    tbb::task_arena a(4);
    a.initialize();
    if (argc > 1) {
        std::atomic<bool> done{false};
        a.enqueue([&]{ tbb::task::current_context()->cancel_group_execution(); done = true; });
        while (!done) std::this_thread::yield();
        std::this_thread::sleep_for(std::chrono::milliseconds(100));
    }
    std::atomic<tbb::task::suspend_point> sp{nullptr};
    std::thread r([&]{ tbb::task::suspend_point p; while(!(p=sp.load())) std::this_thread::yield();
        std::this_thread::sleep_for(std::chrono::milliseconds(100)); tbb::task::resume(p); });
    std::atomic<bool> cont{false};
    a.execute([&]{ tbb::task_group tg; tg.run([&]{ while(!cont) {} }); tg.run_and_wait([&]{ tbb::task::suspend([&](tbb::task::suspend_point p){ sp = p; }); cont = true; std::printf("continued\n"); }); });
    r.join();
    std::printf("PASS\n");
}
