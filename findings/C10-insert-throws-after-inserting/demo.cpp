// concurrent_hash_map: insert() throws bad_alloc although the element was inserted
#include <oneapi/tbb/concurrent_hash_map.h>
#include <atomic>
#include <cstdio>
#include <new>
static std::atomic<bool> fail_arrays{false};
template <typename T> struct FailingAlloc {
    using value_type = T;
    FailingAlloc() = default;
    template <typename U> FailingAlloc(const FailingAlloc<U>&) {}
    T* allocate(std::size_t n) {
        if (n > 1 && fail_arrays.load()) throw std::bad_alloc();      // bucket arrays (segments) are the only n > 1 allocations
        return static_cast<T*>(::operator new(n * sizeof(T)));
    }
    void deallocate(T* p, std::size_t) { ::operator delete(p); }
    template <typename U> bool operator==(const FailingAlloc<U>&) const { return true; }
    template <typename U> bool operator!=(const FailingAlloc<U>&) const { return false; }
};
int main() {
    using Map = tbb::concurrent_hash_map<int, int, tbb::tbb_hash_compare<int>, FailingAlloc<std::pair<const int, int>>>;
    Map m;
    fail_arrays = true;
    int thrown = 0, inserted_although_thrown = 0;
    for (int k = 0; k < 64; ++k) {
        bool threw = false;
        try { m.insert(std::make_pair(k, k)); } catch (const std::bad_alloc&) { threw = true; }
        if (threw) { ++thrown; if (m.count(k)) ++inserted_although_thrown; }
    }
    std::printf("inserts that threw bad_alloc: %d, of which the key is in the map afterwards: %d, size() = %zu\n", thrown, inserted_although_thrown, m.size());
    fail_arrays = false;
    if (inserted_although_thrown) { std::printf("FAIL: insert reported failure (exception) for a key it inserted\n"); return 1; }
    std::printf("OK\n");
    return 0;
}
