// Side finding on the UNMODIFIED library: a message that a key_matching port REJECTS
// (try_put returns false because a message with this key is already buffered on the port)
// nevertheless overwrites the buffered, previously ACCEPTED message
// (hash_buffer_impl::insert_with_key destroys and re-creates the element before returning false).
// The tuple that is emitted later carries the rejected message, the accepted one is lost.
#include <oneapi/tbb/flow_graph.h>
#include <cstdio>
#include <tuple>
using namespace oneapi::tbb::flow;
struct Msg { int key; int val; Msg(int k = 0, int v = 0) : key(k), val(v) {} };
struct key_of { int operator()(const Msg& m) const { return m.key; } };
int main() {
    typedef std::tuple<Msg, Msg> tuple_t;
    graph g;
    join_node<tuple_t, key_matching<int> > j(g, key_of(), key_of());
    queue_node<tuple_t> q(g);
    make_edge(j, q);
    bool first  = input_port<0>(j).try_put(Msg(5, 100));   // accepted
    bool second = input_port<0>(j).try_put(Msg(5, 101));   // rejected: duplicate key on the port
    input_port<1>(j).try_put(Msg(5, 200));
    g.wait_for_all();
    tuple_t t;
    bool got = q.try_get(t);
    std::printf("first put accepted=%d, second put accepted=%d, tuple=%d, port-0 component val=%d\n",
                first, second, got, got ? std::get<0>(t).val : -1);
    if (got && first && !second && std::get<0>(t).val != 100) {
        std::printf("SIDE FINDING REPRODUCED: the rejected message (val 101) was used, the accepted one (val 100) was lost\n");
        return 1;
    }
    std::printf("not reproduced\n");
    return 0;
}
