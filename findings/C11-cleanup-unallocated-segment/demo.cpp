// Replay: an element constructor throws during grow_by() while an intermediate segment of the claimed range is not
// allocated yet.  Expected: the exception reaches the caller, the vector stays usable and destructible.
#include "oneapi/tbb/concurrent_vector.h"
#include <cstdio>
#include <cstdlib>
#include <stdexcept>
static int copies = 0, throw_at = -1;
struct Elem {
    int v;
    Elem(int x = 0) : v(x) {}
    Elem(const Elem& o) : v(o.v) { if (++copies == throw_at) throw std::runtime_error("element copy failed"); }
};
int main(int argc, char** argv) {
    int prefix = argc > 1 ? std::atoi(argv[1]) : 14;      // size before the failing call
    int delta  = argc > 2 ? std::atoi(argv[2]) : 26;      // grow_by(delta): claims [prefix, prefix+delta)
    int at     = argc > 3 ? std::atoi(argv[3]) : 2;       // the at-th copy made by grow_by throws (index prefix+at-1)
    tbb::concurrent_vector<Elem> v;
    for (int i = 0; i < prefix; ++i) v.push_back(Elem(i));
    copies = 0; throw_at = at;
    bool caught = false;
    try { v.grow_by(delta, Elem(7)); } catch (const std::runtime_error&) { caught = true; }
    throw_at = -1;
    std::printf("exception reported: %d, size() = %zu\n", (int)caught, v.size());
    // the vector must remain usable: every index below size() is readable (constructed or zero-filled) or at() throws
    long sum = 0;
    for (std::size_t i = 0; i < v.size(); ++i) { try { sum += v.at(i).v; } catch (...) {} }
    v.push_back(Elem(1));
    std::printf("OK: vector usable after the exception (sum=%ld, size=%zu)\n", sum, v.size());
    return caught ? 0 : 1;
}
