#include <oneapi/tbb/concurrent_set.h>
#include <oneapi/tbb/concurrent_unordered_set.h>
#include <oneapi/tbb/parallel_for.h>
#include <atomic>
#include <cstdio>
int main() {
    for (int n = 0; n <= 4; ++n) {
        tbb::concurrent_set<int> s; tbb::concurrent_unordered_set<int> u;
        for (int i = 0; i < n; ++i) { s.insert(i); u.insert(i); }
        std::atomic<int> seen{0}, seenu{0};
        tbb::parallel_for(s.range(), [&](const tbb::concurrent_set<int>::range_type& r) { for (auto it = r.begin(); it != r.end(); ++it) ++seen; });
        tbb::parallel_for(u.range(), [&](const tbb::concurrent_unordered_set<int>::range_type& r) { for (auto it = r.begin(); it != r.end(); ++it) ++seenu; });
        std::printf("n=%d ordered range saw %d (range.empty()=%d), unordered saw %d\n", n, seen.load(), (int)s.range().empty(), seenu.load());
    }
}
