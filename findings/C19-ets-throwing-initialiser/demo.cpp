// Replay: an initialiser (or element copy) that throws leaves a never-constructed slot in enumerable_thread_specific.
#include <oneapi/tbb/enumerable_thread_specific.h>
#include <cstdio>
#include <stdexcept>
static bool throw_on_copy = false;
struct V {
    int magic;
    V() : magic(42) {}
    V(const V& o) : magic(o.magic) { if (throw_on_copy) throw std::runtime_error("copy"); }
};
int main() {
    int rc = 0;
    {   // (1) create_local: the user's initialiser throws on the first access of the thread, succeeds on the retry
        int calls = 0;
        tbb::enumerable_thread_specific<V> ets([&]() -> V { if (++calls == 1) throw std::runtime_error("init"); return V(); });
        try { ets.local(); } catch (std::runtime_error&) {}
        std::printf("(1) after the failed first access: size()=%zu (a thread without an element)\n", (std::size_t)ets.size());
        ets.local();
        int n = 0, bad = 0;
        for (auto& v : ets) { ++n; if (v.magic != 42) ++bad; }
        std::printf("(1) after the retry: size()=%zu, iteration visits %d element(s), %d of them never constructed\n", (std::size_t)ets.size(), n, bad);
        if (ets.size() != 1 || n != 1) { std::printf("(1) FAIL: one thread, %d elements\n", n); rc = 1; }
    }
    {   // (2) create_local_by_copy: copying the container, the element copy throws
        tbb::enumerable_thread_specific<V> src;
        src.local();
        tbb::enumerable_thread_specific<V> dst;
        throw_on_copy = true;
        try { dst = src; } catch (std::runtime_error&) {}
        throw_on_copy = false;
        int n = 0;
        for (auto& v : dst) { (void)v; ++n; }
        std::printf("(2) after the failed assignment: dst.size()=%zu, iteration visits %d element(s) (none was constructed)\n", (std::size_t)dst.size(), n);
        if (dst.size() != 0) { std::printf("(2) FAIL: a never-constructed element is visible\n"); rc = 1; }
    }
    return rc;
}
