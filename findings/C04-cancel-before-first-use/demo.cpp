// C04 "a cancelled context stays cancelled until it is reset": cancellation requested before the first use of a context
// (public API, deterministic, single-threaded logic).
#include <oneapi/tbb/task_group.h>
#include <oneapi/tbb/parallel_for.h>
#include <atomic>
#include <cstdio>

static int probe(bool nested) {
    int bad = 0;
    auto work = [&] {
        tbb::task_group_context C;              // bound kind, not used yet
        C.cancel_group_execution();
        std::atomic<int> ran{0};
        tbb::parallel_for(0, 1, [&](int) { ++ran; }, C);     // first use: C is bound beneath the running context
        if (!C.is_group_execution_cancelled() || ran != 0) {
            std::printf("%s: context cancelled before its first use is NOT cancelled after binding (body ran %d time(s))\n",
                        nested ? "nested" : "outermost", int(ran));
            bad = 1;
        }
        tbb::task_group tg;
        tg.cancel();
        ran = 0;
        tg.run([&] { ++ran; });
        tbb::task_group_status st = tg.wait();
        if (ran != 0 || st != tbb::canceled) {
            std::printf("%s: task_group cancelled before its first run() executed the task (ran=%d, status=%d)\n",
                        nested ? "nested" : "outermost", int(ran), int(st));
            bad = 1;
        }
    };
    if (nested) {
        tbb::task_group_context P(tbb::task_group_context::isolated);
        tbb::parallel_for(0, 1, [&](int) { work(); }, P);
    } else {
        work();
    }
    return bad;
}

int main() {
    int n = probe(false) + probe(true);
    std::printf(n ? "FAIL\n" : "OK\n");
    return n;
}
