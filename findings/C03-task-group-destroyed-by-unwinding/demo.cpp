// task_group destroyed by stack unwinding while one of its tasks has thrown: the destructor's internal wait rethrows the task's
// exception during unwinding -> std::terminate, instead of letting the exception in flight reach its handler
#include <oneapi/tbb/task_group.h>
#include <cstdio>
#include <cstdlib>
#include <exception>
#include <stdexcept>
#include <atomic>
#include <thread>
#include <chrono>
static std::atomic<bool> started{false}, leave{false};
int main() {
    std::set_terminate([] { std::printf("FAIL: std::terminate called - the exception in flight never reached its handler\n"); std::fflush(stdout); std::_Exit(1); });
    int caught = 0;
    try {
        tbb::task_group tg;
        tg.run([] { started = true; while (!leave) std::this_thread::yield();
                    std::this_thread::sleep_for(std::chrono::milliseconds(50)); });  // still running when the owner is inside ~task_group
        while (!started) std::this_thread::yield();
        tg.run([] { throw std::runtime_error("from a task"); });             // captured by the group, which is cancelled by it
        std::this_thread::sleep_for(std::chrono::milliseconds(200));
        leave = true;
        throw std::logic_error("from the code between run() and wait()");      // unwinds through ~task_group
    } catch (const std::logic_error&) {
        caught = 1;
    } catch (const std::runtime_error&) {
        caught = 2;
    }
    std::printf(caught == 1 ? "OK: the exception in flight reached its handler\n" : "FAIL: caught=%d\n", caught);
    return caught == 1 ? 0 : 1;
}
