// buffered-token leak check on unmodified lib
#include <oneapi/tbb/parallel_pipeline.h>
#include <oneapi/tbb/global_control.h>
#include <atomic>
#include <cstdio>
#include <thread>
#include <chrono>
#include <string>
static std::atomic<long> ctors{0}, dtors{0};
struct Tok { int id; std::string pad; 
  Tok(int i):id(i),pad("x"){++ctors;} Tok(const Tok& o):id(o.id),pad(o.pad){++ctors;} Tok(Tok&& o):id(o.id),pad(std::move(o.pad)){++ctors;} ~Tok(){++dtors;} };
int main(){
  tbb::global_control gc(tbb::global_control::max_allowed_parallelism, 4);
  int next=0; bool caught=false;
  std::atomic<int> arrived{0};
  try {
  tbb::parallel_pipeline(8,
    tbb::make_filter<void,Tok>(tbb::filter_mode::serial_in_order,[&](tbb::flow_control& fc)->Tok{ if(next>=64){fc.stop(); return Tok(-1);} return Tok(next++);}) &
    tbb::make_filter<Tok,Tok>(tbb::filter_mode::parallel,[&](Tok t)->Tok{ if(t.id==0) { while(arrived<3) std::this_thread::yield(); std::this_thread::sleep_for(std::chrono::milliseconds(50)); } else ++arrived; return t;}) &
    tbb::make_filter<Tok,void>(tbb::filter_mode::serial_in_order,[&](Tok t){ if(t.id==0) throw 7; }));
  } catch(int){ caught=true; }
  printf("caught=%d ctors=%ld dtors=%ld\n",caught,ctors.load(),dtors.load());
  return !(caught && ctors==dtors);
}
