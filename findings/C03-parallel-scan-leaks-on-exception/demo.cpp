#include <oneapi/tbb/parallel_scan.h>
#include <oneapi/tbb/blocked_range.h>
#include <oneapi/tbb/global_control.h>
#include <atomic>
#include <cstdio>
static std::atomic<long> ctors{0}, dtors{0};
struct Body {
  long sum=0; bool thrower;
  Body(bool t):thrower(t){++ctors;}
  Body(Body& b, tbb::split):thrower(b.thrower){++ctors;}
  Body(const Body& b):sum(b.sum),thrower(b.thrower){++ctors;}
  ~Body(){++dtors;}
  template<class Tag> void operator()(const tbb::blocked_range<int>& r, Tag){ for(int i=r.begin();i<r.end();++i){ if(thrower && i==5000) throw 3; sum+=i;} }
  void reverse_join(Body& a){ sum+=a.sum; }
  void assign(Body& b){ sum=b.sum; }
};
int main(){
  tbb::global_control gc(tbb::global_control::max_allowed_parallelism, 4);
  for(int rep=0;rep<3;rep++){
    bool caught=false;
    { Body b(rep!=0); try{ tbb::parallel_scan(tbb::blocked_range<int>(0,100000,100), b);}catch(int){caught=true;} }
    printf("rep %d caught=%d ctors=%ld dtors=%ld\n",rep,caught,ctors.load(),dtors.load());
  }
  return ctors!=dtors;
}
