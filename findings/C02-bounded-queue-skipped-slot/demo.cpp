#include <oneapi/tbb/concurrent_queue.h>
#include <atomic>
#include <thread>
#include <chrono>
#include <cstdio>
#include <unistd.h>
static std::atomic<bool> do_throw{false};
struct Item {
    int v;
    Item(int x=0):v(x){}
    Item(const Item& o):v(o.v){ if (do_throw.load()) throw 42; }
    Item& operator=(const Item&)=default;
};
int main(int argc, char**){
    tbb::concurrent_bounded_queue<Item> q; q.set_capacity(1);
    Item it(1);
    do_throw = true;
    try { q.push(it); } catch(int){ std::printf("push threw; size=%td\n", q.size()); }
    do_throw = false;
    std::atomic<bool> pushed{false}, popped{false};
    std::thread p([&]{ q.push(it); pushed = true; });
    std::this_thread::sleep_for(std::chrono::milliseconds(300));
    std::printf("after 300ms: pushed=%d size=%td capacity=%td\n", (int)pushed.load(), q.size(), q.capacity());
    std::thread c;
    if (argc > 1) c = std::thread([&]{ Item r; bool ok = q.try_pop(r); std::printf("try_pop -> %d\n", ok); popped = true; });
    else c = std::thread([&]{ Item r; q.pop(r); popped = true; });
    std::this_thread::sleep_for(std::chrono::milliseconds(2000));
    std::printf("after 2s: pushed=%d popped=%d\n", (int)pushed.load(), (int)popped.load());
    if (!pushed || !popped) { std::printf("HANG\n"); _exit(1);} 
    p.join(); c.join(); std::printf("OK\n");
}
