// parallel input filter whose items may be "null" (int 0): the end of input is told apart from a legitimate 0 by a thread-local
// mark set by flow_control::stop().  If the body waits on nested work, the same thread can run the NEXT input invocation inside
// that wait; when that one calls stop(), the mark stays set on the thread and the outer invocation's legitimate item 0 is taken
// for the end-of-input signal and dropped.
#include <oneapi/tbb/parallel_pipeline.h>
#include <oneapi/tbb/task_group.h>
#include <oneapi/tbb/task_arena.h>
#include <atomic>
#include <thread>
#include <chrono>
#include <cstdio>
#include <unistd.h>
int main() {
    std::thread wd([] { std::this_thread::sleep_for(std::chrono::seconds(20)); std::fprintf(stderr, "watchdog: the probe itself hangs\n"); _exit(3); });
    wd.detach();
    tbb::task_arena helper(2, 1);               // runs the nested work the input body waits for
    tbb::task_arena solo(1);                    // the pipeline runs on the calling thread alone: the nesting is deterministic
    int fails = 0;
    for (int rep = 0; rep < 3; ++rep) {
        std::atomic<int> produced{0}, outputs{0};
        std::atomic<bool> stop_called{false};
        const int N = 4;                         // items 3,2,1,0 - the last legitimate item is 0
        solo.execute([&] {
            tbb::parallel_pipeline(8,
                tbb::make_filter<void, int>(tbb::filter_mode::parallel, [&](tbb::flow_control& fc) -> int {
                    int k = produced.fetch_add(1);
                    if (k >= N) { fc.stop(); stop_called = true; return 0; }
                    int item = N - 1 - k;
                    if (item == 0) {
                        // nested wait for work that finishes only after the next input invocation (run by THIS thread inside
                        // the wait: it is the only task in its pool) has called stop()
                        tbb::task_group tg;
                        helper.enqueue(tg.defer([&] { while (!stop_called) std::this_thread::yield(); }));
                        tg.wait();
                    }
                    return item;
                }) &
                tbb::make_filter<int, void>(tbb::filter_mode::parallel, [&](int) { ++outputs; }));
        });
        std::printf("rep %d: outputs=%d expected %d\n", rep, outputs.load(), N);
        if (outputs != N) ++fails;
    }
    return fails ? 1 : 0;
}
