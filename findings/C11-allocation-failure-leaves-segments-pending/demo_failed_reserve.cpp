#include <oneapi/tbb/concurrent_vector.h>
#include <atomic>
#include <cstdio>
#include <thread>
#include <chrono>
#include <new>
#include <unistd.h>
static std::atomic<bool> fail_next{false};
template <typename T> struct FA {
    using value_type = T;
    FA() = default;
    template <typename U> FA(const FA<U>&) noexcept {}
    T* allocate(std::size_t n) { if (std::is_same<T,int>::value && n >= 100 && fail_next.exchange(false)) throw std::bad_alloc(); return std::allocator<T>().allocate(n); }
    void deallocate(T* p, std::size_t n) { std::allocator<T>().deallocate(p, n); }
    template <typename U> bool operator==(const FA<U>&) const { return true; }
    template <typename U> bool operator!=(const FA<U>&) const { return false; }
};
int main() {
    std::thread wd([] { std::this_thread::sleep_for(std::chrono::seconds(5)); std::printf("HANG: push_back after a failed reserve(100) never returned\n"); std::fflush(stdout); _exit(3); });
    wd.detach();
    tbb::concurrent_vector<int, FA<int>> v;
    fail_next = true;
    try { v.reserve(100); std::printf("no throw?\n"); } catch (std::bad_alloc&) { std::printf("reserve(100) threw bad_alloc, size()=%zu\n", v.size()); }
    for (int i = 0; i < 10; ++i) {
        try { v.push_back(2); std::printf("push_back #%d worked\n", i); } catch (std::bad_alloc&) { std::printf("push_back #%d threw bad_alloc\n", i); }
        std::fflush(stdout);
    }
    return 0;
}
