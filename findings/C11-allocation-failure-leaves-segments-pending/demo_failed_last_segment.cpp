#include <oneapi/tbb/concurrent_vector.h>
#include <atomic>
#include <cstdio>
#include <thread>
#include <chrono>
#include <new>
#include <unistd.h>
static std::atomic<bool> fail_big{false};
template <typename T> struct FA {
    using value_type = T;
    FA() = default;
    template <typename U> FA(const FA<U>&) noexcept {}
    T* allocate(std::size_t n) { if (std::is_same<T,int>::value && n == 64 && fail_big.load()) throw std::bad_alloc(); return std::allocator<T>().allocate(n); }
    void deallocate(T* p, std::size_t n) { std::allocator<T>().deallocate(p, n); }
    template <typename U> bool operator==(const FA<U>&) const { return true; }
    template <typename U> bool operator!=(const FA<U>&) const { return false; }
};
int main() {
    std::thread wd([] { std::this_thread::sleep_for(std::chrono::seconds(5)); std::printf("HANG: grow_to_at_least(50) after a grow_by(100) whose last segment failed to allocate never returned\n"); std::fflush(stdout); _exit(3); });
    wd.detach();
    tbb::concurrent_vector<int, FA<int>> v;
    v.grow_by(10, 1);
    fail_big = true;
    try { v.grow_by(100, 1); std::printf("no throw?\n"); } catch (std::bad_alloc&) { std::printf("grow_by(100) threw bad_alloc, size()=%zu\n", v.size()); }
    fail_big = false;
    try { v.grow_to_at_least(50); std::printf("grow_to_at_least returned, size()=%zu\n", v.size()); } catch (std::bad_alloc&) { std::printf("grow_to_at_least threw bad_alloc\n"); }
    return 0;
}
