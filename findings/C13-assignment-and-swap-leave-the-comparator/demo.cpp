// concurrent_priority_queue: (1) assignment / swap must carry the comparator with the heap, (2) a moved-from queue is empty.
#include <oneapi/tbb/concurrent_priority_queue.h>
#include <cstdio>
#include <vector>
struct Cmp { bool descending; bool operator()(int a, int b) const { return descending ? a < b : a > b; } };
using Q = tbb::concurrent_priority_queue<int, Cmp>;
static std::vector<int> drain(Q& q) { std::vector<int> v; int x; while (q.try_pop(x)) v.push_back(x); return v; }
static bool sorted_by(const std::vector<int>& v, bool descending) {
    for (std::size_t i = 1; i < v.size(); ++i) if (descending ? v[i - 1] < v[i] : v[i - 1] > v[i]) return false;
    return true;
}
int main() {
    int fails = 0;
    const int in[] = {5, 1, 9, 3, 6, 2, 4, 1};
    {   // swap: each queue takes the other's elements AND order
        Q maxq(Cmp{true}), minq(Cmp{false});
        for (int x : in) { maxq.push(x); minq.push(x); }
        maxq.swap(minq);
        auto a = drain(maxq), b = drain(minq);
        bool ok = sorted_by(a, false) && sorted_by(b, true) && a.size() == 8 && b.size() == 8;
        std::printf("swap: first queue pops%s in ascending order, second%s in descending order\n", sorted_by(a, false) ? "" : " NOT", sorted_by(b, true) ? "" : " NOT");
        fails += !ok;
    }
    {   // copy assignment
        Q src(Cmp{false}), dst(Cmp{true});
        for (int x : in) src.push(x);
        dst = src;
        auto a = drain(dst);
        std::printf("copy assignment: the copy pops%s like its source (ascending)\n", sorted_by(a, false) ? "" : " NOT");
        fails += !sorted_by(a, false);
    }
    {   // moved-from queue
        Q a(Cmp{true});
        for (int x : in) a.push(x);
        Q b(std::move(a));
        std::printf("moved-from queue: size()=%zu empty()=%d\n", a.size(), int(a.empty()));
        fails += !(a.size() == 0 && a.empty());
        for (int x : {1, 7, 3, 9, 5}) a.push(x);
        auto v = drain(a);
        std::printf("moved-from queue reused: %zu elements popped,%s in priority order\n", v.size(), sorted_by(v, true) ? "" : " NOT");
        fails += !(v.size() == 5 && sorted_by(v, true));
    }
    return fails ? 1 : 0;
}
