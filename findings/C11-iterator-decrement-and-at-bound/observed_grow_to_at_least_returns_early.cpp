#include <oneapi/tbb/concurrent_vector.h>
#include <atomic>
#include <cstdio>
#include <thread>
#include <chrono>
static std::atomic<int> in_ctor{0};
struct S { int v; S():v(0){} explicit S(int x):v(x){} S(const S& o):v(0){ ++in_ctor; std::this_thread::sleep_for(std::chrono::milliseconds(100)); v=o.v; } };
int main() {
    tbb::concurrent_vector<S> v;
    std::thread a([&]{ v.grow_to_at_least(4, S(5)); });
    while (in_ctor.load()==0) std::this_thread::yield();
    auto it = v.grow_to_at_least(4, S(5));
    int bad=0; for (int i=0;i<4;++i) if (v[i].v!=5) ++bad;
    std::printf("second grow_to_at_least(4) returned; %d of 4 elements below n not constructed yet\n", bad);
    a.join();
    return bad?1:0;
}
