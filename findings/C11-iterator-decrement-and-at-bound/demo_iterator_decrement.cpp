#include <oneapi/tbb/concurrent_vector.h>
#include <cstdio>
int main() {
    tbb::concurrent_vector<long> v;
    for (long i = 0; i < 4; ++i) v.push_back(i);
    auto it = v.push_back(4);     // index 4 = first element of segment 2, iterator caches the element address
    --it;                          // must refer to v[3]
    std::printf("&*--it=%p  &v[3]=%p  %s\n", (void*)&*it, (void*)&v[3], &*it == &v[3] ? "ok" : "WRONG");
    return &*it == &v[3] ? 0 : 1;
}
