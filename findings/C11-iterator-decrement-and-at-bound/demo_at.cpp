#include <oneapi/tbb/concurrent_vector.h>
#include <atomic>
#include <cstdio>
#include <thread>
#include <chrono>
#include <csignal>
#include <unistd.h>
static std::atomic<bool> in_table_alloc{false}, release{false};
template <typename T> struct SA {
    using value_type = T;
    SA() = default;
    template <typename U> SA(const SA<U>&) noexcept {}
    T* allocate(std::size_t n) {
        if (!std::is_same<T,long>::value) { in_table_alloc = true; for (int i=0;i<5000 && !release.load();++i) std::this_thread::sleep_for(std::chrono::milliseconds(1)); }
        return std::allocator<T>().allocate(n);
    }
    void deallocate(T* p, std::size_t n) { std::allocator<T>().deallocate(p, n); }
    template <typename U> bool operator==(const SA<U>&) const { return true; }
    template <typename U> bool operator!=(const SA<U>&) const { return false; }
};
static void on_segv(int) { const char m[] = "SIGSEGV in at(8) while another thread is extending the segment table\n"; ssize_t r = write(1, m, sizeof(m)-1); (void)r; _exit(2); }
int main() {
    std::signal(SIGSEGV, on_segv);
    tbb::concurrent_vector<long, SA<long>> v;
    std::thread t([&]{ v.grow_by(20, 7L); });
    while (!in_table_alloc.load()) std::this_thread::yield();
    // my_size is 20 already, the table is still the embedded one (3 pointers)
    try { long x = v.at(8); std::printf("at(8) returned %ld\n", x); } catch (std::out_of_range&) { std::printf("at(8) threw out_of_range (fine)\n"); }
    release = true; t.join();
    return 0;
}
