#include <oneapi/tbb/flow_graph.h>
#include <atomic>
#include <cstdio>
#include <thread>
#include <chrono>
#include <stdexcept>
#include <unistd.h>
static std::atomic<bool> armed{false};
struct Msg {
    int v = 0;
    Msg() = default;
    explicit Msg(int x) : v(x) {}
    Msg(const Msg& o) : v(o.v) { if (armed.exchange(false)) throw std::runtime_error("copy failed"); }
    Msg& operator=(const Msg&) = default;
};
int main() {
    std::thread wd([] { std::this_thread::sleep_for(std::chrono::seconds(10)); std::fprintf(stderr, "HANG: wait_for_all never returned\n"); _exit(2); });
    wd.detach();
    tbb::flow::graph g;
    std::atomic<int> seen{0};
    tbb::flow::function_node<Msg, int> n(g, tbb::flow::unlimited, [&](const Msg& m) { ++seen; return m.v; });
    Msg m(7);
    bool thrown = false;
    armed = true;
    try { n.try_put(m); } catch (const std::runtime_error&) { thrown = true; }
    std::printf("try_put %s\n", thrown ? "threw" : "returned");
    n.try_put(Msg(8));
    try { g.wait_for_all(); } catch (...) { std::printf("wait_for_all threw\n"); }
    std::printf("seen=%d\n", seen.load());
    return 0;
}
