// C19: "each thread exactly one element, created by exactly one initialiser call" - when the allocation of the hash array
// fails in table_lookup, the element created just before stays in the container without a key.
#include <oneapi/tbb/enumerable_thread_specific.h>
#include <atomic>
#include <cstdio>
#include <new>
static std::atomic<bool> fail_words{false};
template <typename T> struct A {
    using value_type = T;
    A() = default;
    template <typename U> A(const A<U>&) {}
    T* allocate(std::size_t n) {
        if (fail_words.load() && sizeof(T) == sizeof(std::uintptr_t) && alignof(T) == alignof(std::uintptr_t)) throw std::bad_alloc();
        return static_cast<T*>(::operator new(n * sizeof(T)));
    }
    void deallocate(T* p, std::size_t) { ::operator delete(p); }
    template <typename U> bool operator==(const A<U>&) const { return true; }
    template <typename U> bool operator!=(const A<U>&) const { return false; }
};
static std::atomic<int> inits{0};
struct Elem { long pad[4]; Elem() { ++inits; } };
int main() {
    tbb::enumerable_thread_specific<Elem, A<Elem>> ets;
    fail_words = true;                       // the hash array is an array of machine words
    bool threw = false;
    try { ets.local(); } catch (const std::bad_alloc&) { threw = true; }
    fail_words = false;
    ets.local();                             // the same thread again
    std::printf("first access threw=%d, initialiser calls=%d, size()=%zu (one thread used the container)\n", threw, int(inits), ets.size());
    return (inits == 1 && ets.size() == 1) ? 0 : 1;
}
