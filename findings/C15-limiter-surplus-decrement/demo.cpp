#include <oneapi/tbb/flow_graph.h>
#include <cstdio>
using namespace oneapi::tbb::flow;
int main() {
    graph g;
    limiter_node<int,int> lim(g, 4);
    int seen = 0;
    struct Body { limiter_node<int,int>* l; int* seen;
        continue_msg operator()(const int& v) const noexcept { ++*seen; if (v == 3) l->decrementer().try_put(4); return continue_msg(); } };
    function_node<int, continue_msg, lightweight> fn(g, unlimited, Body{&lim, &seen});
    make_edge(lim, fn);
    lim.try_put(1); lim.try_put(2); lim.try_put(3);   // 3 outstanding, decrement by 4 while the third put is in flight -> count should be 0
    g.wait_for_all();
    int accepted = 0;
    for (int i = 0; i < 10; ++i) if (lim.try_put(100+i)) ++accepted;
    g.wait_for_all();
    std::printf("accepted after reset-to-zero: %d (threshold 4)\n", accepted);
    return accepted == 4 ? 0 : 1;
}
