#include <oneapi/tbb/parallel_scan.h>
#include <oneapi/tbb/global_control.h>
#include <atomic>
#include <mutex>
#include <set>
#include <cstdio>
#include <thread>
#include <chrono>
static std::mutex mtx; static std::set<const void*> live; static std::atomic<int> bogus{0};
struct R {
    long b,e;
    R(long b_, long e_):b(b_),e(e_){reg();}
    R(const R& o):b(o.b),e(o.e){reg();}
    R(R& o, tbb::split):b((o.b+o.e)/2),e(o.e){o.e=b;reg();}
    ~R(){ std::lock_guard<std::mutex> l(mtx); if(!live.erase(this)) ++bogus; }
    void reg(){ std::lock_guard<std::mutex> l(mtx); live.insert(this);}
    bool empty() const {return b>=e;} bool is_divisible() const {return e-b>1;}
};
static std::atomic<int> right_started{0};
struct B { long sum=0;
  B(){} B(B&,tbb::split){}
  template<class Tag> void operator()(const R& r, Tag){ if(r.b==0){ for(int i=0;i<2000 && !right_started;++i) std::this_thread::sleep_for(std::chrono::milliseconds(1)); } else right_started=1; sum+= r.e-r.b; }
  void reverse_join(B& a){sum+=a.sum;} void assign(B& a){sum=a.sum;} };
int main(){ tbb::global_control gc(tbb::global_control::max_allowed_parallelism,4);
  for(int k=0;k<20;++k){ right_started=0; B b; R r(0,2); tbb::parallel_scan(r,b,tbb::simple_partitioner()); }
  std::printf("destructor calls on never-constructed Range objects: %d\n", bogus.load()); return bogus!=0; }
