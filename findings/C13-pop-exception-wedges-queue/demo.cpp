// Side finding (UNMODIFIED library): an exception thrown by the element's assignment inside
// try_pop() escapes from the aggregator handler.  handler_busy is never reset, so EVERY later
// operation on the queue (by any thread) spins forever; if the throwing pop was batched with
// other threads' operations, the exception is delivered to the handler thread (possibly not the
// caller of the pop) and the remaining operations of the batch are never completed.
//
// Single-threaded reproducer.  exit 0 = queue still usable, 1 = queue wedged (hang detected).
#include <oneapi/tbb/concurrent_priority_queue.h>
#include <atomic>
#include <chrono>
#include <cstdio>
#include <thread>
#include <unistd.h>

static bool g_throw = false;
struct E {
    int v;
    E(int x = 0) : v(x) {}
    E(const E&) = default;
    E& operator=(const E& o) { if (g_throw) throw 42; v = o.v; return *this; }
    E& operator=(E&& o) { if (g_throw) throw 42; v = o.v; return *this; }
    bool operator<(const E& o) const { return v < o.v; }
};

int main() {
    tbb::concurrent_priority_queue<E> q;
    q.push(E(1)); q.push(E(2));
    E out;
    g_throw = true;
    try { q.try_pop(out); std::printf("no exception?\n"); }
    catch (int) { std::printf("try_pop threw (fine: the exception reached the caller)\n"); }
    g_throw = false;

    std::atomic<bool> done{false};
    std::thread t([&] { q.push(E(3)); done = true; });   // any later operation
    for (int i = 0; i < 300 && !done; ++i) std::this_thread::sleep_for(std::chrono::milliseconds(10));
    if (!done) { std::printf("WEDGED: push() after the failed try_pop() never returns\n"); std::fflush(stdout); _exit(1); }
    t.join();
    std::printf("OK: queue still usable, size=%zu\n", q.size());
    return 0;
}
