// Replay: buffer_node::try_get hands out the only item although it is reserved by another consumer.
#include "oneapi/tbb/flow_graph.h"
#include <cstdio>
#include <memory>
using namespace tbb::flow;
static int live = 0, dtors = 0, ctors = 0;
struct Msg {
    int id;
    Msg(int i = -1) : id(i) { ++ctors; }
    Msg(const Msg& o) : id(o.id) { ++ctors; }
    Msg& operator=(const Msg& o) { id = o.id; return *this; }
    ~Msg() { ++dtors; }
};
int main() {
    int rc = 0;
    {
        graph g;
        buffer_node<Msg> b(g);
        b.try_put(Msg(1));
        g.wait_for_all();
        Msg a, c;
        bool r1 = b.try_reserve(a);            // consumer A reserves the only item
        bool r2 = b.try_get(c);                // consumer B must not get it: "no non-reserved item in the buffer"
        std::printf("try_reserve=%d (id %d)  try_get while reserved=%d (id %d)\n", r1, a.id, r2, c.id);
        if (r1 && r2) { std::printf("FAIL: message 1 delivered to two consumers\n"); rc = 1; }
        bool r3 = b.try_consume();             // A completes its reservation
        std::printf("try_consume=%d\n", r3);
        b.try_put(Msg(2));
        g.wait_for_all();
        Msg d;
        bool r4 = b.try_get(d);
        std::printf("after put(2): try_get=%d (id %d)\n", r4, d.id);
        if (!r4) { std::printf("FAIL: message 2 was accepted (try_put true) but is lost\n"); rc = 1; }
    }
    std::printf("ctors=%d dtors=%d\n", ctors, dtors);
    if (ctors != dtors) { std::printf("FAIL: constructor/destructor mismatch\n"); rc = 1; }
    return rc;
}
