// concurrent_hash_map: a hash functor that throws during lazy rehashing strands the elements of the split bucket
#include <oneapi/tbb/concurrent_hash_map.h>
#include <cstdio>
#include <stdexcept>
static bool throw_now = false;
static int calls_until_throw = 0;
struct Hash {
    std::size_t hash(int k) const {
        if (throw_now && --calls_until_throw < 0) throw std::runtime_error("hash");
        return std::size_t(k);
    }
    bool equal(int a, int b) const { return a == b; }
};
int main() {
    using Map = tbb::concurrent_hash_map<int, int, Hash>;
    Map m;
    const int N = 6000;
    // a few early keys live in the two initial buckets; the table is then grown by keys that never touch the buckets those
    // early keys will belong to (their low 12 bits are 0), so these buckets stay marked "rehash required"
    const int early[] = {5, 6, 7};
    for (int k : early) m.insert(std::make_pair(k, k));
    for (int i = 1; i <= N; ++i) m.insert(std::make_pair(i * 4096, i));
    int lost = 0, thrown = 0;
    for (int k : early) {
        throw_now = true; calls_until_throw = 1;      // the 1st call is the lookup's own hash(key); the 2nd one is inside rehash_bucket
        try { (void)m.count(k); } catch (const std::runtime_error&) { ++thrown; }
        throw_now = false;
    }
    for (int k : early) if (m.count(k) != 1) ++lost;
    for (int i = 1; i <= N; ++i) if (m.count(i * 4096) != 1) ++lost;
    std::printf("lookups that threw: %d; keys that were inserted, never erased and are not found afterwards: %d of %d (size() = %zu)\n", thrown, lost, N + 3, m.size());
    if (lost) { std::printf("FAIL: keys lost after an exception from the hash functor during rehashing\n"); return 1; }
    std::printf("OK\n");
    return 0;
}
