#include <oneapi/tbb/parallel_reduce.h>
#include <oneapi/tbb/blocked_range.h>
#include <oneapi/tbb/global_control.h>
#include <atomic>
#include <cstdio>
#include <thread>
#include <chrono>
#include <stdexcept>
#include <unistd.h>
static std::atomic<int> joins{0};
static std::atomic<int> live{0};
struct Body {
    long sum = 0;
    Body() { ++live; }
    Body(Body&, tbb::split) { ++live; }
    ~Body() { --live; }
    void operator()(const tbb::blocked_range<int>& r) { for (int i = r.begin(); i != r.end(); ++i) { sum += i; volatile int x = 0; for (int k = 0; k < 20000; ++k) x = x + k; } }
    void join(Body& rhs) { if (++joins == 3) throw std::runtime_error("join failed"); sum += rhs.sum; }
};
int main(int argc, char** argv) {
    std::thread wd([] { std::this_thread::sleep_for(std::chrono::seconds(10)); std::fprintf(stderr, "HANG: parallel_reduce never returned\n"); _exit(2); });
    wd.detach();
    bool det = argc > 1;
    int rc = 1;
    {
        Body b;
        try {
            if (det) tbb::parallel_deterministic_reduce(tbb::blocked_range<int>(0, 1000, 1), b);
            else tbb::parallel_reduce(tbb::blocked_range<int>(0, 1000, 1), b, tbb::simple_partitioner());
            std::printf("returned normally, joins=%d\n", joins.load());
        } catch (const std::runtime_error& e) {
            std::printf("caught: %s\n", e.what());
            rc = 0;
        }
    }
    std::printf("live bodies after the call: %d\n", live.load());
    return rc == 0 && live == 0 ? 0 : 1;
}
