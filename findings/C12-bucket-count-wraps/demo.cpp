// C12: bucket growth has no upper bound: doubling wraps to 0 (hash % 0) / reserve() never terminates
#include <oneapi/tbb/concurrent_unordered_set.h>
#include <cstdio>
#include <cstdlib>
#include <thread>
#include <atomic>
#include <chrono>
int main(int argc, char**) {
    setvbuf(stdout, nullptr, _IONBF, 0);
    if (argc > 1) {
        std::atomic<bool> done{false};
        std::thread wd([&]{ for (int i = 0; i < 50 && !done; ++i) std::this_thread::sleep_for(std::chrono::milliseconds(100)); if (!done) { std::printf("HANG in reserve()\n"); std::_Exit(3); } });
        tbb::concurrent_unordered_set<int> s;
        s.max_load_factor(1.0f);
        s.reserve(~std::size_t(0));
        done = true; wd.join();
        std::printf("reserve returned, buckets=%zu\n", s.unsafe_bucket_count());
        return s.unsafe_bucket_count() == 0;
    }
    tbb::concurrent_unordered_set<int> s;
    s.max_load_factor(0.0f);          // accepted (only negative / NaN are rejected)
    for (int i = 0; i < 100; ++i) {
        s.insert(i);
        if (s.unsafe_bucket_count() == 0) { std::printf("after %d inserts the bucket count is 0\n", i + 1); }
    }
    for (int i = 0; i < 100; ++i) if (!s.contains(i)) { std::printf("key %d lost\n", i); return 1; }
    std::printf("OK buckets=%zu\n", s.unsafe_bucket_count());
    return 0;
}
