// Replay: lightweight bodies start after the graph was cancelled.
// A node `a` cancels the graph in its body and then forwards its output.  Successors with the lightweight policy are run
// inline by a's task; ordinary successors get a task, which the scheduler cancels.
#include <oneapi/tbb/flow_graph.h>
#include <atomic>
#include <cstdio>
using namespace oneapi::tbb::flow;
int main() {
    graph g;
    std::atomic<bool> cancelled{false};
    std::atomic<int> lw_unlimited{0}, lw_serial{0}, lw_continue{0}, normal{0};
    function_node<int, int> a(g, serial, [&](int v) { g.cancel(); cancelled = true; return v; });
    function_node<int, int, lightweight> f1(g, unlimited, [&](int v) noexcept { if (cancelled) ++lw_unlimited; return v; });
    function_node<int, int, lightweight> f2(g, serial, [&](int v) noexcept { if (cancelled) ++lw_serial; return v; });
    function_node<int, continue_msg> to_msg(g, unlimited, [](int) noexcept { return continue_msg(); });
    continue_node<int, lightweight> c(g, [&](const continue_msg&) noexcept { if (cancelled) ++lw_continue; return 0; });
    function_node<int, continue_msg, lightweight> a2c(g, unlimited, [](int) noexcept { return continue_msg(); });
    function_node<int, int> n(g, unlimited, [&](int v) { if (cancelled) ++normal; return v; });
    make_edge(a, f1);
    make_edge(a, f2);
    make_edge(a, a2c);
    make_edge(a2c, c);
    make_edge(a, n);
    a.try_put(1);
    g.wait_for_all();
    std::printf("is_cancelled=%d; bodies started after cancel(): lightweight unlimited=%d, lightweight serial=%d, lightweight continue_node=%d, ordinary=%d\n",
                (int)g.is_cancelled(), lw_unlimited.load(), lw_serial.load(), lw_continue.load(), normal.load());
    int bad = lw_unlimited + lw_serial + lw_continue + normal;
    if (bad) std::printf("FAIL: %d body/bodies started after the cancellation\n", bad);
    return bad ? 1 : 0;
}
