// C18: the C++ allocators must report a request whose byte size is not representable (n * sizeof(T) overflows) by std::bad_alloc
#define TBB_PREVIEW_MEMORY_POOL 1
#include <oneapi/tbb/scalable_allocator.h>
#include <oneapi/tbb/cache_aligned_allocator.h>
#include <oneapi/tbb/tbb_allocator.h>
#include <oneapi/tbb/memory_pool.h>
#include <cstdio>
#include <cstdint>
#include <new>
template <typename A> int probe(const char* name, A a) {
    const std::size_t n = SIZE_MAX / sizeof(typename A::value_type) + 2;      // n * sizeof(T) wraps to a few bytes
    try {
        auto* p = a.allocate(n);
        std::printf("%s: allocate(%zu elements of %zu bytes) returned %p instead of throwing std::bad_alloc\n", name, n, sizeof(typename A::value_type), (void*)p);
        a.deallocate(p, n);
        return 1;
    } catch (const std::bad_alloc&) {
        return 0;
    }
}
int main() {
    int bad = 0;
    bad += probe("scalable_allocator<long>", tbb::scalable_allocator<long>());
    bad += probe("cache_aligned_allocator<long>", tbb::cache_aligned_allocator<long>());
    bad += probe("tbb_allocator<long>", tbb::tbb_allocator<long>());
    tbb::memory_pool<std::allocator<char>> pool;
    bad += probe("memory_pool_allocator<long>", tbb::memory_pool_allocator<long>(pool));
    std::printf(bad ? "FAIL (%d allocators)\n" : "OK\n", bad);
    return bad;
}
