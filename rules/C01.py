"""C01 - every submitted task runs exactly once; a wait covers all of its work.  (DESIGN.md section 4, C01)"""
from engine.facts import AnalysisBroken, atomic_op, atomic_ops, is_full_fence, has_acquire, has_release, SEQ_CST, RELAXED
from engine.rules import (calls, calls_named, atomics_on, every_path_passes, last_member, oname, is_call_to, Defs,
                          resolve_cond_source, edges_where, dominated_by_edges, lockset, root_of, expr_key, Summaries)
from rules.common import task_classes, k7_task_class, TBB_SRC, exit_coverage

UNITS = ['src/tbb/arena_slot.cpp', 'src/tbb/arena.cpp', 'src/tbb/task_dispatcher.cpp', 'src/tbb/task.cpp',
         'src/tbb/small_object_pool.cpp', 'src/tbb/parallel_pipeline.cpp', 'drivers/algorithms.cpp']
UNITS_THOROUGH = sorted(set(UNITS + TBB_SRC))

R1 = 'tbb::detail::r1::'
D1 = 'tbb::detail::d1::'

EXPLANATION = (
    'Decides, from the CFGs of the scheduler core and of every task class instantiated by the drivers, the structural '
    'necessary conditions of "exactly once / wait covers the work": D1 owner/thief arbitration has a full fence between the '
    'index write and the opposite index read; D2 task-pool lock acquire/release pairing on all paths and acquisition by CAS; '
    'D3 the deque slot is read only after the arbitration; D4 the task_proxy two-sided claim is a CAS and the proxy is freed '
    'exactly on the losing side, mail is posted before the proxy is spawned, mailbox push is exchange-then-release-store; '
    'D5 task-stream lanes are only touched under their lane mutex and population bits follow the queue; D6 wait_context / '
    'reference_vertex counters change by one RMW and notify/forward exactly on the zero result; D7 every task class signals '
    'completion on every execute()/cancel() exit (sibling agreement); D8 join-tree nodes are created with a ref-count equal '
    'to the number of children attached, before the spawn; D9 the blocking wait goes through the dispatch loop before it '
    'reads the exception / returns; D10 task memory: the small-object pool\'s private list is touched only by its owner, a '
    'foreign free pushes onto the public list by a CAS loop with the link written before every attempt, the owner takes the '
    'public list by one exchange.  It does NOT decide absence of loss/duplication over all interleavings as such.')
EXPLANATION += ' Added after the seeded-change rounds: ' + 'D1 also: every ordering comparison on the result of an arbitration RMW (T = --tail, H = ++head) is evaluated signed; D3 also: a task that get_task/steal_task hands out is removed from the index range that is restored or re-published (null hole, or head moved past it) on every path on which the returned pointer is non-null (path-sensitive in the returned variable).'
EXPLANATION += ' Added in the fourth round of seeded changes: ' + 'D9 also: every waiting call of task_group_base (wait, run_and_wait(F), run_and_wait(task_handle)) resets the group context on every exit, normal and exceptional (exit_coverage: CFG paths, catch(...) handlers, scope-exit idioms classified from their code); D6 also: a per-thread reference vertex is destroyed only where get_num_child() == 0 is known for it; the tree folds are derived from the code (free functions every path of which decrements a node counter by RMW) and the root they hand back is released by every caller.'
EXPLANATION += ' Added later in the fourth round: ' + 'D9 also: every condition that can end a wait loop (a cycle through commit_wait) is re-evaluated between prepare_wait and commit_wait - task_arena::execute on a full arena re-tries occupy_free_slot after registering on the exit monitor.'
EXPLANATION += ' Added in the fifth seeding round: ' + 'D11 every slot index that arena::occupy_free_slot hands to a thread has been published to thieves (my_limit raised) on every path that returns it; tracked per path together with what comparisons tell about the index being the no-slot constant.'
ASSUMPTIONS = ['clang 14 selects the same declarations as the g++ 12 build for the analysed constructs',
               'C++11 memory model; seq_cst RMWs and seq_cst fences are the only full fences',
               'task classes not instantiated by drivers/*.cpp are not analysed']
ND = ['absence of loss/duplication over all interleavings', 'deque relocation arithmetic',
      'visibility of all writes to the waiter beyond the checked orders']


def run(facts, rep):
    d1_arbitration(facts, rep)
    d2_pool_lock(facts, rep)
    d3_slot_read(facts, rep)
    d4_proxy(facts, rep)
    d5_streams(facts, rep)
    d6_counters(facts, rep)
    d7_tasks(facts, rep)
    d8_tree(facts, rep)
    d9_wait(facts, rep)
    d10_task_memory(facts, rep)
    d9_group_wait_epilogue(facts, rep)
    d6_vertex_lifetime(facts, rep)
    # task_arena::execute on a full arena: the delegated functor is lost if the caller sleeps although a slot is free
    from rules.C02 import d2_recheck_between_prepare_and_commit
    d2_recheck_between_prepare_and_commit(facts, rep, clause='D9')
    d11_occupied_slots_are_published(facts, rep)


# ---------------------------------------------------------------------------------------------------------------
def d1_arbitration(facts, rep):
    for fname, wmem, rmem in ((R1 + 'arena_slot::get_task', 'tail', 'head'), (R1 + 'arena_slot::steal_task', 'head', 'tail')):
        for fn in facts.get(fname):
            writes = atomics_on(fn, wmem, kinds=('store', 'rmw', 'cas'))
            reads = atomics_on(fn, rmem, kinds=('load', 'rmw', 'cas'))
            if not writes or not reads:
                raise AnalysisBroken('%s: no atomic write of %s / read of %s found' % (fname, wmem, rmem))
            lock_calls = set(p for p, s, n, d in calls_named(fn, ('acquire_task_pool',)))
            n_arb = 0
            for rpos, rop in reads:
                # writes of the own index that can reach this read
                reaching = [(wpos, wop) for wpos, wop in writes if fn.can_reach(wpos, rpos)]
                if not reaching:
                    continue
                n_arb += 1
                bad = None
                for wpos, wop in reaching:
                    if is_full_fence(wop):
                        continue
                    ok, wit = every_path_passes(
                        fn, wpos, lambda p, e: isinstance(e, int) and is_full_fence(atomic_op(fn, e)), end=rpos)
                    if not ok:
                        bad = (wop, wit)
                        break
                rep.ob('D1', 'K2', fn, 'full fence between the write of %s and the read of %s at line %s' % (wmem, rmem, rop['ln']),
                       bad is None,
                       bad and ('%s.%s(%s) at line %s reaches %s.load at line %s with no seq_cst fence/RMW in between: owner and thief '
                                'can both miss each other\'s index update (%s)' % (wmem, bad[0]['name'], oname(bad[0]['order']),
                                                                                    bad[0]['ln'], rmem, rop['ln'], bad[1])),
                       ln=rop['ln'], key_extra=str(rop['ln']))
                # the arbitration read must be at least acquire unless the owner holds its pool lock
                under_lock = False
                if lock_calls:
                    ok, _ = every_path_passes(fn, 'entry', lambda p, e: p in lock_calls, end=rpos)
                    under_lock = ok
                if not under_lock:
                    rep.ob('D1', 'K1', fn, 'arbitration read of %s is at least acquire (line %s)' % (rmem, rop['ln']),
                           rop['order'] is not None and has_acquire(rop['order']),
                           '%s.load(%s) outside the pool lock' % (rmem, oname(rop['order'])), ln=rop['ln'], key_extra=str(rop['ln']))
            if n_arb == 0:
                raise AnalysisBroken('%s: no %s read is reachable from a %s write' % (fname, rmem, wmem))
    d1_signed_arbitration(facts, rep)
    rep.floor('D1', 6, 'fence-pair, order and signedness obligations in get_task/steal_task')


def d1_signed_arbitration(facts, rep):
    """K14: the value an arbitration RMW returns (T = --tail, H = ++head) can be one step outside the deque, in particular
    (size_t)-1 for an empty pool at index 0.  Every ordering comparison that uses such a value directly (or through the
    local it was stored in) must be evaluated in a signed type, otherwise `head > T` is false for T == -1 and the owner /
    thief reads a slot outside the published range."""
    n = 0
    for fname in (R1 + 'arena_slot::get_task', R1 + 'arena_slot::steal_task'):
        for fn in facts.get(fname):
            defs = Defs(fn)
            rmw_nodes = set(op['s'] for _, op in atomic_ops(fn) if op['kind'] == 'rmw' and last_member(fn, op['obj']) in ('head', 'tail'))
            rmw_vars = set()
            for (vid, dn), val in defs.value_of.items():
                if val is not None and (fn.subtree(val) & rmw_nodes):
                    rmw_vars.add(vid)

            def uses_rmw(s):
                for x in fn.subtree(s):
                    if x in rmw_nodes:
                        return True
                    nd = fn.nodes[x]
                    if nd.get('k') == 'var' and nd.get('v') in rmw_vars:
                        return True
                return False
            for pos, s, node in fn.stmt_elems(('binop',)):
                if node['op'] not in ('<', '<=', '>', '>=') or not (uses_rmw(node['l']) or uses_rmw(node['r'])):
                    continue
                ot = node.get('ot')
                n += 1
                rep.ob('D1', 'K14', fn, 'the arbitration comparison at line %s is evaluated in a signed type' % node['ln'],
                       bool(ot) and ot[1] == 1,
                       'compared as unsigned: an index of -1 (empty pool, tail decremented below 0) reads as the largest value and the '
                       'arbitration lets the owner / thief take a slot outside the deque', ln=node['ln'], key_extra='sg%s' % node['ln'])
    if n < 3:
        raise AnalysisBroken('D1: only %d arbitration comparisons on RMW results found (expected 3)' % n)


def d2_pool_lock(facts, rep):
    REL = ('release_task_pool', 'commit_relocated_tasks', 'reset_task_pool_and_leave')
    n = 0
    for fname in (R1 + 'arena_slot::get_task', R1 + 'arena_slot::prepare_task_pool'):
        for fn in facts.get(fname):
            acq = calls_named(fn, ('acquire_task_pool',))
            if not acq:
                raise AnalysisBroken('%s no longer calls acquire_task_pool' % fname)
            for pos, s, node, d in acq:
                ok, wit = every_path_passes(fn, pos, lambda p, e: is_call_to(fn, e, shortnames=REL))
                rep.ob('D2', 'K3', fn, 'acquire_task_pool() at line %s is released on every path' % node['ln'], ok,
                       'the owner\'s pool lock taken at line %s is still held at function exit: %s' % (node['ln'], wit),
                       ln=node['ln'], key_extra=str(node['ln']))
                n += 1
                # no double release: after a release, another release is not reachable without a new acquire
                for rpos, rs, rn, rd in calls_named(fn, REL):
                    if not fn.can_reach(pos, rpos):
                        continue
                    reached, ex, par = fn.walk(rpos, stop_elem=lambda p, e: is_call_to(fn, e, shortnames=('acquire_task_pool',)))
                    again = [q for q in reached if q != rpos and is_call_to(fn, fn.elems(q[0])[q[1]], shortnames=REL)]
                    rep.ob('D2', 'K3', fn, 'no second release after %s at line %s' % (rd['n'], rn['ln']), not again,
                           'a second pool release is reachable without re-acquiring', ln=rn['ln'], key_extra=str(rn['ln']))
    for fn in facts.get(R1 + 'arena_slot::steal_task'):
        defs = Defs(fn)
        lk = calls_named(fn, ('lock_task_pool',))
        if not lk:
            raise AnalysisBroken('steal_task no longer calls lock_task_pool')
        for pos, s, node, d in lk:
            # edges on which the lock result is known to be null are not obligated
            null_edges = edges_where(fn, lambda a, truth: (not truth) and fn.strip(resolve_cond_source(fn, defs, a)) == s)
            ok, wit = every_path_passes(fn, pos, lambda p, e: is_call_to(fn, e, shortnames=('unlock_task_pool',)),
                                        stop_edge=lambda b, si: (b, si) in null_edges)
            rep.ob('D2', 'K3', fn, 'non-null lock_task_pool() is followed by unlock_task_pool() on every path', ok,
                   'the victim\'s pool stays locked forever: ' + wit, ln=node['ln'])
            n += 1
    # both lock functions acquire by CAS; release/unlock publish with release order
    for fname in (R1 + 'arena_slot::acquire_task_pool', R1 + 'arena_slot::lock_task_pool'):
        for fn in facts.get(fname):
            ws = atomics_on(fn, 'task_pool', kinds=('store', 'rmw', 'cas'))
            ok = bool(ws) and all(op['kind'] == 'cas' and op['order'] is not None and has_acquire(op['order']) for _, op in ws)
            rep.ob('D2', 'K1', fn, 'task_pool is locked by compare-exchange (acquire or stronger)', ok,
                   'the pool lock is taken by %s' % ', '.join('%s(%s)' % (op['name'], oname(op['order'])) for _, op in ws))
    for fname in (R1 + 'arena_slot::release_task_pool', R1 + 'arena_slot::unlock_task_pool', R1 + 'arena_slot::publish_task_pool'):
        for fn in facts.get(fname):
            ws = atomics_on(fn, 'task_pool', kinds=('store', 'rmw', 'cas'))
            ok = bool(ws) and all(op['order'] is not None and has_release(op['order']) for _, op in ws)
            rep.ob('D2', 'K1', fn, 'task_pool is published/unlocked with release order', ok,
                   '%s' % ', '.join('%s(%s)' % (op['name'], oname(op['order'])) for _, op in ws))
    for fn in facts.get(R1 + 'arena_slot::commit_spawned_tasks'):
        ws = atomics_on(fn, 'tail', kinds=('store', 'rmw'))
        ok = bool(ws) and all(op['order'] is not None and has_release(op['order']) for _, op in ws)
        rep.ob('D2', 'K1', fn, 'new tail is published with release order (task pointers visible to thieves)', ok,
               ', '.join('%s(%s)' % (op['name'], oname(op['order'])) for _, op in ws))
    rep.floor('D2', 9, 'pool-lock pairing sites + lock/unlock orders')


def d3_slot_read(facts, rep):
    for fn in facts.get(R1 + 'arena_slot::get_task'):
        for pos, s, node, d in calls_named(fn, ('get_task_impl',)):
            ok, wit = every_path_passes(fn, 'entry', lambda p, e: isinstance(e, int) and (atomic_op(fn, e) or {}).get('kind') == 'rmw'
                                        and last_member(fn, atomic_op(fn, e)['obj']) == 'tail', end=pos)
            rep.ob('D3', 'K4', fn, 'get_task_impl(T) is dominated by the atomic decrement of tail', ok,
                   'slot T is read although tail was not moved below it first: ' + wit, ln=node['ln'])
    for fn in facts.get(R1 + 'arena_slot::steal_task'):
        n = 0
        from engine.rules import vars_initialised_from, is_var
        pool_vars = vars_initialised_from(fn, [c[1] for c in calls_named(fn, ('lock_task_pool',))])
        for pos, s, node in fn.stmt_elems(('rd',)):
            sub = fn.n(node['sub'])
            if sub.get('k') == 'index' and is_var(fn, sub['base'], pool_vars):
                n += 1
                ok, wit = every_path_passes(
                    fn, 'entry', lambda p, e: isinstance(e, int) and (atomic_op(fn, e) or {}).get('kind') == 'load'
                    and last_member(fn, atomic_op(fn, e)['obj']) == 'tail', end=pos)
                ok2, wit2 = every_path_passes(
                    fn, 'entry', lambda p, e: isinstance(e, int) and (atomic_op(fn, e) or {}).get('kind') == 'rmw'
                    and last_member(fn, atomic_op(fn, e)['obj']) == 'head', end=pos)
                rep.ob('D3', 'K4', fn, 'victim slot read is dominated by the head increment and the tail comparison', ok and ok2,
                       'victim_pool[...] is read without the arbitration: ' + (wit or wit2), ln=node['ln'], key_extra=str(node['ln']))
        if n == 0:
            raise AnalysisBroken('steal_task: no read of victim_pool[...] found')
    d3_taken_slot_excluded(facts, rep)
    rep.floor('D3', 4, 'slot reads in get_task and steal_task + taken-slot exclusion')


def d3_taken_slot_excluded(facts, rep):
    """A task that get_task / steal_task hands out must not stay inside the index range the function (re)publishes:
    on every path on which the returned task pointer is known to be non-null, a plain store to head/tail (a roll-back
    or re-publication of the bounds, as opposed to the arbitration RMW) is preceded by an exclusion of the taken slot --
    a null store into the pool array (a hole) or an increment of the variable that is then stored to head.
    Path-sensitive in the returned variable only (product construction)."""
    from engine.rules import product_walk, var_truth_tracker, returned_vars
    for fname in (R1 + 'arena_slot::get_task', R1 + 'arena_slot::steal_task'):
        for fn in facts.get(fname):
            rv = returned_vars(fn)
            if len(rv) != 1:
                raise AnalysisBroken('%s: expected exactly one returned local variable, found %d' % (fname, len(rv)))
            rvid = next(iter(rv))
            on_elem, on_edge = var_truth_tracker(fn, rvid)
            stores = {}
            head_vals = set()
            for pos, op in atomic_ops(fn):
                if op['kind'] == 'store' and last_member(fn, op['obj']) in ('head', 'tail'):
                    stores[pos] = op
                    if last_member(fn, op['obj']) == 'head' and op.get('val') is not None:
                        vn = fn.n(fn.strip(op['val']))
                        if vn.get('k') == 'var':
                            head_vals.add(vn['v'])
            if not stores:
                raise AnalysisBroken('%s: no plain store to head/tail found' % fname)
            excl = set()
            for pos, s, n in fn.stmt_elems(('binop', 'unop')):
                if n['k'] == 'binop' and n['op'] == '=' and fn.n(fn.strip(n['l'])).get('k') == 'index' and \
                        (fn.n(fn.strip(n['r'])).get('null') or fn.cv(n['r']) == 0):
                    excl.add(s)
                if n['k'] == 'unop' and n['op'] == '++' and fn.n(n['sub']).get('k') == 'var' and fn.n(n['sub'])['v'] in head_vals:
                    excl.add(s)
                if n['k'] == 'binop' and n['op'] == '+=' and fn.n(n['l']).get('k') == 'var' and fn.n(n['l'])['v'] in head_vals:
                    excl.add(s)
            bad = {}

            def elem_tr(st, pos, e):
                r, x = st
                if pos in stores and r == 'T' and not x:
                    bad.setdefault(pos, st)
                r2 = on_elem(r, e)
                if r2 != r and r2 != 'T':
                    x = False      # a new candidate is being examined: earlier exclusions belong to other slots
                if isinstance(e, int) and e in excl:
                    x = True
                return (r2, x)

            def edge_tr(st, b, si):
                r = on_edge(st[0], b, si)
                return None if r is None else (r, st[1])
            product_walk(fn, ('U', False), elem_tr, edge_tr)
            for pos, op in sorted(stores.items()):
                rep.ob('D3', 'K3', fn, 'the slot of a task that is handed out is outside the bounds restored by %s.store at line %s'
                       % (last_member(fn, op['obj']), op['ln']), pos not in bad,
                       'a path on which the returned task is non-null reaches this store with the taken slot neither nulled nor skipped '
                       '(head not moved past it): the task stays in the published range and is popped or stolen a second time',
                       ln=op['ln'], key_extra=str(op['ln']))


def d4_proxy(facts, rep):
    fns = facts.get(R1 + 'task_proxy::extract_task')
    for fn in fns:
        ws = atomics_on(fn, 'task_and_tag', kinds=('store', 'rmw', 'cas'))
        ok = bool(ws) and all(op['kind'] == 'cas' for _, op in ws)
        rep.ob('D4', 'K1', fn, 'the proxy tag leaves the shared state only by compare-exchange', ok,
               'task_and_tag is changed by %s: both the pool side and the mailbox side can obtain the task' %
               ', '.join(op['name'] for _, op in ws))
        cas_nodes = set(op['s'] for _, op in ws if op['kind'] == 'cas')
        succ_edges = edges_where(fn, lambda a, truth: truth and fn.strip(a) in cas_nodes)
        for pos, s, node in fn.stmt_elems(('return',)):
            if 'sub' not in node or fn.n(fn.strip(node['sub'])).get('null'):
                continue
            ok, wit = dominated_by_edges(fn, pos, succ_edges)
            rep.ob('D4', 'K4', fn, 'a task pointer is returned only on the CAS-success edge', ok,
                   'extract_task returns the task although the compare-exchange did not succeed: ' + wit, ln=node['ln'])
    # callers free the proxy exactly on the null result
    ncallers = 0
    for cname in (R1 + 'arena_slot::get_task_impl', R1 + 'arena::steal_task', R1 + 'task_dispatcher::get_mailbox_task'):
        for fn in facts.get(cname):
            defs = Defs(fn)
            ex = calls_named(fn, ('extract_task',))
            if not ex:
                raise AnalysisBroken('%s no longer calls extract_task' % cname)
            ex_nodes = set(s for _, s, _, _ in ex)
            null_edges = edges_where(fn, lambda a, truth: (not truth) and fn.strip(resolve_cond_source(fn, defs, a)) in ex_nodes)
            nonnull_edges = edges_where(fn, lambda a, truth: truth and fn.strip(resolve_cond_source(fn, defs, a)) in ex_nodes)
            dels = calls_named(fn, ('delete_object',))
            ncallers += 1
            if not dels:
                rep.ob('D4', 'K3', fn, 'the proxy is freed when extract_task returned null', False,
                       'no delete_object of the emptied proxy: proxies leak')
            for pos, s, node, d in dels:
                ok, wit = dominated_by_edges(fn, pos, null_edges)
                rep.ob('D4', 'K4', fn, 'the proxy is freed only on the null result of extract_task', ok,
                       'delete_object(proxy) is reachable when extract_task returned the task (the other side still owns the '
                       'proxy): ' + wit, ln=node['ln'], key_extra=str(node['ln']))
            # on the null edge every path frees the proxy before the function is left / the loop continues
            for (b, si) in null_edges:
                tgt = fn.blocks[b]['succ'][si]
                del_pos = set(p for p, _, _, _ in dels)
                reached, exitr, par = fn.walk((tgt, -1), stop_elem=lambda p, e: p in del_pos)
                # leaving without free: exit reached, or back to the extract call
                ok = not exitr and not any(fn.elems(q[0])[q[1]] in ex_nodes for q in reached if isinstance(fn.elems(q[0])[q[1]], int))
                rep.ob('D4', 'K3', fn, 'the proxy is freed on every path after extract_task returned null', ok,
                       'a path from the null result leaves without delete_object(proxy)', key_extra='%d.%d' % (b, si))
    # spawn with affinity: tag initialised and mail posted before the proxy is spawned
    spawns = [f for f in facts.get(R1 + 'spawn') if len(f.d.get('params', [])) == 3]
    if not spawns:
        raise AnalysisBroken('r1::spawn(task&, context&, slot_id) not found')
    for fn in spawns:
        pushes = [c for c in calls_named(fn, ('push',)) if last_member(fn, c[2].get('obj', -1)) == 'outbox']
        san = calls_named(fn, ('spawn_and_notify',))
        tagw = [(pos, s) for pos, s, node in fn.stmt_elems(('binop',)) if node['op'] == '=' and last_member(fn, node['l']) == 'task_and_tag']
        tagw += [(pos, op['s']) for pos, op in atomics_on(fn, 'task_and_tag', kinds=('store',))]
        if not pushes or not tagw:
            raise AnalysisBroken('spawn(t,ctx,id): mailbox push or tag initialisation not found')
        for ppos, ps, pn, pd in pushes:
            ok, wit = every_path_passes(fn, 'entry', lambda p, e: p in set(x[0] for x in tagw), end=ppos)
            rep.ob('D4', 'K4', fn, 'task_and_tag is initialised before the proxy is mailed', ok, wit, ln=pn['ln'])
            # every spawn_and_notify reachable after the proxy creation is after the push: i.e. no spawn_and_notify of the proxy
            # can reach the push
            for spos, ss, sn, sd in san:
                bad = fn.can_reach(spos, ppos)
                rep.ob('D4', 'K4', fn, 'outbox->push(proxy) precedes spawn_and_notify(proxy)', not bad,
                       'the proxy is spawned at line %s before it is mailed at line %s: a thief can consume and free it while '
                       'the sender still pushes it' % (sn['ln'], pn['ln']), ln=sn['ln'], key_extra=str(sn['ln']))
    for fn in facts.get(R1 + 'mail_outbox::push'):
        ops = atomic_ops(fn)
        xs = [(p, o) for p, o in ops if o['kind'] == 'rmw' and o['name'] == 'exchange' and last_member(fn, o['obj']) == 'my_last']
        st = [(p, o) for p, o in ops if o['kind'] == 'store' and last_member(fn, o['obj']) != 'next_in_mailbox']
        ok = bool(xs) and bool(st) and all(has_release(o['order'] or 0) for p, o in st) and \
            all(any(every_path_passes(fn, 'entry', lambda p, e, xp=xp: p == xp, end=sp)[0] for xp, _ in xs) for sp, _ in st)
        rep.ob('D4', 'K1', fn, 'mailbox push: exchange on my_last, then release store of the link', ok,
               'ops: ' + ', '.join('%s.%s(%s)' % (o['path'], o['name'], oname(o['order'])) for _, o in ops))
    rep.floor('D4', 10, 'proxy claim, caller frees, spawn order, mailbox push')


LANE_LOCK = ('tbb::detail::d1::mutex::scoped_lock', 'tbb::detail::d1::unique_scoped_lock', 'tbb::detail::d1::spin_mutex::scoped_lock')


def d5_streams(facts, rep):
    n = 0
    for fname in ('try_push', 'try_pop', 'pop_specific'):
        for fn in facts.get(R1 + 'task_stream::' + fname):
            before, info = lockset(fn, lambda c: c.endswith('scoped_lock'))
            lane_locks = set(v for v, i in info.items() if i['mutex'] == 'my_mutex')
            if not lane_locks:
                raise AnalysisBroken('task_stream::%s: no scoped lock on the lane mutex' % fname)
            for pos, s, node in fn.stmt_elems(('member',)):
                if node['n'] != 'my_queue':
                    continue
                held = before.get(pos, frozenset()) & lane_locks
                rep.ob('D5', 'K5', fn, 'lane queue is accessed with the lane mutex held (line %s)' % node['ln'], bool(held),
                       'my_queue is touched at line %s without holding lanes[i].my_mutex' % node['ln'], ln=node['ln'],
                       key_extra=str(node['ln']))
                n += 1
            for pos, s, node, d in calls_named(fn, ('set_one_bit', 'clear_one_bit')):
                held = before.get(pos, frozenset()) & lane_locks
                rep.ob('D5', 'K5', fn, '%s happens under the lane mutex' % d['n'], bool(held),
                       'population bit changed outside the lane lock: the bit can disagree with the queue forever', ln=node['ln'],
                       key_extra=str(node['ln']))
                if d['n'] == 'clear_one_bit':
                    emp = edges_where(fn, lambda a, truth: truth and fn.n(fn.strip(a)).get('k') == 'call' and
                                      (fn.callee(fn.strip(a)) or {}).get('n') == 'empty' and
                                      last_member(fn, fn.n(fn.strip(a)).get('obj', -1)) == 'my_queue')
                    ok, wit = dominated_by_edges(fn, pos, emp)
                    rep.ob('D5', 'K4', fn, 'the population bit is cleared only when the lane queue is empty', ok, wit, ln=node['ln'],
                           key_extra='e' + str(node['ln']))
    for fn in facts.get(R1 + 'task_stream::try_push'):
        pb = [c for c in calls_named(fn, ('push_back',)) if last_member(fn, c[2].get('obj', -1)) == 'my_queue']
        sb = calls_named(fn, ('set_one_bit',))
        ok = bool(pb) and bool(sb) and all(every_path_passes(fn, p, lambda q, e: is_call_to(fn, e, shortnames=('set_one_bit',)))[0]
                                           for p, _, _, _ in pb)
        rep.ob('D5', 'K4', fn, 'push_back is followed by set_one_bit on every path', ok, 'a pushed task is not advertised in population')
    for fn in facts.get(R1 + 'task_stream::push'):
        # the loop leaves only on the success edge of try_push
        defs = Defs(fn)
        tp = set(s for _, s, _, _ in calls_named(fn, ('try_push',)))
        if not tp:
            raise AnalysisBroken('task_stream::push does not call try_push')
        succ = edges_where(fn, lambda a, truth: (truth and fn.strip(resolve_cond_source(fn, defs, a)) in tp))
        fail_back = edges_where(fn, lambda a, truth: ((not truth) and fn.strip(resolve_cond_source(fn, defs, a)) in tp))
        # exit must be dominated by a success edge
        ok, wit = dominated_by_edges(fn, (fn.exit, 0), succ) if fn.elems(fn.exit) else (None, '')
        if ok is None:
            reached, ex, par = fn.walk('entry', stop_edge=lambda b, si: (b, si) in succ)
            ok, wit = (not ex), 'exit reachable without a successful try_push'
        rep.ob('D5', 'K3', fn, 'push() returns only after a try_push succeeded', ok, wit)
    rep.floor('D5', 8, 'lane accesses under lock')


def d6_counters(facts, rep):
    for fn in facts.get(D1 + 'wait_context::add_reference'):
        ops = atomics_on(fn, 'm_ref_count')
        ok = len(ops) == 1 and ops[0][1]['kind'] == 'rmw' and ops[0][1]['name'] == 'fetch_add'
        rep.ob('D6', 'K1', fn, 'the wait counter changes by exactly one fetch_add', ok,
               'ops on m_ref_count: ' + ', '.join(o['name'] for _, o in ops))
        defs = Defs(fn)
        nw = calls_named(fn, ('notify_waiters',))
        rmw_nodes = set(o['s'] for _, o in ops)

        def derived_from_rmw(a):
            src = resolve_cond_source(fn, defs, a)
            return bool(fn.subtree(src) & rmw_nodes)
        zero_edges = edges_where(fn, lambda a, truth: (not truth) and derived_from_rmw(a))
        rep.ob('D6', 'K4', fn, 'notify_waiters is called on the zero result', bool(nw) and bool(zero_edges) and
               all(dominated_by_edges(fn, p, zero_edges)[0] for p, _, _, _ in nw) and
               all(every_path_passes(fn, (fn.blocks[b]['succ'][si], -1), lambda q, e: is_call_to(fn, e, shortnames=('notify_waiters',)))[0]
                   for b, si in zero_edges),
               'the thread that brings the wait counter to zero does not (only) wake the waiters')
    for name, rmw, fwd in (('reserve', 'fetch_add', 'reserve'), ('release', 'fetch_sub', 'release')):
        for fn in facts.get(D1 + 'reference_vertex::' + name):
            ops = atomics_on(fn, 'm_ref_count')
            ok = len(ops) == 1 and ops[0][1]['kind'] == 'rmw' and ops[0][1]['name'] == rmw
            rep.ob('D6', 'K1', fn, 'the vertex counter changes by exactly one %s' % rmw, ok, ', '.join(o['name'] for _, o in ops))
            defs = Defs(fn)
            rmw_nodes = set(o['s'] for _, o in ops)
            fw = [c for c in calls_named(fn, (fwd,)) if c[3].get('cls', '').endswith('wait_tree_vertex_interface')]

            def derived(a):
                src = resolve_cond_source(fn, defs, a)
                return bool(fn.subtree(src) & rmw_nodes)
            # `x == 0` true edge
            zero_edges = set()
            for b, blk in fn.blocks.items():
                t = blk.get('term')
                if not t or 'c' not in t or len(blk['succ']) != 2:
                    continue
                c = fn.n(fn.strip(t['c']))
                if c.get('k') == 'binop' and c['op'] in ('==', '!=') and (fn.cv(c['l']) == 0 or fn.cv(c['r']) == 0):
                    other = c['r'] if fn.cv(c['l']) == 0 else c['l']
                    if derived(other):
                        zero_edges.add((b, 0 if c['op'] == '==' else 1))
            ok = bool(fw) and bool(zero_edges) and all(dominated_by_edges(fn, p, zero_edges)[0] for p, _, _, _ in fw) and \
                all(every_path_passes(fn, (fn.blocks[b]['succ'][si], -1), lambda q, e: is_call_to(fn, e, shortnames=(fwd,)))[0]
                    for b, si in zero_edges)
            rep.ob('D6', 'K4', fn, 'the parent vertex is %sd exactly on the zero result of the RMW' % fwd, ok,
                   'reference_vertex::%s forwards to its parent on the wrong edge or not on every zero result' % name)
    # the tree folds (derived from the code: free functions every path of which decrements a node counter): decrement by RMW,
    # return while > 0, delete the node, and the root wait node is released - by the fold itself or, when the fold hands the root
    # back, by every caller after the call
    from rules.common import tree_folds
    ft = [f for p_ in sorted(tree_folds(facts)) for f in facts.get(p_)]
    if not any(f.p == D1 + 'fold_tree' for f in ft):
        raise AnalysisBroken('fold_tree is no longer recognised as a tree fold')
    for fn in ft:
        ops = atomics_on(fn, 'm_ref_count', kinds=('store', 'rmw', 'cas'))      # (debug builds add an assertion-only load)
        ok = bool(ops) and all(o['kind'] == 'rmw' for _, o in ops)
        rep.ob('D6', 'K1', fn, 'the tree fold changes the node counter only by atomic RMWs', ok, ', '.join(o['name'] for _, o in ops))
        rel = calls_named(fn, ('release',))
        if rel:
            rep.ob('D6', 'K4', fn, 'the tree fold releases the root wait vertex', True, '')
            continue
        bad = []
        cs = facts.callers_p(fn.p)
        for g, cpos, cs_ in cs:
            r2 = [c for c in calls_named(g, ('release',)) if g.can_reach(cpos, c[0])]
            if not r2:
                bad.append(g.q)
        rep.ob('D6', 'K4', fn, 'the root wait vertex handed back by the tree fold is released by every caller', bool(cs) and not bad,
               'callers that never release the root: %s' % (sorted(set(bad))[:3] or 'no caller found'))
    rep.floor('D6', 6, 'wait_context, reference_vertex, fold_tree')


K7_EXCEPTIONS = {
    'enqueue_task::cancel': 'enqueued tasks have no wait reference; cancel() is an assert-release "cannot happen" stub',
    'task_proxy::execute': 'proxies are never executed (assert-release stub)',
    'task_proxy::cancel': 'proxies are never executed (assert-release stub)',
    'resume_task::cancel': 'forwards to execute() (C20-D5 checks that); no wait reference of its own',
}


def d7_tasks(facts, rep):
    tcs = task_classes(facts)
    if len(tcs) < 20:
        raise AnalysisBroken('only %d task classes found (expected >= 20): drivers no longer instantiate the algorithms' % len(tcs))
    n = 0
    for cp in sorted(tcs):
        n += k7_task_class(facts, rep, 'D7', cp, K7_EXCEPTIONS)
    rep.floor('D7', 30, 'execute/cancel obligations over all task classes')
    rep.note('D7 task classes analysed: %s' % ', '.join(sorted(c.split('::')[-1] for c in tcs)))


def d8_tree(facts, rep):
    n = 0
    for cls in ('start_for', 'start_reduce', 'start_deterministic_reduce'):
        for fn in facts.get(D1 + cls + '::offer_work_impl'):
            nodes = []
            for pos, s, node, d in calls_named(fn, ('new_object',)):
                q = d['q']
                if 'tree_node' in q or 'reduction_tree' in q:
                    ints = [fn.cv(a) for a in node.get('a', []) if fn.cv(a) is not None and fn.n(fn.strip(a)).get('k') == 'lit']
                    nodes.append((pos, s, node, ints))
            if len(nodes) != 1:
                raise AnalysisBroken('%s::offer_work_impl: expected one tree-node allocation, found %d' % (cls, len(nodes)))
            pos, s, node, ints = nodes[0]
            assigns = [(p, x) for p, x, nd in fn.stmt_elems(('binop',)) if nd['op'] == '=' and last_member(fn, nd['l']) == 'my_parent']
            ok = len(ints) == 1 and ints[0] == len(assigns)
            rep.ob('D8', 'K4', fn, 'new tree node ref-count equals the number of children attached to it', ok,
                   'tree node created with ref_count %s but %d task(s) get it as my_parent: the parent is folded %s' %
                   (ints, len(assigns), 'too early (wait returns before the work is done)' if ints and ints[0] < len(assigns)
                    else 'never (wait hangs)'), ln=node['ln'])
            sp = calls_named(fn, ('spawn_self', 'spawn'))
            ok2 = bool(sp) and all(every_path_passes(fn, 'entry', lambda p, e, ap=ap: p == ap, end=spos)[0]
                                   for spos, _, _, _ in sp for ap, _ in assigns)
            rep.ob('D8', 'K4', fn, 'both parent links are written before the right child is spawned', ok2,
                   'the right child can run and fold the tree before my_parent is set')
            n += 1
    rep.floor('D8', 6, 'offer_work_impl of the three tree-based algorithms')


def d9_wait(facts, rep):
    for fn in facts.get(R1 + 'task_dispatcher::execute_and_wait'):
        lw = calls_named(fn, ('local_wait_for_all',))
        if not lw:
            raise AnalysisBroken('execute_and_wait does not call local_wait_for_all')
        lwp = set(p for p, _, _, _ in lw)
        ok, wit = every_path_passes(fn, 'entry', lambda p, e: p in lwp)
        rep.ob('D9', 'K4', fn, 'every path through execute_and_wait runs the dispatch loop', ok, wit)
        for pos, op in atomics_on(fn, 'my_exception', kinds=('load',)):
            ok, wit = every_path_passes(fn, 'entry', lambda p, e: p in lwp, end=pos)
            rep.ob('D9', 'K4', fn, 'the group exception is read only after the wait completed', ok, wit, ln=op['ln'])
    for fn in facts.get(R1 + 'external_waiter::continue_execution'):
        c = [x for x in calls_named(fn, ('continue_execution',))]
        rep.ob('D9', 'K4', fn, 'the external waiter leaves the loop by consulting the wait context', bool(c),
               'external_waiter::continue_execution no longer reads wait_context::continue_execution')
    for fn in facts.get(D1 + 'wait_context::continue_execution'):
        ops = atomics_on(fn, 'm_ref_count', kinds=('load',))
        ok = bool(ops) and all(has_acquire(o['order'] or 0) for _, o in ops)
        rep.ob('D9', 'K1', fn, 'the waiter reads the counter with acquire', ok, ', '.join(oname(o['order']) for _, o in ops))
    rep.floor('D9', 4, 'execute_and_wait + waiter')


def d10_task_memory(facts, rep):
    P = R1 + 'small_object_pool_impl::'
    for fn in facts.get(P + 'deallocate_impl'):
        def own(a, truth):
            n = fn.n(fn.strip(a))
            return truth and n.get('k') == 'binop' and n['op'] == '==' and any(
                fn.nodes[x].get('k') == 'member' and fn.nodes[x]['n'] == 'my_small_object_pool' for x in fn.subtree(n['s'])) and \
                any(fn.nodes[x].get('k') == 'this' for x in fn.subtree(n['s']))
        oe = edges_where(fn, own)
        from engine.rules import member_accesses, assignments
        priv = [x for x in member_accesses(fn, ('m_private_list',)) if x[3] == 'write']
        ok = bool(priv) and bool(oe) and all(dominated_by_edges(fn, x[0], oe)[0] for x in priv)
        rep.ob('D10', 'K4', fn, 'the private free list of a task-memory pool is modified only by the owning thread', ok,
               'a foreign thread pushes onto the unsynchronised private list: the same task memory is handed out twice')
        ws = atomics_on(fn, 'm_public_list', kinds=('store', 'rmw', 'cas'))
        cas = [(p, o) for p, o in ws if o['kind'] == 'cas']
        link = [(p, s2) for p, s2, l, r in assignments(fn) if last_member(fn, l) == 'next']
        ok = bool(cas) and len(cas) == len(ws) and bool(link)
        for cp, co in cas:
            ok = ok and every_path_passes(fn, 'entry', lambda p, e: p in set(x[0] for x in link), end=cp)[0]
            reached, ex, par = fn.walk(cp, stop_elem=lambda p, e: p in set(x[0] for x in link))
            ok = ok and cp not in reached
        rep.ob('D10', 'K1', fn, 'a foreign free pushes onto the public list by CAS, re-linking before every attempt', ok,
               'public list of the task-memory pool corrupted by concurrent frees')
    for fn in facts.get(P + 'allocate_impl'):
        ws = atomics_on(fn, 'm_public_list', kinds=('store', 'rmw', 'cas'))
        ok = bool(ws) and all(o['kind'] == 'rmw' and o['name'] == 'exchange' for _, o in ws)
        rep.ob('D10', 'K1', fn, 'the owner takes the whole public list by one exchange', ok, ', '.join(o['name'] for _, o in ws))
    for fn in facts.get(P + 'destroy'):
        ws = atomics_on(fn, 'm_public_list', kinds=('store', 'rmw', 'cas'))
        ok = bool(ws) and all(o['kind'] == 'rmw' and o['name'] == 'exchange' for _, o in ws)
        rep.ob('D10', 'K1', fn, 'destroy() marks the public list dead by exchange', ok, ', '.join(o['name'] for _, o in ws))
    rep.floor('D10', 3, 'small object pool')


def d9_group_wait_epilogue(facts, rep):
    """"... or, only if its group was cancelled, skipped": a task_group's context stays cancelled until somebody resets it,
    and every task submitted meanwhile is skipped.  Each waiting call of task_group_base (wait, run_and_wait(F),
    run_and_wait(task_handle)) therefore resets the context on EVERY exit, normal or exceptional (the wait rethrows what a task
    threw); otherwise a cancellation that was consumed by this wait leaks into the work submitted afterwards, which is skipped
    although nobody cancelled it.  Decided by rules.common.exit_coverage: CFG paths for the normal exit, the repo's scope-exit
    idioms (try_call proxy methods classified by their code, raii_guard) and enclosing catch(...) handlers for the exceptional one."""
    summ = Summaries(facts, max_depth=4)

    def is_wait(g, pos, e):
        if not isinstance(e, int) or g.nodes[e].get('k') != 'call':
            return False
        d = g.callee(e) or {}
        return d.get('q') in (R1 + 'execute_and_wait', D1 + 'wait', R1 + 'wait') or d.get('n') == 'execute_and_wait'

    def resets(g, pos, e):
        return isinstance(e, int) and g.nodes[e].get('k') == 'call' and (g.callee(e) or {}).get('q') == D1 + 'task_group_context::reset'
    n = 0
    for fn in sorted((f for f in facts.fns.values() if (f.cls or '') == 'tbb::detail::d2::task_group_base' and f.kind == 'method'), key=lambda f: f.q):
        nops, normal_ok, exc_ok, notes = exit_coverage(facts, summ, fn, is_wait, resets, 'resets-group-context')
        if not nops:
            continue
        n += 1
        rep.ob('D9', 'K1', fn, 'a waiting call of the group resets the context on every exit, normal and exceptional', normal_ok and exc_ok,
               '; '.join(notes) + ' - the context stays cancelled after the wait and every task submitted to the group afterwards is skipped '
               'although nobody cancelled it (and a delivered exception is delivered again)', key_extra='epilogue')
    if n < 3:
        raise AnalysisBroken('task_group_base: %d waiting functions found (expected wait, run_and_wait(F), run_and_wait(task_handle))' % n)


def d6_vertex_lifetime(facts, rep):
    """A task of a task_group does not point at the group's wait context but at a per-thread reference_vertex (one per thread and
    group, kept in the thread's dispatcher) and releases it when it is destroyed - possibly on another thread, possibly long
    after the creating thread has gone (a deferred task_handle, a task waiting in a pool, a stolen task).  The vertex has to
    outlive its last child: it is destroyed only where `get_num_child() == 0` is known for that very vertex.  Otherwise the
    task's release() writes into freed memory, the group's counter is never decremented and the wait never returns (or the
    process crashes)."""
    n = 0
    for fn in sorted(facts.fns.values(), key=lambda f: f.q):
        dts = [(pos, s, node) for pos, s, node, d in calls(fn) if ((d or {}).get('q') or '') == D1 + 'reference_vertex::~reference_vertex']
        if not dts:
            continue
        defs = Defs(fn)
        for pos, s, node in dts:
            n += 1
            obj = fn.strip(node.get('obj', -1))
            okey = expr_key(fn, obj)
            v = defs.unique_value(obj)
            keys = set([okey]) | (set([expr_key(fn, v)]) if v is not None else set())

            def childless(a, truth):
                nd = fn.n(fn.strip(a))
                if nd.get('k') == 'binop' and nd['op'] in ('==', '!='):
                    for x, y in ((nd['l'], nd['r']), (nd['r'], nd['l'])):
                        c = fn.n(fn.strip(x))
                        if c.get('k') == 'call' and (fn.callee(c['s']) or {}).get('n') == 'get_num_child' and fn.cv(y) == 0:
                            ck = expr_key(fn, c.get('obj', -1))
                            cv_ = defs.unique_value(fn.strip(c.get('obj', -1)))
                            cks = set([ck]) | (set([expr_key(fn, cv_)]) if cv_ is not None else set())
                            if cks & keys:
                                return truth == (nd['op'] == '==')
                if nd.get('k') == 'call' and (fn.callee(nd['s']) or {}).get('n') == 'get_num_child' and not truth:
                    ck = expr_key(fn, nd.get('obj', -1))
                    return ck in keys
                return False
            ok, wit = dominated_by_edges(fn, pos, edges_where(fn, childless))
            rep.ob('D6', 'K4', fn, 'a per-thread reference vertex is destroyed only when it has no children', ok,
                   'the vertex is destroyed without `get_num_child() == 0` being known (%s): a task that still points at it (deferred '
                   'task_handle, task in a pool, stolen task) releases freed memory - the wait of its group never returns or the process '
                   'crashes' % wit, ln=node.get('ln'), key_extra='vertex-dtor')
    if n < 2:
        raise AnalysisBroken('reference_vertex destruction sites: %d (expected the map clean-up and the dispatcher destructor)' % n)


def d11_occupied_slots_are_published(facts, rep):
    """A task spawned into an arena slot can be taken by a thief only if the slot index lies below arena::my_limit: steal_task
    picks its victims from [0, my_limit) and has_tasks / is_out_of_work scan the same range.  So every slot index that
    occupy_free_slot hands to a thread (any value other than the `no slot` constant) has been published - my_limit raised to
    index + 1 - on every path that returns it.  Tracked per path: (limit raised since the index was last assigned, index known to
    be the `no slot` constant from a comparison or an assignment of that constant)."""
    from engine.rules import product_walk_from
    n = 0
    for fn in facts.get(R1 + 'arena::occupy_free_slot'):
        upd = set()
        for pos, s, node, d in calls(fn):
            if any(last_member(fn, a) == 'my_limit' for a in node.get('a', [])) or \
               (node.get('obj', -1) >= 0 and last_member(fn, node['obj']) == 'my_limit' and (atomic_op(fn, s) or {}).get('kind') in ('rmw', 'cas', 'store')):
                upd.add(s)
        if not upd:
            raise AnalysisBroken('%s: no update of my_limit found' % fn.q)

        def is_none_const(s):
            nd = fn.n(fn.strip(s))
            return nd.get('k') == 'var' and (nd.get('glob') or '').endswith('arena::out_of_arena')
        rets = [(pos, s, node) for pos, s, node in fn.stmt_elems(('return',)) if node.get('sub', -1) >= 0]
        for rpos, rs, rnode in rets:
            if is_none_const(rnode['sub']):
                continue
            rv = fn.n(fn.strip(rnode['sub']))
            if rv.get('k') != 'var':
                rep.ob('D11', 'K1', fn, 'the returned slot index is a tracked variable', False, 'return of a computed value', ln=rnode['ln'])
                continue
            var = rv['v']

            def elem_tr(st, pos, e):
                if not isinstance(e, int):
                    return st
                nd = fn.nodes[e]
                pub, none = st
                if e in upd:
                    return (True, none)
                if nd.get('k') == 'binop' and nd.get('op') == '=' and fn.n(fn.strip(nd['l'])).get('v') == var and fn.n(fn.strip(nd['l'])).get('k') == 'var':
                    return (False, is_none_const(nd['r']))
                if nd.get('k') == 'decl':
                    for v in nd.get('vars', []):
                        if v.get('v') == var:
                            return (False, v.get('init', -1) >= 0 and is_none_const(v['init']))
                return st

            def edge_tr(st, b, si):
                pub, none = st
                for (c, truth) in fn.edge_conds(b, si):
                    cn = fn.n(c)
                    if cn.get('k') == 'binop' and cn.get('op') in ('==', '!='):
                        l, r = cn['l'], cn['r']
                        for x, y in ((l, r), (r, l)):
                            xn = fn.n(fn.strip(x))
                            if xn.get('k') == 'var' and xn.get('v') == var and is_none_const(y):
                                eq = (cn['op'] == '==') == truth
                                if none and not eq:
                                    return None            # infeasible: known to be the constant
                                none = eq
                return (pub, none)
            visits, exits = product_walk_from(fn, (fn.entry, -1), (False, False), elem_tr, edge_tr)
            bad = [st for (pos, st) in visits if pos == rpos and not st[0] and not st[1]]
            n += 1
            rep.ob('D11', 'K1', fn, 'every slot index handed out has been published to thieves (my_limit raised)', not bad,
                   'a path returns an occupied slot without raising my_limit: work spawned from that slot is invisible to steal_task '
                   'and has_tasks until some other thread occupies a higher slot', ln=rnode['ln'])
    rep.floor('D11', 1, 'slot publication')
