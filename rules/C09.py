"""C09 - concurrent_queue / concurrent_bounded_queue are linearizable FIFO queues.  (DESIGN.md section 4, C09)"""
from engine.facts import AnalysisBroken, atomic_op, atomic_ops, has_acquire, has_release
from engine.rules import (calls, calls_named, every_path_passes, last_member, is_call_to, Defs, resolve_cond_source, oname,
                          edges_where, dominated_by_edges, member_accesses, root_of, assignments, value_root, atomics_on, lockset,
                          local_objects, auto_dtor_positions)
from engine import witness
from rules.C03 import try_call_sites

UNITS = ['drivers/containers.cpp', 'src/tbb/concurrent_bounded_queue.cpp']
D2 = 'tbb::detail::d2::'
MQ = D2 + 'micro_queue::'

EXPLANATION = (
    'Decides: D1 tickets are claimed atomically (push ticket = RMW/CAS on tail_counter, blocking pop ticket = RMW on head_counter, '
    'try_pop claims by CAS on head_counter only after seeing tail - ticket > 0 in the same retry iteration and reports empty only '
    'on that comparison\'s empty edge); D2 a claimed push ticket always advances its lane: the RAII guard (count invalid entry + '
    'advance tail_counter) is armed before the element is constructed and dismissed after the item bit is set, then the lane is '
    'advanced exactly once; abort_push and the allocation-failure handler advance/invalidate; the bounded queue\'s exception '
    'handlers call abort_push / give the pop ticket back; D3 pop finalisation: the finalizer exists before the item is moved out, '
    'its destructor publishes head_counter with release after unlinking the page under the page mutex, and the item is consumed '
    'only when its presence bit is set; D4 page-list links are written only under page_mutex (documented non-thread-safe '
    'functions excepted); D6 lanes: n_queue is a power of two and coprime with the stride (witnesses).  Linearizability, '
    'per-producer order and the capacity bound as history properties are NOT decided.')
EXPLANATION += ' Added after the seeded-change rounds: ' + 'D5: the bounded-queue wake-up predicate is downward closed (shared with C02); D7: every ordering comparison of a counter difference (tail - head, ticket - capacity; followed through locals and lambda captures) is evaluated in a signed type.'
EXPLANATION += ' Added in the third session (round-3 seeds and the findings they led to): ' + 'D1 also: a claimed ticket is never handed back by decrementing its counter (violated by the aborted pop: known finding); D3 also: every consumed ticket - item or invalid entry - goes through the pop finalizer, pop() never writes head_counter itself, a page pointer taken from head_page / tail_page is dereferenced only after is_valid_page(); D6 also: infinite_capacity is a huge positive constant (witness).'
EXPLANATION += ' Added later in the fourth round: ' + 'D6 also: the capacity tests of concurrent_bounded_queue (try_push, blocking push) count the way size() does - their condition depends on n_invalid_entries (violated on the pinned tree: known findings).'
ASSUMPTIONS = ['raii_guard / try_call idiom model (checked in C03-D5)', 'instantiations: concurrent_queue<int|string>, concurrent_bounded_queue<int|string>']
ND = ['linearizability', 'per-producer FIFO order', 'capacity bound as a history property']
LOCKCLS = lambda c: c.endswith('scoped_lock')   # noqa: E731


def run(facts, rep):
    d1_tickets(facts, rep)
    d2_push(facts, rep)
    d3_pop(facts, rep)
    d3_page_sentinel(facts, rep)
    d1_tickets_never_handed_back(facts, rep)
    d4_pages(facts, rep)
    d7_signed_sizes(facts, rep)
    d6_fullness_counts_what_size_counts(facts, rep)
    # D5 bounded-queue wake-ups: the rules live in C02 (D4/D5); the predicate rule is repeated here because a blocked push/pop
    # that is never woken is also a C09 failure
    from rules.C02 import bounded_queue_predicate
    bounded_queue_predicate(facts, rep, 'D5')


def witnesses(rep, tier):
    witness.check_file(rep, 'D6', 'witness/queue.cpp', extra_flags=['-fno-access-control'], floor=5)


def ops_on(fn, member, kinds=None):
    return [(p, o) for p, o in atomic_ops(fn) if o['kind'] != 'fence' and last_member(fn, o['obj']) == member and (kinds is None or o['kind'] in kinds)]


def d1_tickets(facts, rep):
    for cls in ('concurrent_queue', 'concurrent_bounded_queue'):
        for fn in facts.get(D2 + cls + '::internal_push'):
            ws = ops_on(fn, 'tail_counter', ('store', 'rmw', 'cas'))
            rep.ob('D1', 'K1', fn, '%s push claims its ticket by an atomic RMW on tail_counter' % cls,
                   bool(ws) and all(o['kind'] in ('rmw', 'cas') for _, o in ws), ', '.join(o['name'] for _, o in ws))
    for fn in facts.get(D2 + 'concurrent_bounded_queue::internal_push_if_not_full'):
        ws = ops_on(fn, 'tail_counter', ('store', 'rmw', 'cas'))
        rep.ob('D1', 'K1', fn, 'try_push claims its ticket by CAS on tail_counter', bool(ws) and all(o['kind'] == 'cas' for _, o in ws),
               ', '.join(o['name'] for _, o in ws))
        defs = Defs(fn)

        def full(a, truth):
            n = fn.n(fn.strip(a))
            return truth and n.get('k') == 'binop' and n['op'] in ('>=', '>') and \
                any(fn.nodes[x].get('k') == 'member' and fn.nodes[x]['n'] == 'my_capacity' for x in fn.subtree(n['s']))
        fe = edges_where(fn, full)
        for pos, s, node in fn.stmt_elems(('return',)):
            if fn.cv(node.get('sub', -1)) == 0:
                ok, wit = dominated_by_edges(fn, pos, fe)
                rep.ob('D1', 'K4', fn, 'try_push fails only on the queue-full edge', ok, wit, ln=node['ln'])
    for fn in facts.get(D2 + 'concurrent_bounded_queue::internal_pop'):
        ws = ops_on(fn, 'head_counter', ('store', 'rmw', 'cas'))
        rep.ob('D1', 'K1', fn, 'blocking pop claims its ticket by an atomic RMW on head_counter',
               bool(ws) and all(o['kind'] in ('rmw', 'cas') for _, o in ws), ', '.join(o['name'] for _, o in ws))
    fns = facts.get(D2 + 'internal_try_pop_impl')
    for fn in fns:
        cas = ops_on(fn, 'head_counter', ('cas',))
        ws = ops_on(fn, 'head_counter', ('store', 'rmw'))
        rep.ob('D1', 'K1', fn, 'try_pop claims its ticket by CAS on head_counter', bool(cas) and not ws, ', '.join(o['name'] for _, o in cas + ws))

        def nonempty(a, truth):
            n = fn.n(fn.strip(a))
            if n.get('k') != 'binop' or n['op'] not in ('<=', '>', '<', '>='):
                return False
            if not any(atomic_op(fn, x) and last_member(fn, atomic_op(fn, x)['obj']) == 'tail_counter' for x in fn.subtree(n['s'])):
                return False
            return (n['op'] == '<=' and not truth) or (n['op'] == '>' and truth)

        def empty(a, truth):
            n = fn.n(fn.strip(a))
            if n.get('k') != 'binop' or n['op'] not in ('<=', '>'):
                return False
            if not any(atomic_op(fn, x) and last_member(fn, atomic_op(fn, x)['obj']) == 'tail_counter' for x in fn.subtree(n['s'])):
                return False
            return (n['op'] == '<=' and truth) or (n['op'] == '>' and not truth)
        ne = edges_where(fn, nonempty)
        ee = edges_where(fn, empty)
        for p, o in cas:
            ok, wit = dominated_by_edges(fn, p, ne)
            reached, ex, par = fn.walk(p, stop_edge=lambda b, si: (b, si) in ne)
            rep.ob('D1', 'K4', fn, 'the ticket CAS is attempted only after tail - ticket > 0 was seen in the same iteration', ok and p not in reached,
                   'a pop ticket can be claimed from an empty queue (the popper then blocks / spins for an item that may never come): ' + wit,
                   ln=o['ln'])
        for pos, s, node in fn.stmt_elems(('return',)):
            v = fn.n(value_root(fn, node.get('sub', -1)))
            args = v.get('a', []) if v.get('k') in ('ctor', 'initlist') else []
            if args and fn.cv(args[0]) == 0:
                ok, wit = dominated_by_edges(fn, pos, ee)
                rep.ob('D1', 'K4', fn, 'try_pop reports empty only on the tail - ticket <= 0 edge', ok, wit, ln=node['ln'])
    rep.floor('D1', 8, 'ticket claims')


def lambda_of(facts, fn, s):
    for x in fn.subtree(s):
        if fn.nodes[x].get('k') == 'lambda':
            g = facts.fns.get(fn.nodes[x].get('fn'))
            if g is not None:
                return g
    return None


def d2_push(facts, rep):
    for fn in facts.get(MQ + 'push'):
        guards = local_objects(fn, lambda c: c.endswith('raii_guard'))
        cons = [c for c in calls_named(fn, ('construct',))]
        dis = calls_named(fn, ('dismiss',))
        adv = [(p, o) for p, o in ops_on(fn, 'tail_counter', ('rmw',)) if o['name'] in ('fetch_add', 'operator+=')]
        maskst = [(p, o) for p, o in ops_on(fn, 'mask', ('store', 'rmw'))]
        if not guards or not cons:
            raise AnalysisBroken('micro_queue::push: raii guard or element construction not found')
        gpos = guards[0][0]
        ok = all(every_path_passes(fn, 'entry', lambda p, e: p == gpos, end=c[0])[0] for c in cons)
        rep.ob('D2', 'K4', fn, 'the lane-advancing guard is armed before the element is constructed', ok,
               'if the element constructor throws, tail_counter of the lane is never advanced: every later push/pop on this lane hangs')
        g = lambda_of(facts, fn, guards[0][3])
        gok = g is not None and bool([o for _, o in ops_on(g, 'tail_counter', ('rmw',))]) and bool([o for _, o in ops_on(g, 'n_invalid_entries', ('rmw',))])
        rep.ob('D2', 'K3', fn, 'the guard advances tail_counter and counts the invalid entry', gok, 'guard body changed')
        ok2 = bool(dis) and bool(maskst) and all(every_path_passes(fn, 'entry', lambda p, e: p in set(q for q, _ in maskst), end=d[0])[0] for d in dis)
        rep.ob('D2', 'K4', fn, 'the guard is dismissed only after the item-present bit was set', ok2, 'dismiss before the mask update')
        ok3 = len(adv) == 1 and bool(dis) and every_path_passes(fn, dis[0][0], lambda p, e: p == adv[0][0])[0] and not fn.can_reach(adv[0][0], adv[0][0])
        rep.ob('D2', 'K3', fn, 'on the normal path the lane is advanced exactly once, after the dismiss', ok3,
               '%d advance(s) of tail_counter on the normal path' % len(adv))
    for fn in facts.get(MQ + 'abort_push', required=False):   # only instantiated while somebody calls it
        ok = bool(ops_on(fn, 'tail_counter', ('rmw',))) and bool(ops_on(fn, 'n_invalid_entries', ('rmw',)))
        rep.ob('D2', 'K3', fn, 'abort_push advances the lane and counts an invalid entry', ok, 'lane not advanced on abort')
    for fn in facts.get(MQ + 'prepare_page'):
        sites = try_call_sites(facts, fn)
        ok = any(kind == 'on_exception' and any(calls_named(h, ('invalidate_page',)) for h in hs) and
                 any(ops_on(h, 'n_invalid_entries', ('rmw',)) for h in hs) for _, kind, _, hs, _ in sites)
        rep.ob('D2', 'K9', fn, 'a failed page allocation invalidates the lane and counts the entry', ok, 'allocation failure handler changed')
    for fn in facts.get(D2 + 'concurrent_bounded_queue::internal_push'):
        sites = try_call_sites(facts, fn)
        ok = any(kind == 'on_exception' and any(calls_named(h, ('abort_push',)) for h in hs) for _, kind, _, hs, _ in sites)
        rep.ob('D2', 'K9', fn, 'an aborted blocking push gives its ticket back through abort_push', ok, 'no abort_push in the exception handler')
    for fn in facts.get(D2 + 'concurrent_bounded_queue::internal_pop'):
        sites = try_call_sites(facts, fn)
        ok = any(kind == 'on_exception' and any(ops_on(h, 'head_counter', ('rmw',)) for h in hs) for _, kind, _, hs, _ in sites)
        rep.ob('D2', 'K9', fn, 'an aborted blocking pop gives its ticket back (head_counter--)', ok, 'pop ticket leaked on abort')
    rep.floor('D2', 7, 'push/abort paths')


def d3_pop(facts, rep):
    for fn in facts.get(MQ + 'pop'):
        fin = local_objects(fn, lambda c: c.endswith('micro_queue_pop_finalizer'))
        ad = calls_named(fn, ('assign_and_destroy_item',))
        if not fin or not ad:
            raise AnalysisBroken('micro_queue::pop: finalizer or assign_and_destroy_item not found')
        fpos = fin[0][0]
        ok = all(every_path_passes(fn, 'entry', lambda p, e: p == fpos, end=a[0])[0] for a in ad)
        rep.ob('D3', 'K4', fn, 'the pop finalizer exists before the item is moved out', ok,
               'if the move assignment throws, head_counter is never advanced: the lane is stuck')
        dt = auto_dtor_positions(fn, fin[0][1])
        ok2 = bool(dt) and all(any(fn.can_reach(a[0], d) for d in dt) for a in ad)
        rep.ob('D3', 'K3', fn, 'the finalizer runs after the item was consumed', ok2, 'finalizer scope ends before the item is moved')

        def bit(a, truth):
            n = fn.n(fn.strip(a))
            return truth and n.get('k') == 'binop' and n['op'] == '&' and \
                any(atomic_op(fn, x) and last_member(fn, atomic_op(fn, x)['obj']) == 'mask' for x in fn.subtree(n['s']))
        be = edges_where(fn, bit)
        ok3 = all(dominated_by_edges(fn, a[0], be)[0] for a in ad)
        rep.ob('D3', 'K4', fn, 'the slot is consumed only when its item-present bit is set', ok3, 'an invalid (never constructed) slot can be moved from')
        # the finalizer is what advances the lane AND retires an exhausted page (it gets the page when the slot is the last one of
        # its page).  Every consumed ticket - valid item or invalid entry - must go through it: an exit of pop() that bypasses
        # the finalizer, or a direct store to head_counter, leaves head_page on an exhausted page when the skipped slot was the
        # last of its page, and later pops of that lane read one page behind.
        okf, witf = every_path_passes(fn, 'entry', lambda p, e: p == fpos)
        rep.ob('D3', 'K3', fn, 'every consumed ticket - item or invalid entry - is finalised by the pop finalizer', okf,
               'a path through pop() returns without the finalizer: ' + witf, key_extra='finalizer-all-paths')
        direct = ops_on(fn, 'head_counter', ('store', 'rmw', 'cas'))
        rep.ob('D3', 'K11', fn, 'pop() advances head_counter only through the finalizer', not direct,
               'head_counter written directly at line(s) %s: the page bookkeeping of the finalizer is bypassed' % [o['ln'] for _, o in direct],
               key_extra='no-direct-advance')
        w = [c for c in calls_named(fn, ('spin_wait_until_eq',)) if c[2].get('a') and last_member(fn, c[2]['a'][0]) == 'head_counter']
        rep.ob('D3', 'K4', fn, 'a popper waits for its turn on the lane (head_counter == k) before touching the page',
               bool(w) and all(every_path_passes(fn, 'entry', lambda p, e: p in set(x[0] for x in w), end=fpos)[0] for _ in [0]),
               'no wait on head_counter')
    for fn in facts.get(D2 + 'micro_queue_pop_finalizer::(dtor)'):
        before, info = lockset(fn, LOCKCLS)
        locks = set(v for v, i in info.items() if i['mutex'] == 'page_mutex')
        st = ops_on(fn, 'head_counter', ('store', 'rmw'))
        hp = ops_on(fn, 'head_page', ('store',))
        ok = bool(st) and all(has_release(o['order'] or 0) for _, o in st)
        rep.ob('D3', 'K1', fn, 'the finalizer publishes head_counter with release', ok, ', '.join(oname(o['order']) for _, o in st))
        ok2 = bool(hp) and all(before.get(p, frozenset()) & locks for p, _ in hp)
        rep.ob('D3', 'K5', fn, 'the head page is unlinked under page_mutex', ok2, 'head_page stored outside page_mutex')
        ok3 = bool(st) and bool(hp) and all(not fn.can_reach(sp, pp) for sp, _ in st for pp, _ in hp)
        rep.ob('D3', 'K4', fn, 'head_counter is advanced after the page was unlinked', ok3, 'the next popper can see the stale head page')
    rep.floor('D3', 8, 'pop finalisation')


def d1_tickets_never_handed_back(facts, rep):
    """Tickets order the operations of the queue: a claimed head ticket names one entry for ever.  An operation that gives up
    (abort) cannot hand its ticket back by decrementing the counter - other tickets may have been taken after it, and the
    decrement then re-issues a ticket that is in use and orphans its own: the next item lands under a ticket nobody will ever
    pop and the holder of the duplicated ticket sleeps for ever.  Rule: head_counter and tail_counter of the queue representation
    only ever grow - no decrement (--, fetch_sub, -=) of either in the queue classes or in their exception handlers."""
    n = 0
    ordinal = {}
    for fn in sorted(facts.fns.values(), key=lambda f: (f.file, f.l0, f.u)):
        cls = fn.cls or ''
        par = facts.fns.get(fn.d.get('lparent')) if fn.kind == 'lambda' else None
        owner = (par.cls if par is not None else cls) or ''
        if not (owner.startswith(D2 + 'concurrent_bounded_queue') or owner.startswith(D2 + 'concurrent_queue') or owner.startswith(D2 + 'micro_queue')):
            continue
        for pos, o in atomic_ops(fn):
            if o['kind'] != 'rmw' or last_member(fn, o['obj']) not in ('head_counter', 'tail_counter'):
                continue
            n += 1
            dec = o['name'] in ('operator--', 'fetch_sub', 'operator-=')
            anchor = par if par is not None else fn
            ordinal[anchor.u] = ordinal.get(anchor.u, 0) + 1
            where = 'exception handler of ' if par is not None else ''
            rep.ob('D1', 'K1', anchor, 'a claimed %s ticket is never handed back by decrementing the counter (%s%s, RMW #%d)'
                   % (last_member(fn, o['obj']).split('_')[0], where, anchor.p.split('::')[-1], ordinal[anchor.u]),
                   not dec, 'an aborted operation decrements the counter although later tickets may already have been taken: the ticket it '
                   'returns is in use and its own is orphaned - the next pushed item is never popped and the holder of the duplicated ticket '
                   'sleeps for ever', ln=o['ln'], key_extra='monotone|%s|%d' % (anchor.p, ordinal[anchor.u]))
    if n < 3:
        raise AnalysisBroken('ticket counter RMWs not found (%d)' % n)


def d3_page_sentinel(facts, rep):
    """After a failed page allocation the lane's page list ends in a sentinel that is not a page (invalidate_page links the address
    1; tail_counter becomes odd so that later pushes throw).  head_page / tail_page / next can therefore hold null or the
    sentinel, and every consumer of such a pointer asks is_valid_page() before it dereferences it.  Rule (sibling agreement,
    all lanes' methods and the pop finalizer): a local page pointer whose value comes from head_page / tail_page (load or
    get_head_page()) is dereferenced only on an edge where is_valid_page(that pointer) was seen true.  Recorded exceptions
    (read and confirmed): none so far - the push path re-reads tail_page only after it has passed the odd-tail_counter test,
    which is expressed as its own exemption below."""
    EXEMPT = {
        MQ + 'prepare_page': 'the push reaches this load only after it passed the `tail_counter & 1` test (no failed allocation on this lane) '
                             'and waited for its turn; a push on a lane with a sentinel throws bad_last_alloc before',
    }
    n = 0
    for fn in facts.fns.values():
        cls = fn.cls or ''
        if not (cls.startswith(D2 + 'micro_queue') or cls.startswith(D2 + 'micro_queue_pop_finalizer')):
            continue
        defs = Defs(fn)
        pagevars = set()
        for (vid, dn), val in defs.value_of.items():
            if val is None:
                continue
            for x in fn.subtree(val):
                op = atomic_op(fn, x)
                if op and op['kind'] == 'load' and last_member(fn, op['obj']) in ('head_page', 'tail_page'):
                    pagevars.add(vid)
                if fn.nodes[x].get('k') == 'call' and (fn.callee(x) or {}).get('n') == 'get_head_page':
                    pagevars.add(vid)
        if not pagevars:
            continue
        for b, i, e in fn.iter_elems():
            if not isinstance(e, int):
                continue
            nd = fn.nodes[e]
            base = None
            if nd.get('k') == 'member' and nd.get('arrow') and 'base' in nd:
                base = nd['base']
            elif nd.get('k') == 'unop' and nd.get('op') == '*':
                base = nd['sub']
            if base is None:
                continue
            bn = fn.n(fn.strip(base))
            if bn.get('k') != 'var' or bn.get('v') not in pagevars:
                continue
            vid = bn['v']

            def valid(a, truth, vid=vid):
                a = resolve_cond_source(fn, defs, a)          # `bool ok = is_valid_page(p); if (ok && ...)`
                an = fn.n(fn.strip(a))
                if an.get('k') == 'call' and (fn.callee(fn.strip(a)) or {}).get('n') == 'is_valid_page' and an.get('a'):
                    x = fn.n(fn.strip(an['a'][0]))
                    return truth and x.get('k') == 'var' and x.get('v') == vid
                return False
            ok, wit = dominated_by_edges(fn, (b, i), edges_where(fn, valid))
            if fn.p in EXEMPT:
                rep.note('D3 page sentinel exempt %s line %s: %s' % (fn.p, nd.get('ln'), EXEMPT[fn.p]))
                continue
            n += 1
            rep.ob('D3', 'K13', fn, 'page pointer `%s` is dereferenced only after is_valid_page() (line %s)' % (bn.get('n'), nd.get('ln')), ok,
                   'the pointer can be the invalid-page sentinel (or null) left by a failed page allocation: dereferencing it crashes the '
                   'consumer that drains the queue after a bad_alloc (' + wit + ')', ln=nd.get('ln'), key_extra='sentinel|%s|%s' % (fn.p, nd.get('ln')))
    if n < 3:
        raise AnalysisBroken('fewer page-pointer dereferences found than confirmed by reading (%d)' % n)


def d4_pages(facts, rep):
    n = 0
    for name in ('prepare_page', 'invalidate_page'):
        for fn in facts.get(MQ + name):
            before, info = lockset(fn, LOCKCLS)
            locks = set(v for v, i in info.items() if i['mutex'] == 'page_mutex')
            pts = [(p, 'store %s' % last_member(fn, o['obj']), o['ln']) for p, o in ops_on(fn, 'head_page', ('store',)) + ops_on(fn, 'tail_page', ('store',))]
            pts += [(p, 'write next', fn.n(s).get('ln')) for p, s, l, r in assignments(fn) if last_member(fn, l) == 'next']
            for p, what, ln in pts:
                n += 1
                rep.ob('D4', 'K5', fn, '%s happens under page_mutex (line %s)' % (what, ln), bool(before.get(p, frozenset()) & locks),
                       'the page list is modified without page_mutex: a concurrent pop finalizer can unlink the same page', ln=ln,
                       key_extra='%s%s' % (what, ln))
    rep.floor('D4', 5, 'page list writes')



# ---------------------------------------------------------------------------------------------------------------
def captured_parent_var(facts, fn, vid):
    """(parent Fn, parent var id) of a lambda's by-reference/by-copy capture, or None"""
    par = facts.fns.get(fn.d.get('lparent'))
    if par is None:
        return None
    name = None
    for n in fn.nodes:
        if n.get('k') == 'var' and n.get('v') == vid:
            name = n['n']
            break
    for n in par.nodes:
        if n.get('k') == 'lambda' and n.get('fn') == fn.u:
            for c in n.get('caps', []):
                if c.get('n') == name and 'v' in c:
                    return par, c['v']
    return None


def difference_valued(facts, fn, s, defs_cache, depth=0):
    """may the value of expression s be a counter difference (a quantity that is negative in legal states: more blocked
    pops than items, a push ticket below the capacity)?  A `-` over the ticket counters / the capacity, looked up through
    local variables (any definition) and lambda captures."""
    COUNTERS = ('head_counter', 'tail_counter', 'my_capacity')
    for x in fn.subtree(s):
        n = fn.nodes[x]
        if n.get('k') == 'binop' and n['op'] == '-':
            for y in fn.subtree(x):
                m = fn.nodes[y]
                if m.get('k') == 'member' and m.get('n') in COUNTERS:
                    return True
                if m.get('k') == 'var' and 'glob' not in m and depth < 3 and var_difference(facts, fn, m['v'], defs_cache, depth + 1, counters_only=True):
                    return True
        if n.get('k') == 'var' and 'glob' not in n and depth < 3 and var_difference(facts, fn, n['v'], defs_cache, depth + 1):
            return True
    return False


def var_difference(facts, fn, vid, defs_cache, depth, counters_only=False):
    """is some definition of the variable a counter difference (counters_only: ... or a counter value, used for operands of `-`)"""
    if fn.u not in defs_cache:
        defs_cache[fn.u] = Defs(fn)
    defs = defs_cache[fn.u]
    vals = [val for (v, dn), val in defs.value_of.items() if v == vid and val is not None]
    if not vals:
        cap = captured_parent_var(facts, fn, vid)
        if cap:
            return var_difference(facts, cap[0], cap[1], defs_cache, depth, counters_only)
        return False
    for val in vals:
        if counters_only:
            if any(fn.nodes[y].get('k') == 'member' and fn.nodes[y].get('n') in ('head_counter', 'tail_counter', 'my_capacity') for y in fn.subtree(val)):
                return True
        if difference_valued(facts, fn, val, defs_cache, depth):
            return True
    return False


def d7_signed_sizes(facts, rep):
    """K14: the queue size (tail - head) is negative while pops are blocked on an empty queue, and ticket - capacity is
    negative until the first `capacity` pushes: every ordering comparison of such a difference must be evaluated in a signed
    type, otherwise a legal negative state reads as a huge positive one (try_push refuses on an empty queue, try_pop claims
    a ticket from an empty queue, push blocks on a fresh queue)."""
    cache = {}
    n = 0
    for fn in facts.fns.values():
        q = fn.q
        if not (q.startswith(D2 + 'concurrent_bounded_queue<') or q.startswith(D2 + 'concurrent_queue<') or
                q.startswith(D2 + 'concurrent_queue_rep<') or fn.p == D2 + 'internal_try_pop_impl'):
            continue
        for pos, s, node in fn.stmt_elems(('binop',)):
            if node['op'] not in ('<', '<=', '>', '>='):
                continue
            if not (difference_valued(facts, fn, node['l'], cache) or difference_valued(facts, fn, node['r'], cache)):
                continue
            ot = node.get('ot')
            n += 1
            rep.ob('D7', 'K14', fn, 'the size/ticket difference at line %s is compared in a signed type' % node['ln'],
                   bool(ot) and ot[1] == 1,
                   'the comparison is evaluated as %s: a negative difference (pops blocked on an empty queue / ticket below the '
                   'capacity) wraps to a huge value and the queue is reported full or non-empty in the wrong state'
                   % ('unsigned %s-bit' % ot[0] if ot else 'a non-integer type'), ln=node['ln'], key_extra=str(node['ln']))
    rep.floor('D7', 4, 'signed comparisons of counter differences')


def d6_fullness_counts_what_size_counts(facts, rep):
    """"the number of stored items never exceeds the capacity, try_push fails only when it was full": size() and empty() subtract the
    invalid entries (tickets whose push was aborted or threw: they hold no item and are skipped by the next consumer that reaches
    them) from tail - head.  The capacity tests have to count the same way (sibling agreement): a function of
    concurrent_bounded_queue that compares ticket distances with my_capacity also reads n_invalid_entries.  Otherwise aborted
    pushes keep occupying capacity: try_push reports "full" - and push blocks - on a queue that size() and empty() call empty."""
    from engine.rules import Summaries
    summ = Summaries(facts, max_depth=3)
    BQ = 'tbb::detail::d2::concurrent_bounded_queue'

    def reads_invalid(g, pos, e):
        return isinstance(e, int) and any(g.nodes[x].get('k') == 'member' and g.nodes[x].get('n') == 'n_invalid_entries' for x in g.subtree(e))
    n = 0
    for fn in sorted(facts.fns.values(), key=lambda f: f.q):
        owner = fn
        if fn.kind == 'lambda':
            owner = facts.fns.get(fn.d.get('lparent')) or fn
        if (owner.cls or '') != BQ or owner.p.split('::')[-1] in ('set_capacity', 'capacity', '(ctor)'):
            continue
        uses = False
        for b, blk in fn.blocks.items():
            t = blk.get('term')
            if t and 'c' in t and any(fn.nodes[x].get('k') == 'member' and fn.nodes[x].get('n') == 'my_capacity' for x in fn.subtree(t['c'])):
                uses = True
        # `target = ticket - my_capacity` computed first and compared later
        defs_cap = [nd for nd in fn.nodes if nd and nd.get('k') == 'decl' and any(
            v.get('init', -1) >= 0 and any(fn.nodes[x].get('n') == 'my_capacity' for x in fn.subtree(v['init'])) for v in nd['vars'])]
        if not uses and not defs_cap:
            continue
        if fn.kind == 'lambda':
            continue            # the predicate lambdas are part of their function (checked through the owner)
        n += 1
        # the capacity comparison itself (its condition and the values that flow into it through locals) depends on the count
        defs = Defs(fn)
        roots = []
        for b, blk in fn.blocks.items():
            t = blk.get('term')
            if t and 'c' in t and (any(fn.nodes[x].get('n') == 'my_capacity' for x in fn.subtree(t['c'])) or defs_cap):
                roots.append(t['c'])
        seen_nodes = set()
        work = list(roots)
        ok = False
        while work and not ok:
            r = work.pop()
            for x in fn.subtree(r):
                if x in seen_nodes:
                    continue
                seen_nodes.add(x)
                nd = fn.nodes[x]
                if nd.get('k') == 'member' and nd.get('n') == 'n_invalid_entries':
                    ok = True
                elif nd.get('k') == 'call':
                    g = facts.fns.get(nd.get('fn'))
                    if g is not None and (g.cls or '').startswith('tbb::detail::d2::concurrent_queue_rep') and summ.may(g, 'reads-n_invalid_entries', reads_invalid):
                        ok = True
                elif nd.get('k') == 'var' and nd.get('local'):
                    for dn, val in (defs.values(x) or []):
                        if val is not None:
                            work.append(val)
        rep.ob('D6', 'K7', fn, 'a capacity test of the bounded queue counts the way size() does (invalid entries are not items)', ok,
               'the test compares ticket distances with my_capacity without looking at n_invalid_entries: after an aborted (or throwing) push '
               'the queue reports "full" although size() is below the capacity - try_push fails and push blocks on an empty queue',
               key_extra='fullness')
    if n < 2:
        raise AnalysisBroken('concurrent_bounded_queue: functions comparing with my_capacity: %d (expected internal_push, internal_push_if_not_full)' % n)
