"""C20 - a suspended task resumes exactly once, however resume races with suspension.  (DESIGN.md section 4, C20)"""
from engine.facts import AnalysisBroken, atomic_op, atomic_ops, has_acquire, has_release
from engine.rules import (calls, calls_named, every_path_passes, last_member, is_call_to, Defs, resolve_cond_source, oname,
                          edges_where, dominated_by_edges, member_accesses, root_of, assignments, value_root, atomics_on)
from rules.common import TBB_SRC

UNITS = ['src/tbb/task.cpp', 'src/tbb/task_dispatcher.cpp', 'src/tbb/arena.cpp']
UNITS_THOROUGH = sorted(set(UNITS + TBB_SRC))
R1 = 'tbb::detail::r1::'
SP = R1 + 'suspend_point_type::'

EXPLANATION = (
    'Decides: D1 both sides of the suspend/resume hand-shake are atomic exchanges on the stack state and decide by the old '
    'value: try_notify_resume() = exchange(notified) == suspended, finilize_resume() = exchange(suspended) == notified => '
    'r1::resume(prev); writer table of m_stack_state (plain stores only of `active` for the own stack and of `notified` in '
    'recall_owner); D2 exactly one enqueue per successful notification: in r1::resume the resume task is pushed into exactly one '
    'stream, only on the success edge; the arena reference is taken before the push and dropped after the advertisement; D3 '
    'post-resume actions: do_post_resume_action has a case for every action that is ever set and clears the action on every '
    'path; set_post_resume_action precedes every stack switch that relies on it; D4 the wait covers a suspended task: '
    'resume_node::notify resumes only on the second of its two notifications (atomic increment == 2); coroutine creation takes an '
    'arena reference that the cleanup action drops.  The stack switch itself (co_context) and continuation on exactly one thread '
    'as a runtime fact are NOT decided.')
EXPLANATION += ' Added after the seeded-change rounds: ' + "D3 also: the owner's recall flag is raised (release) before the waiting-threads monitor is notified."
EXPLANATION += ' Added in the third session (round-3 seeds and the findings they led to): ' + 'D5: a cancelled resume task still continues the suspended code (cancel() does what execute() does).'
EXPLANATION += ' Added later in the fourth round: ' + 'D3 also: the recall flag is the last thing recall_owner writes into the suspend point.  D2 also: r1::resume advertises the resume task with a work type whose advertise_new_work instantiation can switch mandatory concurrency on, and the predicate under which out_of_work switches it off looks at the resume stream.'
EXPLANATION += ' Added in the fifth seeding round: ' + 'D2 also: the poll of the arena resume stream in receive_or_steal_task is reachable whatever the isolation tag of the waiting thread is (no branch that tests the tag, directly or through a local, dominates it) - resume tasks are exempt from isolation, a thread in an isolated wait must still continue suspended tasks.'
EXPLANATION += ' D2 also: every isolation-filtered search of a task stream (a task_stream function comparing task_accessor::isolation(*t) with its isolation parameter) also accepts a task because it is a resume task - r1::resume puts resume tasks into the critical stream when the suspended dispatcher was executing a critical task.'
ASSUMPTIONS = ['__TBB_RESUMABLE_TASKS configuration (Linux)', 'co_context::resume switches stacks and returns when resumed']
ND = ['the stack switch itself (co_context)', 'continuation on exactly one thread as a runtime fact']


def run(facts, rep):
    d5_resume_task_survives_cancellation(facts, rep)
    d1_handshake(facts, rep)
    d2_enqueue(facts, rep)
    d3_actions(facts, rep)
    d4_wait(facts, rep)


def ops_on(fn, member, kinds=None):
    return [(p, o) for p, o in atomic_ops(fn) if o['kind'] != 'fence' and last_member(fn, o['obj']) == member and (kinds is None or o['kind'] in kinds)]


def enum_name(fn, s):
    n = fn.n(fn.strip(s))
    for x in fn.subtree(n.get('s', -1)) if n else []:
        if fn.nodes[x].get('k') == 'enum':
            return fn.nodes[x]['n']
    return None


def d1_handshake(facts, rep):
    for fn in facts.get(SP + 'try_notify_resume'):
        xs = [(p, o) for p, o in ops_on(fn, 'm_stack_state') if o['kind'] == 'rmw' and o['name'] == 'exchange']
        ws = ops_on(fn, 'm_stack_state', ('store', 'rmw', 'cas'))
        ok = len(xs) == 1 and len(ws) == 1 and enum_name(fn, xs[0][1]['val']) == 'notified'
        rets = [nd for p, s, nd in fn.stmt_elems(('return',))]
        ok2 = False
        for nd in rets:
            v = fn.n(fn.strip(nd.get('sub', -1)))
            if v.get('k') == 'binop' and v['op'] == '==' and (fn.strip(v['l']) == xs[0][1]['s'] if xs else False) and enum_name(fn, v['r']) == 'suspended':
                ok2 = True
        rep.ob('D1', 'K1', fn, 'a resumer marks the stack `notified` by one exchange and succeeds only if it was `suspended`', ok and ok2,
               'the notification is not a single atomic exchange decided by the old value: a resume that races with the suspension is '
               'lost (task never continues) or taken twice')
    for fn in facts.get(SP + 'finilize_resume'):
        defs = Defs(fn)
        xs = [(p, o) for p, o in ops_on(fn, 'm_stack_state') if o['kind'] == 'rmw' and o['name'] == 'exchange']
        ok = len(xs) == 1 and enum_name(fn, xs[0][1]['val']) == 'suspended'
        rs = [c for c in calls(fn) if c[3]['p'] == R1 + 'resume']

        def was_notified(a, truth):
            n = fn.n(fn.strip(a))
            return truth and n.get('k') == 'binop' and n['op'] == '==' and xs and fn.strip(n['l']) == xs[0][1]['s'] and enum_name(fn, n['r']) == 'notified'
        ne = edges_where(fn, was_notified)
        ok2 = bool(rs) and bool(ne) and all(dominated_by_edges(fn, c[0], ne)[0] for c in rs)
        for (b, si) in ne:
            ok2 = ok2 and every_path_passes(fn, (fn.blocks[b]['succ'][si], -1), lambda p, e: p in set(c[0] for c in rs))[0]
        rep.ob('D1', 'K4', fn, 'the thread that leaves a stack marks it `suspended` by exchange and resumes it iff it was already `notified`', ok and ok2,
               'a resume() that arrived before the suspension finished is forgotten (task never continues) or repeated')
        plain = [(p, o) for p, o in ops_on(fn, 'm_stack_state', ('store',))]
        ok3 = all(enum_name(fn, o['val']) == 'active' and fn.n(root_of(fn, o['obj'])).get('k') in ('this', 'member') and 'm_prev' not in o['path'] for _, o in plain)
        rep.ob('D1', 'K1', fn, 'the only plain store in finilize_resume marks the own (running) stack active', ok3, 'plain store to another stack\'s state')
    # writer table over all units
    for fn in facts.fns.values():
        ws = ops_on(fn, 'm_stack_state', ('store', 'rmw', 'cas'))
        if not ws:
            continue
        short = fn.p.split('::')[-1]
        for p, o in ws:
            if o['kind'] in ('rmw', 'cas'):
                ok = short in ('try_notify_resume', 'finilize_resume')
                rep.ob('D1', 'K1', fn, 'm_stack_state RMW only in the two hand-shake functions (line %s)' % o['ln'], ok, '%s exchanges the stack state' % fn.p,
                       ln=o['ln'], key_extra=fn.p + str(o['ln']))
            else:
                val = enum_name(fn, o['val'])
                ok = (short == 'finilize_resume' and val == 'active') or (short == 'recall_owner' and val == 'notified') or fn.kind == 'ctor'
                rep.ob('D1', 'K1', fn, 'plain store of m_stack_state is in the writer table (line %s)' % o['ln'], ok,
                       '%s stores %s plainly: the exchange hand-shake can be overwritten' % (fn.p, val), ln=o['ln'], key_extra=fn.p + str(o['ln']))
    rep.floor('D1', 5, 'hand-shake')


def d2_enqueue(facts, rep):
    fns = [f for f in facts.get(R1 + 'resume') if f.d.get('params') and 'suspend_point_type' in f.d['params'][0]['ty']]
    if not fns:
        raise AnalysisBroken('r1::resume(suspend_point_type*) not found')
    for fn in fns:
        tn = set(c[1] for c in calls_named(fn, ('try_notify_resume',)))
        se = edges_where(fn, lambda a, truth: truth and fn.strip(a) in tn)
        pu = [c for c in calls_named(fn, ('push',)) if 'stream' in fn.path(c[2].get('obj', -1))]
        ok = bool(pu) and bool(se) and all(dominated_by_edges(fn, c[0], se)[0] for c in pu)
        rep.ob('D2', 'K4', fn, 'the resume task is enqueued only after a successful notification', ok, 'resume task enqueued for a stack that is not suspended')
        # exactly one push per path
        one = all(not fn.can_reach(a[0], b[0]) for a in pu for b in pu)
        onall = True
        for (b, si) in se:
            onall = onall and every_path_passes(fn, (fn.blocks[b]['succ'][si], -1), lambda p, e: p in set(c[0] for c in pu))[0]
        rep.ob('D2', 'K3', fn, 'exactly one stream receives the resume task on every successful path', one and onall,
               'the resume task is pushed twice (continues twice) or not at all (never continues)')
        inc = [(p, o) for p, o in ops_on(fn, 'my_references', ('rmw',))]
        adv = calls_named(fn, ('advertise_new_work',))
        otl = calls_named(fn, ('on_thread_leaving',))
        ok3 = bool(inc) and bool(adv) and bool(otl) and all(every_path_passes(fn, 'entry', lambda p, e: p in set(q for q, _ in inc), end=c[0])[0] for c in pu) and \
            all(every_path_passes(fn, 'entry', lambda p, e: p in set(c[0] for c in pu), end=a[0])[0] for a in adv) and \
            all(every_path_passes(fn, 'entry', lambda p, e: p in set(a[0] for a in adv), end=o[0])[0] for o in otl)
        rep.ob('D2', 'K4', fn, 'arena reference -> push -> advertise -> drop reference, in this order', ok3,
               'the arena can be destroyed between the push and the wake-up, or the wake-up precedes the push')
    d2_resume_is_starvation_resistant(facts, rep)
    d2_resume_stream_is_polled_regardless_of_isolation(facts, rep)
    d2_isolation_filters_exempt_resume_tasks(facts, rep)
    rep.floor('D2', 3, 'resume enqueue')


def d2_resume_is_starvation_resistant(facts, rep, clause='D2'):
    """"never forgotten": a resume task sits in the arena's resume stream; only a thread INSIDE the arena takes it from there.
    The arena may be empty at that moment (every thread left while the task was suspended), and with a worker soft limit of 0
    (max_allowed_parallelism == 1) an arena gets its single worker only while "mandatory concurrency" is switched on.  So:
    (a) r1::resume advertises the pushed task with a work type whose instantiation of arena::advertise_new_work can switch
        mandatory concurrency on (read from the bodies of the instantiations: the one that reaches
        my_mandatory_concurrency.test_and_set()), not with one that only wakes sleeping threads;
    (b) the predicate under which out_of_work switches mandatory concurrency off again looks at the resume stream as well -
        otherwise the worker that was granted for the resume task gives the grant back before it has run it."""
    adv = [f for f in facts.fns.values() if f.p == R1 + 'arena::advertise_new_work']
    strong = set(f.u for f in adv if any(o['kind'] in ('rmw', 'cas') and last_member(f, o['obj']) == 'my_mandatory_concurrency' for _, o in atomic_ops(f))
                 or any((d or {}).get('n') == 'test_and_set' and last_member(f, node.get('obj', -1)) == 'my_mandatory_concurrency'
                        for _, _, node, d in calls(f)))
    if not adv or not strong:
        raise AnalysisBroken('arena::advertise_new_work: no instantiation that can enable mandatory concurrency found (%d instantiations)' % len(adv))
    fns = [f for f in facts.get(R1 + 'resume') if f.d.get('params') and 'suspend_point_type' in f.d['params'][0]['ty']]
    for fn in fns:
        cs = calls_named(fn, ('advertise_new_work',))
        if not cs:
            raise AnalysisBroken('r1::resume: advertise_new_work call not found')
        weak = [c for c in cs if c[2].get('fn') not in strong]
        rep.ob(clause, 'K10', fn, 'a resumed task is advertised with a work type that can switch mandatory concurrency on', not weak,
               'the resume task is advertised with %s, which only wakes threads that are already in the arena: with max_allowed_parallelism == 1 '
               'and nobody left in the arena the task stays in the resume stream for ever' %
               ', '.join(sorted(set((c[3].get('q') or '').split('advertise_new_work')[-1] for c in weak))), key_extra='resume-adv')
    for fn in facts.get(R1 + 'arena::out_of_work'):
        # the predicate handed to my_mandatory_concurrency.try_clear_if
        preds = []
        for pos, s, node, d in calls_named(fn, ('try_clear_if',)):
            if last_member(fn, node.get('obj', -1)) != 'my_mandatory_concurrency':
                continue
            for a in node.get('a', []):
                for x in fn.subtree(a):
                    if fn.nodes[x].get('k') == 'lambda' and facts.fns.get(fn.nodes[x].get('fn')) is not None:
                        preds.append(facts.fns[fn.nodes[x]['fn']])
        if not preds:
            raise AnalysisBroken('arena::out_of_work: the predicate of my_mandatory_concurrency.try_clear_if was not found')
        from engine.rules import Summaries
        summ = Summaries(facts, max_depth=3)

        def reads_resume_stream(g, pos, e):
            return isinstance(e, int) and g.nodes[e].get('k') == 'call' and last_member(g, g.nodes[e].get('obj', -1)) == 'my_resume_task_stream'
        ok = all(summ.may(g, 'reads-resume-stream', reads_resume_stream) for g in preds)
        rep.ob(clause, 'K7', fn, 'mandatory concurrency is switched off only when the resume stream is empty too', ok,
               'the predicate looks at the enqueued tasks only: the worker granted for a resumed task gives its grant back while the task '
               'is still in the resume stream', key_extra='mandatory-off')


def d3_actions(facts, rep):
    # actions ever set
    used = set()
    for fn in facts.fns.values():
        for pos, s, node, d in calls_named(fn, ('set_post_resume_action',)):
            a = node.get('a', [])
            if a:
                nm = enum_name(fn, a[0])
                if nm:
                    used.add(nm)
    if len(used) < 3:
        raise AnalysisBroken('post-resume actions set: %s (expected >= 3)' % sorted(used))
    for fn in facts.get(R1 + 'task_dispatcher::do_post_resume_action'):
        cases = set()
        for b, blk in fn.blocks.items():
            lab = blk.get('label')
            if lab and 'case' in lab and lab.get('n'):
                cases.add(lab['n'])
        rep.ob('D3', 'K8', fn, 'every post-resume action that is ever set has a case (%s)' % ', '.join(sorted(used)), used <= cases,
               'actions without a case: %s' % sorted(used - cases))
        clr = calls_named(fn, ('clear_post_resume_action',))
        ok, wit = every_path_passes(fn, 'entry', lambda p, e: p in set(c[0] for c in clr))
        rep.ob('D3', 'K3', fn, 'the action is cleared on every path', ok and bool(clr), 'a stale action is executed again after the next stack switch: ' + wit)
        # hand-back to the owner: the recall flag is raised BEFORE the owner (possibly asleep in coroutine_waiter::pause on
        # the waiting-threads monitor) is notified; notifying first lets the owner re-check an unset flag and go back to
        # sleep, and the later flag store wakes nobody
        rc = calls_named(fn, ('recall_owner',))
        mon = set(c[1] for c in calls_named(fn, ('get_waiting_threads_monitor',)))
        nt = [c for c in calls_named(fn, ('notify', 'notify_one', 'notify_all', 'notify_relaxed')) if fn.subtree(c[2].get('obj', -1)) & mon]
        if not rc or not nt:
            raise AnalysisBroken('do_post_resume_action: recall_owner / waiting-threads-monitor notification not found')
        rcp = set(c[0] for c in rc)
        ok2 = all(every_path_passes(fn, 'entry', lambda p, e: p in rcp, end=c[0])[0] for c in nt)
        rep.ob('D3', 'K4', fn, 'the owner\'s recall flag is raised before the waiting-threads monitor is notified', ok2,
               'notify-then-flag: the owner can wake, find the flag still unset, sleep again and never be told: the suspended code is '
               'never continued', ln=nt[0][2]['ln'])
    for fn in facts.get(R1 + 'suspend_point_type::recall_owner'):
        st = [(p_, o) for p_, o in atomic_ops(fn) if o['kind'] in ('store', 'rmw') and last_member(fn, o['obj']) == 'm_is_owner_recalled']
        rep.ob('D3', 'K1', fn, 'recall_owner publishes the flag with release (or stronger)', bool(st) and all(has_release(o['order'] or 0) for _, o in st),
               ', '.join(oname(o['order']) for _, o in st))
        # ... and it is the LAST write of the hand-over: the owner may take its stack back (and suspend again on it) the moment it
        # sees the flag, so everything else recall_owner writes into the suspend point - the `notified` stack state - is written
        # before the release store.  A state store after the flag lands on a stack the caller no longer owns: it is taken for the
        # resume() of the owner's NEXT suspension (continued without resume / the real resume is ignored and the task forgotten)
        late = []
        for fp, fo in st:
            for p_, o in atomic_ops(fn):
                if o['kind'] in ('store', 'rmw', 'cas') and last_member(fn, o['obj']) != 'm_is_owner_recalled' and fn.can_reach(fp, p_):
                    late.append('%s (line %s)' % (last_member(fn, o['obj']), o.get('ln')))
        rep.ob('D3', 'K2', fn, 'the recall flag is the last thing recall_owner writes into the suspend point', bool(st) and not late,
               'written after the owner was told that its stack is free: %s - the owner can already have suspended again on that stack; the late '
               'store is taken for the resume of the next suspension' % ', '.join(late), key_extra='flag-last')
    # set before every stack switch that relies on it
    for pname, switch in ((R1 + 'task_dispatcher::recall_point', ('internal_suspend',)), (SP + 'resume_task::execute', ('resume', 'wait')),
                          (R1 + 'task_dispatcher::co_local_wait_for_all', ('resume',))):
        for fn in facts.get(pname):
            sets = calls_named(fn, ('set_post_resume_action',))
            sw = [c for c in calls_named(fn, switch) if (c[3].get('cls') or '').endswith('task_dispatcher') or c[3]['n'] in ('internal_suspend', 'wait')]
            sw = [c for c in sw if c[3]['p'] != R1 + 'resume']
            if not sw:
                raise AnalysisBroken('%s: stack switch call not found' % pname)
            ok = bool(sets) and all(every_path_passes(fn, 'entry', lambda p, e: p in set(s_[0] for s_ in sets), end=c[0])[0] for c in sw)
            rep.ob('D3', 'K4', fn, 'a post-resume action is set before the stack is switched', ok,
                   'the thread that lands on the other stack finds no action: the waiter is never registered / the owner never recalled / the '
                   'coroutine never cleaned up', key_extra=pname)
    rep.floor('D3', 5, 'post-resume actions')


def d4_wait(facts, rep):
    for fn in facts.get(R1 + 'resume_node::notify'):
        inc = [(p, o) for p, o in ops_on(fn, 'my_notify_calls', ('rmw',))]
        rs = [c for c in calls(fn) if c[3]['p'] == R1 + 'resume']
        incn = set(o['s'] for _, o in inc)

        def second(a, truth):
            n = fn.n(fn.strip(a))
            return truth and n.get('k') == 'binop' and n['op'] == '==' and fn.strip(n['l']) in incn and fn.cv(n['r']) == 2
        se = edges_where(fn, second)
        ok = bool(inc) and bool(rs) and bool(se) and all(dominated_by_edges(fn, c[0], se)[0] for c in rs)
        rep.ob('D4', 'K4', fn, 'the suspended waiter is resumed only by the second of its two notifications (atomic ++ == 2)', ok,
               'resume before the stack was left (crash) or never')
    for fn in [f for f in facts.get(R1 + 'create_coroutine') if f.d.get('params') and 'thread_data' in f.d['params'][0]['ty']]:
        inc = [(p, o) for p, o in ops_on(fn, 'my_references', ('rmw',))]
        ok, wit = every_path_passes(fn, 'entry', lambda p, e: p in set(q for q, _ in inc))
        rep.ob('D4', 'K3', fn, 'every coroutine holds an arena reference from creation', ok and bool(inc), wit)
    for fn in facts.get(R1 + 'task_dispatcher::do_post_resume_action'):
        otl = calls_named(fn, ('on_thread_leaving',))
        cp = calls_named(fn, ('push',))
        ok = bool(otl) and bool(cp)
        rep.ob('D4', 'K3', fn, 'the cleanup action drops the coroutine\'s arena reference and caches the coroutine', ok, 'reference leak / coroutine lost',
               key_extra='cleanup')
    rep.floor('D4', 3, 'wait coverage')


def d5_resume_task_survives_cancellation(facts, rep):
    """The resume task is an ordinary task of the arena's default context as far as the dispatcher is concerned: when that context
    is cancelled (any task running in it may call current_context()->cancel_group_execution()), the dispatcher calls cancel()
    instead of execute().  The task stands for a suspended coroutine that resume() has promised to continue ("never
    forgotten"): cancel() must do what execute() does - on every path it reaches execute() of the same task or the stack switch
    itself (task_dispatcher::resume).  An assert-only cancel() drops the suspended code in release builds."""
    n = 0
    for fn in facts.fns.values():
        if not fn.p.endswith('suspend_point_type::resume_task::cancel'):
            continue
        n += 1
        cs = [c for c in calls(fn) if (c[3] or {}).get('n') in ('execute', 'resume')]
        ok = bool(cs) and every_path_passes(fn, 'entry', lambda p, e: p in set(c[0] for c in cs))[0]
        rep.ob('D5', 'K7', fn, 'a cancelled resume task still continues the suspended code (cancel() does what execute() does)', ok,
               'cancel() returns without resuming the target: when the arena\'s default context has been cancelled, a resume task that a '
               'thread takes from the resume stream is dropped - the suspended code never continues and the wait that covers it hangs')
    if n < 1:
        raise AnalysisBroken('resume_task::cancel not found')


def d2_resume_stream_is_polled_regardless_of_isolation(facts, rep, clause='D2'):
    """"never forgotten", second half: a thread waiting inside this_task_arena::isolate still takes resume tasks - they are exempt
    from the isolation filter (their tag is no_isolation; the dispatch loop asserts is_resume_task || isolation matches).  If every
    thread that could continue a suspended task is in an isolated wait and that wait depends on the continuation, a poll that is
    skipped under isolation leaves the resume task in the stream for ever.  Rule: in receive_or_steal_task the poll of the arena's
    resume stream is reachable whatever the isolation parameter is - no branch whose (resolved) condition reads the isolation tag
    dominates it."""
    n = 0
    for fn in facts.get(R1 + 'task_dispatcher::receive_or_steal_task'):
        defs = Defs(fn)
        iso_params = set(p['v'] for p in fn.d.get('params', []) if 'isolation' in (p.get('n') or ''))
        if not iso_params:
            raise AnalysisBroken('%s: isolation parameter not found' % fn.q)

        def reads_iso(a, truth):
            src = resolve_cond_source(fn, defs, a)
            sn = fn.n(src)
            ops = [src] + ([sn['l'], sn['r']] if sn.get('k') == 'binop' and sn.get('op') in ('==', '!=', '<', '>', '<=', '>=', '&', '|', '&&', '||') else [])
            # the tag itself is tested (directly or through a local); handing it to a retrieval helper is not a test
            for o in ops:
                o = resolve_cond_source(fn, defs, o)
                on = fn.n(o)
                if on.get('k') == 'var' and on.get('v') in iso_params:
                    return True
                if on.get('k') == 'binop' and on.get('op') in ('==', '!=') and any(
                        fn.n(fn.strip(z)).get('k') == 'var' and fn.n(fn.strip(z)).get('v') in iso_params for z in (on['l'], on['r'])):
                    return True
            return False
        gated = edges_where(fn, reads_iso)
        polls = []
        refs = set()            # local references bound to the arena's resume stream
        for pos, s, node in fn.stmt_elems(('decl',)):
            for v in node.get('vars', []):
                if v.get('init', -1) >= 0 and last_member(fn, v['init']) == 'my_resume_task_stream':
                    refs.add(v['v'])
        for pos, s, node, d in calls(fn):
            for a in list(node.get('a', [])) + ([node['obj']] if node.get('obj', -1) >= 0 else []):
                x = fn.strip(a)
                if (fn.n(x).get('k') == 'var' and fn.n(x).get('v') in refs) or last_member(fn, x) == 'my_resume_task_stream':
                    polls.append((pos, node))
                    break
        if not polls:
            raise AnalysisBroken('%s: no call that receives the resume stream found' % fn.q)
        for pos, node in polls:
            n += 1
            # dominated by gated edges <=> unreachable when every isolation-dependent edge is cut
            dom = bool(gated) and dominated_by_edges(fn, pos, gated)[0]
            rep.ob(clause, 'K4', fn, 'the resume stream is polled whatever the isolation of the waiting thread is', not dom,
                   'the poll of my_resume_task_stream is reached only through a branch on the isolation tag: a thread in an isolated wait never '
                   'takes resume tasks, and a suspended task whose continuation that wait depends on is never continued', ln=node.get('ln'),
                   key_extra='resume-poll-iso|' + fn.q[-40:])
    if n < 1:
        raise AnalysisBroken('resume stream polls judged: 0')


def resume_exempt_edges(fn):
    """edges on which the task under test is known to be a resume task: is_resume_task(...) true, directly or through a local"""
    defs = Defs(fn)

    def atom(a, truth):
        if not truth:
            return False
        src = resolve_cond_source(fn, defs, a)
        return any(fn.nodes[x].get('k') == 'call' and (fn.callee(x) or {}).get('n') == 'is_resume_task' for x in fn.subtree(src))
    return edges_where(fn, atom)


def d2_isolation_filters_exempt_resume_tasks(facts, rep, clause='D2'):
    """r1::resume puts the resume task into the critical stream when the suspended dispatcher was executing a critical task.
    A thread in an isolated wait reads that stream through task_stream::pop_specific / look_specific, which hands out only tasks
    whose isolation tag equals the waiter's - a resume task carries no tag, so such a waiter can never take it, while it does take
    resume tasks from the resume stream (they are exempt from isolation; the dispatch loop asserts exactly that).  If the isolated
    wait depends on the continuation the suspended task is never continued.  Rule: in every isolation-filtered search of a stream
    (a function of task_stream that compares task_accessor::isolation(*t) with its isolation parameter) a task can also be
    accepted because it is a resume task: the accepting return is not dominated by the tag-equality edge alone, and the
    alternative passes task_accessor::is_resume_task."""
    n = 0
    for fn in sorted(facts.fns.values(), key=lambda f: f.q):
        if not fn.p.startswith(R1 + 'task_stream::'):
            continue

        def tag_equal(a, truth):
            nd = fn.n(fn.strip(a))
            if nd.get('k') != 'binop' or nd['op'] not in ('==', '!='):
                return False
            sides = [fn.n(fn.strip(nd['l'])), fn.n(fn.strip(nd['r']))]
            has_call = any(s_.get('k') == 'call' and (fn.callee(s_['s']) or {}).get('p', '').endswith('task_accessor::isolation') for s_ in sides)
            has_par = any(s_.get('k') == 'var' and 'param' in s_ for s_ in sides)
            return has_call and has_par and ((nd['op'] == '==') == truth)
        eq = edges_where(fn, tag_equal)
        if not eq:
            continue
        rets = [(pos, nd) for pos, s, nd in fn.stmt_elems(('return',)) if nd.get('sub', -1) >= 0 and not fn.n(fn.strip(nd['sub'])).get('null')]
        if not rets:
            raise AnalysisBroken('%s: isolation filter without an accepting return' % fn.q)
        exempt = resume_exempt_edges(fn)
        for pos, nd in rets:
            n += 1
            only_by_tag = dominated_by_edges(fn, pos, eq)[0]
            ok = (not only_by_tag) and bool(exempt) and dominated_by_edges(fn, pos, eq | exempt)[0]
            rep.ob(clause, 'K4', fn, 'an isolation-filtered search of a task stream also accepts resume tasks', ok,
                   'a task is handed out only if its tag equals the waiter\'s isolation: a resume task (no tag) that r1::resume put into the critical '
                   'stream is never taken by a thread in an isolated wait - if that wait depends on the continuation, the suspended task is '
                   'never continued', ln=nd.get('ln'), key_extra='stream-filter-resume|' + fn.q[-60:])
    if n < 1:
        raise AnalysisBroken('task_stream: no isolation-filtered search found')
