"""C14 - flow graph conserves messages, honours node limits; wait_for_all means idle.  (DESIGN.md section 4, C14)"""
from engine.facts import AnalysisBroken, atomic_op, atomic_ops, has_acquire, has_release
from engine.rules import (calls, calls_named, every_path_passes, last_member, is_call_to, Defs, resolve_cond_source, oname,
                          edges_where, dominated_by_edges, member_accesses, root_of, assignments, value_root, atomics_on,
                          elem_fn_uid, access_kind, lockset)
from rules.common import k8_handler, handler_iterations, class_scope, task_classes, k7_task_class
from rules.C03 import try_call_sites

UNITS = ['drivers/flow.cpp']
D2 = 'tbb::detail::d2::'

EXPLANATION = (
    'Decides: D1 handler completeness for every aggregator handler of the flow graph (function_input_base, buffer_node and its '
    'queue/sequencer/priority overrides, indexer, reserving/queueing/key-matching ports, join_node_FE, join_node_base): every '
    'submitted operation kind has a case, and every operation taken off the list gets a status (release) on every path, '
    'directly or through a helper all of whose overriders do; D2 node state is serialised: the fields mutated by the handler '
    'closure (my_concurrency, forwarder_busy, item-buffer indices, my_reserved) are written by no method outside the handler '
    'closure, constructors/destructors and reset functions; D3 concurrency limit: my_concurrency is incremented only on the '
    'my_concurrency < my_max_concurrency edge (or in a helper all of whose call sites are), and a finished body gives its unit '
    'back through the app_body_bypass operation; D4 rejected messages are kept: a buffered item is destroyed only when a '
    'successor accepted it and it is the end that was offered; the three successor loops re-register with a rejecting successor '
    'and drop it iff that succeeded; a predecessor popped from the cache is re-added or re-registered on every path; cache '
    'containers are touched only under the cache mutex; D5 graph wait accounting: a graph_task reserves in its constructor, '
    'finalize() destroys, deallocates and then releases; every graph task class ends execute() and cancel() that way; body / '
    'forward tasks are created only while the graph is active.  Exactly-once delivery over all topologies and "no body running '
    'when wait_for_all returns" as a timing property are NOT decided.')
EXPLANATION += ' Added after the seeded-change rounds: ' + "D5 also: an inline (lightweight) body starts only after the group's cancellation state was consulted (violated on the pinned tree: known findings); D6: for every buffer node class and every non-exempt operation kind, each call chain to an item primitive consults the reservation state first; input_node hands its cached item out only when not reserved."
EXPLANATION += ' Added in the third session (round-3 seeds and the findings they led to): ' + 'D1 also: a batch flag of an aggregator handler is only raised while the batch is handled, and no handler touches an operation after publishing its status; D4 also: the join consumes its inputs only on the accepted edge of THIS put, every keeping sender (input, buffer, limiter, overwrite, join) offers what it keeps when a successor is registered, an edge removal tells a predecessor-counting receiver exactly once.'
EXPLANATION += ' Added in the fourth round of seeded changes: ' + 'D1 also: where an aggregator handler of the flow graph can raise a user exception, start_handle_operations lowers handler_busy on the exceptional path as well (violated on the pinned tree: known finding); D5 also: the task a handler hands back is picked up by every operation that runs the aggregator.'
EXPLANATION += ' Added in the fifth round: ' + "D1 also: inside the buffering node's handler an operation that clears my_reserved raises the forwarding flag before the handler advances."
ASSUMPTIONS = ['node kinds and policies instantiated in drivers/flow.cpp', 'aggregator serialises its handler (C13-D1)']
ND = ['exactly-once delivery over all topologies', 'no body running when wait_for_all returns (timing)',
      'async_node gateway use from foreign threads beyond the reserve/release pairing']
LOCKCLS = lambda c: c.endswith('scoped_lock')   # noqa: E731


def run(facts, rep):
    d5_handler_task_picked_up(facts, rep)
    d1_batch_flags_only_raised(facts, rep)
    d1_ending_a_reservation_restarts_forwarding(facts, rep)
    d1_handlers(facts, rep)
    d1_handler_survives_user_exceptions(facts, rep)
    d2_serial(facts, rep)
    d3_concurrency(facts, rep)
    d4_rejected(facts, rep)
    d5_wait(facts, rep)
    d6_reservation(facts, rep)
    d5_inline_bodies(facts, rep)


def d1_handlers(facts, rep):
    hs = [fn for fn in facts.fns.values() if 'flow_graph' in fn.file and handler_iterations(fn) and 'handle_operations' in fn.p]
    names = set(fn.p for fn in hs)
    if len(names) < 8:
        raise AnalysisBroken('only %d aggregator handlers found in the flow graph (expected >= 8): %s' % (len(names), sorted(names)))
    for fn in hs:
        k8_handler(facts, rep, 'D1', fn, label=fn.p.replace(D2, '').replace('::handle_operations', '').replace('_impl', ''))
    rep.floor('D1', 14, 'handler obligations')


def closure_of(facts, roots, scope):
    seen = {}
    work = []
    for fn in roots:
        seen[fn.u] = fn
        work.append(fn)
    while work:
        fn = work.pop()
        for b, i, e in fn.iter_elems():
            u = elem_fn_uid(e, fn)
            if not u:
                continue
            cands = [u]
            if isinstance(e, int) and fn.nodes[e].get('virt'):
                cands += list(facts.overriders(u))      # virtual helper: every overrider runs inside the handler as well
            for cu in cands:
                g = facts.fns.get(cu)
                if g is None or g.u in seen:
                    continue
                if g.cls in scope or (g.kind == 'lambda' and g.d.get('lparent') in seen):
                    seen[g.u] = g
                    work.append(g)
    return seen


def d2_serial(facts, rep):
    specs = [
        (D2 + 'function_input_base', ('my_concurrency', 'forwarder_busy'), ('reset_function_input_base', '(ctor)', '(dtor)')),
        (D2 + 'buffer_node', ('my_reserved', 'forwarder_busy', 'my_head', 'my_tail'), ('reset', 'reset_node', '(ctor)', '(dtor)', 'clean_up_buffer',
                                                                                       'reset_receiver')),
    ]
    for cls, fields, exempt in specs:
        # all classes in the hierarchy: the class, its bases, and classes derived from it (queue/sequencer/priority nodes)
        scope = set()
        for p, cs in facts.classes.items():
            for c in cs:
                if p == cls or cls in c['allbases']:
                    scope.add(p)
                    scope |= set(b for b in c['allbases'] if 'item_buffer' in b or 'reservable_item_buffer' in b)
        scope |= class_scope(facts, cls)
        roots = [fn for fn in facts.fns.values() if fn.cls in scope and 'handle_operations' in fn.p.split('::')[-1]]
        if not roots:
            raise AnalysisBroken('%s: handler not found' % cls)
        cl = closure_of(facts, roots, scope)
        cl_names = set(g.p for g in cl.values())
        for field in fields:
            offenders = []
            nacc = 0
            for g in facts.fns.values():
                if g.cls not in scope:
                    continue
                short = g.p.split('::')[-1]
                for pos, s, node, kind in member_accesses(g, (field,)):
                    if node.get('cls') not in scope:
                        continue
                    if kind not in ('write', 'rmw'):
                        continue
                    nacc += 1
                    if g.p in cl_names or short in exempt:
                        continue
                    offenders.append('%s (line %s)' % (g.p.replace(D2, ''), node.get('ln')))
            if nacc == 0:
                raise AnalysisBroken('%s::%s is never written: field renamed?' % (cls, field))
            anchor = roots[0]
            rep.ob('D2', 'K6', anchor, '%s::%s is written only inside the aggregator handler closure' % (cls.replace(D2, ''), field), not offenders,
                   'written outside the serialised handler by %s: concurrent try_put / forward tasks race on the node state' % ', '.join(sorted(set(offenders))[:3]),
                   key_extra=cls + field)
    rep.floor('D2', 5, 'serialised fields')


def d3_concurrency(facts, rep):
    cls = D2 + 'function_input_base::'
    incs = []
    for fn in facts.fns.values():
        if fn.cls != D2 + 'function_input_base':
            continue
        for pos, s, node in fn.stmt_elems(('unop', 'binop')):
            if node.get('k') == 'unop' and node['op'] == '++' and last_member(fn, node['sub']) == 'my_concurrency':
                incs.append((fn, pos, node))

    def limit_edges(fn):
        def lt(a, truth):
            n = fn.n(fn.strip(a))
            return truth and n.get('k') == 'binop' and n['op'] == '<' and last_member(fn, n['l']) == 'my_concurrency' and \
                last_member(fn, n['r']) == 'my_max_concurrency'
        return edges_where(fn, lt)
    if not incs:
        raise AnalysisBroken('function_input_base: no ++my_concurrency found')
    for fn, pos, node in incs:
        ok, wit = dominated_by_edges(fn, pos, limit_edges(fn))
        how = 'guarded in place'
        if not ok:
            # lift to the call sites
            callers = [c for c in facts.callers(fn.u)]
            ok = bool(callers) and all(dominated_by_edges(g, gpos, limit_edges(g))[0] for g, gpos, gs in callers)
            how = 'guarded at all %d call sites' % len(callers)
        rep.ob('D3', 'K4', fn, '++my_concurrency happens only below the node\'s concurrency limit (line %s)' % node['ln'], ok,
               'more bodies than the node\'s concurrency limit can run at once: ' + wit, ln=node['ln'], key_extra=str(node['ln']))
    n_fin = 0
    for name in ('function_input::apply_body_impl_bypass', 'multifunction_input::apply_body_impl_bypass', 'continue_input::apply_body_bypass'):
        for fn in facts.get(D2 + name, required=False):
            gp = calls_named(fn, ('try_get_postponed_task',))
            if not gp and 'continue_input' in name:
                continue
            n_fin += 1

            def limited(a, truth):
                n = fn.n(fn.strip(a))
                return truth and n.get('k') == 'binop' and n['op'] == '!=' and last_member(fn, n['l']) == 'my_max_concurrency'
            le = edges_where(fn, limited)
            ok = bool(gp) and bool(le) and all(every_path_passes(fn, (fn.blocks[b]['succ'][si], -1), lambda p, e: p in set(c[0] for c in gp))[0] for b, si in le)
            rep.ob('D3', 'K3', fn, 'a finished body returns its concurrency unit (try_get_postponed_task) whenever the node is limited', ok,
                   'the unit is never given back: the node stops accepting work after max_concurrency bodies', key_extra=name)
    for fn in facts.get(D2 + 'function_input_base::try_get_postponed_task'):
        ex = calls_named(fn, ('execute',))
        rep.ob('D3', 'K3', fn, 'try_get_postponed_task submits the app_body_bypass operation', bool(ex), 'no aggregator operation')
    rep.floor('D3', 4, 'concurrency limit')


def d4_rejected(facts, rep):
    for cls, offered, destroyed in ((D2 + 'buffer_node', 'back', 'destroy_back'), (D2 + 'queue_node', 'front', 'destroy_front'),
                                    (D2 + 'priority_queue_node', 'prio', 'prio_pop')):
        for fn in facts.get(cls + '::try_put_and_add_task'):
            defs = Defs(fn)
            tp = calls_named(fn, ('try_put_task',))
            ds = calls_named(fn, ('destroy_back', 'destroy_front', 'prio_pop', 'pop_back', 'pop_front', 'destroy_item'))
            if not tp:
                raise AnalysisBroken('%s::try_put_and_add_task: try_put_task not found' % cls)
            tpn = set(c[1] for c in tp)
            acc = edges_where(fn, lambda a, truth: truth and fn.strip(resolve_cond_source(fn, defs, a)) in tpn)
            ok = bool(ds) and all(dominated_by_edges(fn, c[0], acc)[0] for c in ds)
            rep.ob('D4', 'K4', fn, 'the buffered item is removed only when a successor accepted it', ok,
                   'a rejected message is destroyed: it is lost', key_extra=cls)
            arg_ok = all(any((fn.callee(x) or {}).get('n') == offered for x in fn.subtree(c[2]['a'][0]) if fn.nodes[x].get('k') == 'call') for c in tp if c[2].get('a'))
            end_ok = all(c[3]['n'] == destroyed for c in ds)
            rep.ob('D4', 'K10', fn, 'the item that is removed (%s) is the item that was offered (%s)' % (destroyed, offered), arg_ok and end_ok,
                   'offered %s() but removes via %s' % (offered, [c[3]['n'] for c in ds]), key_extra=cls + 'end')
    # successor loops
    loops = [(D2 + 'broadcast_cache::try_put_task_impl', True), (D2 + 'broadcast_cache::gather_successful_try_puts', True),
             (D2 + 'round_robin_cache::try_put_task_impl', True)]
    for pname, _ in loops:
        for fn in facts.get(pname):
            defs = Defs(fn)
            tp = calls_named(fn, ('try_put_task',))
            rp = calls_named(fn, ('register_predecessor',))
            er = calls_named(fn, ('erase',))
            tpn = set(c[1] for c in tp)
            rej = edges_where(fn, lambda a, truth: (not truth) and fn.strip(resolve_cond_source(fn, defs, a)) in tpn)
            ok = bool(tp) and bool(rp) and bool(rej)
            for (b, si) in rej:
                ok = ok and every_path_passes(fn, (fn.blocks[b]['succ'][si], -1), lambda p, e: p in set(c[0] for c in rp))[0]
            rep.ob('D4', 'K4', fn, 'a rejecting successor is asked to register the sender as predecessor (pull protocol)', ok,
                   'after a rejection nobody will ever pull the message from this sender', key_extra='reg')
            rpn = set(c[1] for c in rp)
            took = edges_where(fn, lambda a, truth: truth and fn.strip(a) in rpn)
            ok2 = bool(er) and all(dominated_by_edges(fn, c[0], took)[0] for c in er)
            rep.ob('D4', 'K4', fn, 'a successor is dropped from the push list only if it switched to pulling', ok2,
                   'successor erased although it did not register the predecessor: the edge is lost', key_extra='erase')
            before, info = lockset(fn, LOCKCLS)
            locks = set(info)
            pts = [c[0] for c in tp + er]
            rep.ob('D4', 'K5', fn, 'the successor list is traversed under the cache mutex', bool(locks) and all(before.get(p, frozenset()) & locks for p in pts),
                   'my_successors used without my_mutex', key_extra='lock')
    for fn in facts.get(D2 + 'predecessor_cache::get_item_impl'):
        pops = calls_named(fn, ('internal_pop',))
        back = calls_named(fn, ('register_successor', 'add'))
        if not pops:
            raise AnalysisBroken('predecessor_cache::get_item_impl: internal_pop not found')
        for pos, s, node, d in pops:
            reached, ex, par = fn.walk(pos, stop_elem=lambda p, e: p in set(c[0] for c in back))
            again = [q for q in reached if q == pos]
            rep.ob('D4', 'K3', fn, 'a predecessor taken from the cache is re-added or re-registered on every path', not ex and not again,
                   'a predecessor edge disappears from the cache: its messages are never pulled again', ln=node['ln'])
        before, info = lockset(fn, LOCKCLS)
        rep.ob('D4', 'K5', fn, 'the predecessor queue is popped under the cache mutex', all(before.get(c[0], frozenset()) for c in pops), 'internal_pop without my_mutex')
    for fn in facts.get(D2 + 'reservable_predecessor_cache::try_reserve_impl', required=False):
        pops = calls_named(fn, ('internal_pop',))
        back = calls_named(fn, ('register_successor', 'add'))
        rs = [(p, o) for p, o in atomics_on(fn, 'reserved_src', kinds=('store',))]
        for pos, s, node, d in pops:
            reached, ex, par = fn.walk(pos, stop_elem=lambda p, e: p in set(c[0] for c in back))
            # leaving with the predecessor reserved is fine: it is parked in reserved_src (checked: the store precedes the try_reserve)
            ok = bool(rs)
            rep.ob('D4', 'K3', fn, 'a predecessor taken for reservation is parked in reserved_src or given back', ok, 'reserved predecessor dropped', ln=node['ln'])
    from rules.C15 import join_forwarding
    join_forwarding(facts, rep, 'D4')
    d4_offer_on_registration(facts, rep)
    d4_edge_removal_notifies_once(facts, rep)
    rep.floor('D4', 22, 'rejection handling')


def d5_wait(facts, rep):
    for fn in facts.get(D2 + 'graph_task::(ctor)'):
        rs = calls_named(fn, ('reserve',))
        ok = bool(rs) and every_path_passes(fn, 'entry', lambda p, e: p in set(c[0] for c in rs))[0]
        rep.ob('D5', 'K3', fn, 'every graph task reserves the wait vertex when it is created', ok, 'no reserve() in graph_task constructor')
    for fn in facts.get(D2 + 'graph_task::finalize'):
        dd = calls_named(fn, ('destruct_and_deallocate',))
        rl = calls_named(fn, ('release',))
        ok = bool(dd) and bool(rl) and all(every_path_passes(fn, 'entry', lambda p, e: p in set(c[0] for c in dd), end=r[0])[0] for r in rl) and \
            every_path_passes(fn, 'entry', lambda p, e: p in set(c[0] for c in rl))[0]
        rep.ob('D5', 'K4', fn, 'finalize destroys and deallocates the task and then releases the wait vertex', ok,
               'wait_for_all can return (and the graph be destroyed) while the task object is still being destroyed')
    for fn in facts.get(D2 + 'graph::reserve_wait'):
        rep.ob('D5', 'K3', fn, 'graph::reserve_wait reserves the graph wait vertex', bool(calls_named(fn, ('reserve',))), 'no reserve')
    for fn in facts.get(D2 + 'graph::release_wait'):
        rep.ob('D5', 'K3', fn, 'graph::release_wait releases the graph wait vertex', bool(calls_named(fn, ('release',))), 'no release')
    tcs = task_classes(facts)
    n = 0
    for cp in sorted(tcs):
        if 'graph_task' in ' '.join(c for cls in tcs[cp] for c in cls['allbases']):
            n += k7_task_class(facts, rep, 'D5', cp, {})
    # tasks are created only while the graph is active
    for pname in (D2 + 'function_input_base::create_body_task', D2 + 'function_input_base::create_forward_task'):
        for fn in facts.get(pname):
            no = calls_named(fn, ('new_object',))
            ia = set(c[1] for c in calls_named(fn, ('is_graph_active',)))
            act = edges_where(fn, lambda a, truth: truth and fn.strip(a) in ia)
            ok = bool(no) and bool(act) and all(dominated_by_edges(fn, c[0], act)[0] for c in no)
            rep.ob('D5', 'K4', fn, 'node tasks are created only while the graph is active', ok, 'task created for an inactive (reset/cancelled) graph',
                   key_extra=pname)
    for fn in facts.get(D2 + 'graph::wait_for_all'):
        sites = try_call_sites(facts, fn)
        inner = []
        for _, kind, bodies, hs, node in sites:
            for b in bodies:
                for g in facts.fns.values():
                    if g.kind == 'lambda' and g.d.get('lparent') == b.u:
                        inner.append(g)
                inner.append(b)
        ok = any(calls(g, pred=lambda d: d['n'] == 'wait') for g in inner) and any(calls_named(g, ('execute',)) for g in inner)
        rep.ob('D5', 'K4', fn, 'wait_for_all waits on the graph wait context inside the graph arena', ok, 'wait_for_all no longer waits in the arena')
    rep.floor('D5', 12, 'wait accounting')



# ---------------------------------------------------------------------------------------------------------------
# D6: a reserved item belongs to the successor that reserved it until that successor consumes or releases it
# ---------------------------------------------------------------------------------------------------------------
ITEM_PRIMITIVES = ('destroy_front', 'destroy_back', 'destroy_item', 'reserve_item', 'move_item', 'fetch_item')
# operation kinds whose handler may touch items without asking about a reservation, with the reason
RESERVATION_EXEMPT = {
    'con_res': 'issued by the holder of the reservation: completes it',
    'rel_res': 'issued by the holder of the reservation: gives it back',
    'put_item': 'adds an item; never removes one',
    'reg_succ': 'touches the successor list only',
    'rem_succ': 'touches the successor list only',
}


def mentions_reservation(fn, s):
    for x in fn.subtree(s):
        n = fn.nodes[x]
        if n.get('k') == 'member' and n.get('n') == 'my_reserved':
            return True
        if n.get('k') == 'enum' and n.get('n') == 'reserved_item':
            return True
    return False


def d6_reservation(facts, rep):
    """For every buffer-node handler (buffer/queue/sequencer/priority_queue instantiations) and every operation kind that
    is not exempt: on every inter-procedural path from the operation's case label to a primitive that destroys, moves or
    reserves a buffered item, a branch has consulted the reservation state (my_reserved / the reserved_item slot state).
    Necessary condition of "a message is delivered exactly once": without it a reserved item is also handed to a second
    consumer (try_get, forwarder, second reservation).  The polarity of the test is not decided."""
    from engine.rules import dataflow_must
    scope = set()
    for p, cs in facts.classes.items():
        for c in cs:
            if p == D2 + 'buffer_node' or (D2 + 'buffer_node') in c['allbases']:
                scope.add(p)
                scope |= set(b for b in c['allbases'] if 'item_buffer' in b)
    handlers = [fn for fn in facts.fns.values() if fn.cls in scope and fn.p.endswith('::handle_operations_impl')]
    if not handlers:
        raise AnalysisBroken('no buffer_node::handle_operations_impl instantiation found')

    memo = {}

    def consult_edges(fn):
        out = set()
        for b, blk in fn.blocks.items():
            t = blk.get('term')
            if t and 'c' in t and len(blk['succ']) == 2 and mentions_reservation(fn, t['c']):
                out.add((b, 0))
                out.add((b, 1))
        return out

    def depth(cls):
        return max([len(c['allbases']) for c in facts.classes.get(cls, [])] or [0])

    def targets(fn, e, kind_cls):
        """callees inside the buffer classes; a virtual call on the node dispatches to the final overrider of the node
        class the handler was instantiated for (handle_operations_impl<derived_type>)"""
        u = elem_fn_uid(e, fn)
        if not u:
            return []
        if isinstance(e, int) and fn.nodes[e].get('virt'):
            line = set([kind_cls])
            for c in facts.classes.get(kind_cls, []):
                line |= set(c['allbases'])
            c = [facts.fns[x] for x in [u] + list(facts.overriders(u)) if x in facts.fns and facts.fns[x].cls in line]
            if not c:
                return []
            best = max(depth(g.cls) for g in c)
            return [g for g in c if depth(g.cls) == best]
        return [facts.fns[u]] if u in facts.fns and facts.fns[u].cls in scope else []

    def analyse(fn, kind_cls, stack=()):
        """entered WITHOUT a consulted reservation: returns (list of (chain, line) unconsulted primitive sites,
        must-consulted at every return)"""
        if (fn.u, kind_cls) in memo:
            return memo[(fn.u, kind_cls)]
        if fn.u in stack:
            return ([], False)
        ce = consult_edges(fn)
        bad = []
        post = {}       # call element -> callee guarantees consultation on return

        def tr_elem(st, pos, e):
            if not isinstance(e, int) or fn.nodes[e].get('k') != 'call':
                return st
            d = fn.callee(e) or {}
            if 'C' not in st:
                if d.get('n') in ITEM_PRIMITIVES and d.get('cls') in scope:
                    bad.append(([fn.q], fn.nodes[e].get('ln'), d.get('n')))
                else:
                    allc = True
                    ts = targets(fn, e, kind_cls)
                    for g in ts:
                        vb, cons = analyse(g, kind_cls, stack + (fn.u,))
                        for chain, ln, prim in vb:
                            bad.append(([fn.q + ':%s' % fn.nodes[e].get('ln')] + chain, ln, prim))
                        allc = allc and cons
                    if ts and allc:
                        return st | {'C'}
            return st

        def tr_edge(st, b, si):
            return st | {'C'} if (b, si) in ce else st
        before, outb = dataflow_must(fn, tr_elem, tr_edge)
        # state at return: the exit block's incoming states
        ex_states = [outb[b] for b in fn.blocks if b in outb and fn.exit in [x for x in fn.blocks[b]['succ'] if x is not None]]
        cons = bool(ex_states) and all('C' in st for st in ex_states)
        # the fix-point may have visited a call several times: de-duplicate
        uniq = {}
        for chain, ln, prim in bad:
            uniq[(tuple(chain), ln, prim)] = (chain, ln, prim)
        memo[(fn.u, kind_cls)] = (list(uniq.values()), cons)
        return memo[(fn.u, kind_cls)]

    n = 0
    node_kinds = sorted(p for p in scope if 'item_buffer' not in p)
    if len(node_kinds) < 4:
        raise AnalysisBroken('D6: expected buffer, queue, sequencer and priority_queue node classes, found %s' % node_kinds)
    pairs = []
    for kind_cls in node_kinds:
        line = set([kind_cls])
        for c in facts.classes.get(kind_cls, []):
            line |= set(c['allbases'])
        hops = [fn for fn in facts.fns.values() if fn.cls in line and fn.p.endswith('::handle_operations')]
        if not hops:
            raise AnalysisBroken('D6: %s has no handle_operations' % kind_cls)
        best = max(depth(g.cls) for g in hops)
        seen_impl = set()
        for hop in hops:
            if depth(hop.cls) != best:
                continue
            for pos, cs, cn, cd in calls(hop):
                g = facts.fns.get(cn.get('fn'))
                if g is not None and g.p.endswith('::handle_operations_impl') and g.p not in seen_impl:
                    # one representative instantiation per (node kind, element type) is enough: all are analysed
                    pairs.append((kind_cls, g))
    if not pairs:
        raise AnalysisBroken('D6: no handle_operations -> handle_operations_impl call found')
    for kind_cls, h in pairs:
        label = kind_cls.replace(D2, '')
        for b, blk in h.blocks.items():
            t = blk.get('term')
            if not t or t.get('k') != 'SwitchStmt':
                continue
            for si, lab in h.switch_edges(b):
                if not lab or 'case' not in lab:
                    continue
                kind = lab.get('n')
                if kind in RESERVATION_EXEMPT:
                    continue
                # calls in the case body (until the break leaves the switch: the blocks dominated by the case label)
                start = blk['succ'][si]
                case_blocks = set()
                work = [start]
                while work:
                    x = work.pop()
                    if x in case_blocks:
                        continue
                    case_blocks.add(x)
                    for sx in h.blocks[x]['succ']:
                        # stay inside the case: stop at the join block after the switch (it has a predecessor outside)
                        if sx is not None and h.blocks[sx].get('label') is None and all(p in case_blocks or p == x for p in h.preds().get(sx, [])):
                            work.append(sx)
                viol = []
                ncalls = 0
                for cb in case_blocks:
                    for e in h.blocks[cb]['e']:
                        if isinstance(e, int) and h.nodes[e].get('k') == 'call':
                            for g in targets(h, e, kind_cls):
                                ncalls += 1
                                vb, cons = analyse(g, kind_cls)
                                for chain, ln, prim in vb:
                                    viol.append('%s -> %s() at line %s' % (' -> '.join(chain), prim, ln))
                if ncalls == 0:
                    continue
                n += 1
                rep.ob('D6', 'K4', h, 'operation %s of %s consults the reservation before it destroys, moves or reserves an item' % (kind, label),
                       not viol, 'an item can leave the buffer although another successor holds a reservation on it (delivered twice, '
                       'and the reservation is then completed on a slot that is gone): ' + '; '.join(sorted(set(viol))[:2]),
                       key_extra='%s/%s' % (label, kind))
    if n == 0:
        raise AnalysisBroken('D6: no non-exempt operation kinds found in the buffer handlers')
    # input_node: the cached item is copied out (try_get, try_reserve, try_reserve_apply_body) only on a path on which
    # my_reserved was seen false -- the cached item is reserved for one successor at a time
    ni = 0
    for fn in facts.fns.values():
        if fn.cls != D2 + 'input_node':
            continue
        outs = [(pos, sx) for pos, sx, l, r in assignments(fn) if last_member(fn, r) == 'my_cached_item']
        if not outs:
            continue

        def not_reserved(a, truth):
            nd = fn.n(fn.strip(a))
            return (not truth) and nd.get('k') == 'member' and nd.get('n') == 'my_reserved'
        nr = edges_where(fn, not_reserved)
        for pos, sx in outs:
            ni += 1
            ok, wit = dominated_by_edges(fn, pos, nr)
            rep.ob('D6', 'K4', fn, 'input_node hands its cached item out only when it is not reserved (line %s)' % fn.nodes[sx].get('ln'), ok,
                   'the cached item is copied to a second consumer while a reservation is outstanding: ' + wit, ln=fn.nodes[sx].get('ln'),
                   key_extra=str(fn.nodes[sx].get('ln')))
    if ni < 3:
        raise AnalysisBroken('D6: input_node copy-out sites found: %d (expected try_get, try_reserve, try_reserve_apply_body)' % ni)
    rep.floor('D6', 11, 'buffer operation kinds x node classes + input_node copy-out sites')



# ---------------------------------------------------------------------------------------------------------------
def d5_inline_bodies(facts, rep):
    """"After cancellation or an exception no further body starts".  A body that runs in a graph task is covered by the
    dispatcher (it calls cancel() instead of execute() for a cancelled group, C03-D1).  A `lightweight` body is run inline by
    the sender's try_put_task, inside a task that is already running: nothing consults the cancellation state unless the
    node code does.  Rule: outside task classes, a call of apply_body_bypass is dominated by a test of the group's
    cancellation state (is_group_execution_cancelled / is_cancelled)."""
    tcls = set()
    for p_, cs in facts.classes.items():
        for c in cs:
            if p_ == 'tbb::detail::d1::task' or 'tbb::detail::d1::task' in c['allbases']:
                tcls.add(p_)
    CONSULT = ('is_group_execution_cancelled', 'is_cancelled', 'is_current_task_group_canceling')
    sites = {}
    for fn in facts.fns.values():
        if 'flow_graph' not in fn.file or fn.cls in tcls:
            continue
        ab = calls_named(fn, ('apply_body_bypass',))
        if not ab:
            continue
        cons = set(c[1] for c in calls_named(fn, CONSULT))

        def consulted(a, truth):
            return bool(fn.subtree(a) & cons)
        ce = edges_where(fn, consulted)
        for pos, sx, node, d in ab:
            ok = bool(ce) and dominated_by_edges(fn, pos, ce)[0]
            key = (fn.p, 'unlimited' if any(fn.nodes[x].get('k') == 'member' and fn.nodes[x].get('n') == 'my_max_concurrency' for b2 in fn.blocks.values()
                                           for t2 in [b2.get('term')] if t2 and 'c' in t2 and dominated_by_edges(fn, pos, {(b2['id'], 0)})[0]
                                           for x in fn.subtree(t2['c'])) else 'limited')
            ent = sites.setdefault(key, [fn, True, node['ln']])
            ent[1] = ent[1] and ok
    if not sites:
        raise AnalysisBroken('no inline apply_body_bypass call found (lightweight policy not instantiated?)')
    for (pname, variant), (fn, ok, ln) in sorted(sites.items()):
        rep.ob('D5', 'K4', fn, 'an inline (lightweight) body of %s [%s] starts only after the cancellation state was consulted' % (pname.split('::')[-2], variant), ok,
               'the lightweight body is run inside the sender\'s task without looking at the group context: it starts after graph::cancel() / '
               'after an exception cancelled the graph', ln=ln, key_extra='%s|%s' % (pname, variant))


def d4_offer_on_registration(facts, rep):
    """"A message that a successor rejects is kept and offered again": the senders that keep messages are told that a successor is
    (again) willing to take one by register_successor - an edge is made, or a receiver that had reversed the edge (pull state)
    gives it back.  Each of them must then look for something to hand over: from the point where the successor is entered into
    the successor cache, a push attempt (a forwarding task is created / spawned, or the value is put directly) is reachable - in
    the same function, or, when the registration sits in a helper of an aggregator handler (buffer_node::internal_reg_succ), in
    the handler after the call.  Sibling agreement over the five keeping senders, frozen after reading each of them:
    input_node, buffer_node (queue / priority_queue / sequencer inherit it), limiter_node, overwrite_node (write_once inherits),
    join_node_base."""
    KEEPERS = ('input_node', 'buffer_node', 'limiter_node', 'overwrite_node', 'join_node_base')
    PUSH = ('spawn_put', 'try_put', 'try_put_task', 'spawn_in_graph_arena', 'enqueue_in_graph_arena', 'try_forward', 'create_put_task')

    def push_attempt(f, e, depth=0):
        if not isinstance(e, int):
            return False
        nd = f.nodes[e]
        if nd.get('k') != 'call':
            return False
        d = f.callee(e) or {}
        if d.get('n') in PUSH:
            return True
        if d.get('n') == 'new_object' and 'task' in (d.get('q') or ''):
            return True
        # a helper of the same class hierarchy that does it (the spawn may be factored out)
        g = facts.fns.get(nd.get('fn'))
        if g is not None and depth < 2 and g.u != f.u and (g.cls or '').startswith(D2):
            return any(push_attempt(g, e2, depth + 1) for b2, i2, e2 in g.iter_elems())
        return False

    from rules.common import handler_iterations

    def reachable_push(f, pos, registration=True):
        # within one operation of an aggregator handler: the walk stops where the handler takes the next operation.
        # Either order counts: the push attempt follows the registration, or (overwrite_node) the value was put to the new
        # successor first and the successor is entered because it accepted.
        adv = set(p_ for p_, _, _, _ in handler_iterations(f))
        reached, ex, par = f.walk(pos, stop_elem=lambda p_, e: p_ in adv)
        if any(push_attempt(f, f.elems(q[0])[q[1]]) for q in reached if q != pos):
            return True
        if registration:
            for b, i, e in f.iter_elems():
                if push_attempt(f, e):
                    r2, _, _ = f.walk((b, i), stop_elem=lambda p_, e2: p_ in adv)
                    if pos in r2:
                        return True
        return False
    found = {}
    for fn in facts.fns.values():
        cls = (fn.cls or '')
        short = cls.split('::')[-1]
        if not cls.startswith(D2) or short not in KEEPERS:
            continue
        for pos, s, node, d in calls_named(fn, ('register_successor',)):
            if not (d.get('cls') or '').endswith('_cache') and 'successor_cache' not in (d.get('cls') or ''):
                continue
            ok = reachable_push(fn, pos)
            if not ok:
                # registration inside a helper of the aggregator handler: look behind the call in its callers (and the callers of
                # the virtual it overrides)
                uids = [fn.u] + [u for u in fn.d.get('overrides', [])]
                for u in uids:
                    for (g, cpos, cs) in facts.callers(u):
                        if reachable_push(g, cpos, registration=False):
                            ok = True
            key = (short, fn.p)
            cur = found.get(key)
            found[key] = (fn, node, (cur[2] if cur else False) or ok)
    seen_classes = set(k[0] for k in found)
    missing = [k for k in KEEPERS if k not in seen_classes]
    if missing:
        raise AnalysisBroken('successor registration of %s not found' % missing)
    for (short, p), (fn, node, ok) in sorted(found.items()):
        rep.ob('D4', 'K7', fn, '%s offers what it keeps when a successor is registered (%s)' % (short, p.split('::')[-1]), ok,
               'no push attempt is reachable after the successor was entered: a message this node kept (because it was rejected, or arrived '
               'before the edge existed) is never offered to the receiver that now (again) wants it - it stays in the graph for ever',
               ln=node['ln'], key_extra='offer|%s|%s' % (short, p))


def d1_batch_flags_only_raised(facts, rep):
    """An aggregator handler processes a whole batch of operations in one loop and decides AFTER the loop, from local flags, what
    else has to happen (here: whether a forwarding task must be created so that buffered items are offered to the
    successors).  Such a flag is a request raised by some operation of the batch; a later operation of the same batch must not
    withdraw it.  Rule: a local variable that is false-initialised before the operation loop and tested after it is only
    raised inside the loop: every assignment to it in the loop stores the constant true, or ORs the old value in."""
    from rules.common import handler_iterations
    n = 0
    for fn in facts.fns.values():
        if not (fn.cls or '').startswith(D2):
            continue
        its = handler_iterations(fn)
        if not its:
            continue
        adv = its[0][0]
        reached, ex, par = fn.walk(adv)
        if adv not in reached:
            continue
        loop = set(q for q in reached if fn.can_reach(q, adv))
        defs = Defs(fn)
        # candidate flags: locals of bool type initialised to a constant 0
        flags = {}
        for pos, sx, nd in fn.stmt_elems(('decl',)):
            for v in nd['vars']:
                if v.get('ty') == 'bool' and 'init' in v and fn.cv(v['init']) == 0 and pos not in loop:
                    flags[v['v']] = v['n']
        for vid, name in sorted(flags.items()):
            # tested after the loop?
            tested = False
            for b, blk in fn.blocks.items():
                t = blk.get('term')
                if t and 'c' in t and (b, len(blk['e'])) not in loop:
                    if any(fn.nodes[x].get('k') == 'var' and fn.nodes[x].get('v') == vid for x in fn.subtree(t['c'])) and \
                            not any(q[0] == b for q in loop):
                        tested = True
            if not tested:
                continue
            bad = []
            for (v2, dn), val in defs.value_of.items():
                if v2 != vid:
                    continue
                dpos = fn.pos_of(dn)
                if dpos not in loop:
                    continue
                if val is None:
                    dnode = fn.nodes[dn]
                    if dnode.get('k') == 'binop' and dnode.get('op') == '|=':
                        continue
                    bad.append(dnode.get('ln'))
                    continue
                c = fn.cv(val)
                if c is not None and c != 0:
                    continue
                vn = fn.n(fn.strip(val))
                if vn.get('k') == 'binop' and vn.get('op') in ('||', '|') and \
                        any(fn.nodes[x].get('k') == 'var' and fn.nodes[x].get('v') == vid for x in fn.subtree(fn.strip(val))):
                    continue
                bad.append(fn.nodes[dn].get('ln'))
            n += 1
            rep.ob('D1', 'K3', fn, 'the batch flag `%s` of %s is only raised while the batch is handled' % (name, fn.p.split('::')[-2] + '::' + fn.p.split('::')[-1]),
                   not bad, 'assignment(s) at line %s can reset the flag: a request raised by an earlier operation of the same batch (a released '
                   'reservation, a new successor) is withdrawn by a later one (a rejected put) - no forwarding task is created and the item '
                   'that should be offered again stays in the buffer' % sorted(set(bad)), key_extra='batchflag|%s|%s' % (fn.p, name))
    if n < 1:
        raise AnalysisBroken('no batch flag found in the flow-graph aggregator handlers (buffer_node try_forwarding)')


def d4_edge_removal_notifies_once(facts, rep):
    """A continue_node counts its predecessors: make_edge raises the count once (the successor cache of a continue_msg sender
    registers the sender with a continue receiver), remove_edge must lower it once.  The removal notification has two possible
    origins - the sender's remove_successor() calling remove_predecessor(r, *this) itself, and successor_cache<continue_msg>::
    remove_successor doing it for every receiver.  Rule (pairing, per instantiation with continue_msg): a sender whose successor
    cache notifies the receiver does not notify it a second time.  A double notification makes the node fire after fewer
    signals than it has predecessors."""
    cache_notifies = False
    for fn in facts.by_p.get(D2 + 'successor_cache::remove_successor', []):
        if 'successor_cache<tbb::detail::d2::continue_msg' in fn.q and calls_named(fn, ('remove_predecessor',)):
            cache_notifies = True
    n = 0
    for fn in facts.fns.values():
        if not fn.p.endswith('::remove_successor') or 'continue_msg>::remove_successor' not in fn.q or '_cache' in fn.p:
            continue
        if not (fn.cls or '').startswith(D2):
            continue
        n += 1
        explicit = [c for c in calls_named(fn, ('remove_predecessor',)) if (c[3].get('p') or '') == D2 + 'remove_predecessor']
        rep.ob('D4', 'K3', fn, '%s<continue_msg>::remove_successor tells the receiver once that the edge is gone' % fn.p.split('::')[-2],
               not (explicit and cache_notifies), 'the function calls remove_predecessor(r, *this) (line %s) and its successor cache '
               '(successor_cache<continue_msg>::remove_successor) calls r.remove_predecessor() again: a continue_node loses two '
               'predecessors for one removed edge and fires one signal early' % [c[2]['ln'] for c in explicit],
               key_extra='rm-once|%s' % fn.p)
    if n < 3:
        raise AnalysisBroken('senders of continue_msg are not instantiated by the driver (%d remove_successor instances)' % n)


def d5_handler_task_picked_up(facts, rep):
    """The thread that handles an aggregator batch runs the operations of every thread in the batch and attaches the forwarding
    task it creates to ITS OWN operation record (`tmp->ltask`), whatever kind that operation is (a rem_succ as well).  The task
    holds a graph wait reference and is the only way the buffered items get forwarded (forwarder_busy stays set).  So every
    function that submits an operation to the aggregator looks at the operation's ltask afterwards, on every path: it passes the
    record to enqueue_forwarding_task / grab_forwarding_task or reads op.ltask itself.  Sibling agreement over all submitters
    of buffer_node (queue / priority_queue / sequencer inherit them)."""
    n = 0
    seen = set()
    for fn in facts.fns.values():
        if not (fn.cls or '').startswith(D2 + 'buffer_node'):
            continue
        ex = [c for c in calls_named(fn, ('execute',)) if last_member(fn, c[2].get('obj', -1)) == 'my_aggregator' and c[2].get('a')]
        for pos, sx, node, d in ex:
            an = fn.n(fn.strip(node['a'][0]))
            if an.get('k') == 'unop' and an.get('op') == '&':
                an = fn.n(fn.strip(an['sub']))
            vid = an.get('v') if an.get('k') == 'var' else None
            if vid is None:
                continue

            def picks(p_, e_, vid=vid):
                if not isinstance(e_, int):
                    return False
                nd = fn.nodes[e_]
                if nd.get('k') == 'call' and (fn.callee(e_) or {}).get('n') in ('enqueue_forwarding_task', 'grab_forwarding_task'):
                    return any(fn.nodes[x].get('k') == 'var' and fn.nodes[x].get('v') == vid for a in nd.get('a', []) for x in fn.subtree(a))
                for x in fn.subtree(e_):
                    xn = fn.nodes[x]
                    if xn.get('k') == 'member' and xn.get('n') == 'ltask':
                        r = fn.n(root_of(fn, x))
                        if r.get('k') == 'var' and r.get('v') == vid:
                            return True
                return False
            ok, wit = every_path_passes(fn, pos, picks)
            n += 1
            rep.ob('D5', 'K7', fn, '%s picks up the task the batch handler may have attached to its operation' % fn.p.split('::')[-1], ok,
                   'after my_aggregator.execute(&op) the operation\'s ltask is ignored on some path: when this thread was the handler of a '
                   'batch in which another thread\'s put / release requested forwarding, the forwarding task is dropped - the item stays '
                   'buffered, forwarder_busy stays set, the task\'s wait reference is never released (wait_for_all hangs): ' + wit,
                   ln=node['ln'], key_extra='ltask|%s' % fn.p)
    if n < 6:
        raise AnalysisBroken('buffer_node: submitters of aggregator operations: %d found, at least 6 expected' % n)


def d1_handler_survives_user_exceptions(facts, rep):
    """Every buffering / limiting / joining node funnels its operations through an aggregator: the thread that finds the
    pending list empty becomes the handler, raises handler_busy, runs the node's handle_operations on the whole batch and
    lowers handler_busy.  The handlers copy user data (a message put into a queue_node or queued in front of a busy
    function_node is copied inside the handler).  If such a copy throws, the exception leaves the handler: handler_busy is
    never lowered and the other operations of the batch never get a status - every later operation on the node spins for ever
    (no message is forwarded any more, wait_for_all does not return).  Rule: where the handler of an instantiation can raise a
    user exception, start_handle_operations lowers handler_busy on the exceptional path as well (exit_coverage)."""
    from rules.common import MayThrow, exit_coverage
    from engine.rules import Summaries
    mt = MayThrow(facts, external_may_throw=False)
    summ = Summaries(facts, max_depth=2)
    fs = facts.get('tbb::detail::d1::aggregator_generic::start_handle_operations')

    def lowers(g, pos, e):
        if not isinstance(e, int):
            return False
        op = atomic_op(g, e)
        return bool(op and op['kind'] == 'store' and last_member(g, op['obj']) == 'handler_busy' and g.cv(op.get('val', -1)) == 0)
    n = nthrow = 0
    ok_all = True
    examples = []
    anchor = None
    for fn in fs:
        def throwing_handler(g, pos, e):
            return isinstance(e, int) and g.nodes[e].get('k') == 'call' and g.nodes[e].get('op') == '()' and mt.node(g, e)
        n += 1
        nops, normal_ok, exc_ok, notes = exit_coverage(facts, summ, fn, throwing_handler, lowers, 'lowers-handler-busy')
        if not nops:
            continue
        nthrow += 1
        anchor = anchor or fn
        if not exc_ok:
            ok_all = False
            examples.append(fn.q.split('aggregating_functor<')[-1].split(',')[0][:60])
    if n < 6:
        raise AnalysisBroken('aggregator_generic::start_handle_operations: %d instantiations in the flow graph driver (expected >= 6)' % n)
    if nthrow == 0:
        raise AnalysisBroken('no flow graph aggregator handler can raise a user exception: the may-throw analysis lost the message copies')
    rep.ob('D1', 'K9', anchor, 'a user exception raised inside an aggregator handler does not leave handler_busy set', ok_all,
           '%d of %d handler instantiations copy user data outside any try block (%s ...) and start_handle_operations lowers handler_busy only on '
           'the normal path: when the copy of a message throws inside the handler, every later operation on that node spins for ever'
           % (len(examples), n, ', '.join(sorted(set(examples))[:3])), key_extra='handler-busy')


def d1_ending_a_reservation_restarts_forwarding(facts, rep):
    """While the front item of a buffering node is reserved the node does not forward (the forwarder stops at a reserved
    buffer).  The operation that ends the reservation - release or consume, i.e. whatever stores false into my_reserved - is the
    only event that can start it again: inside the aggregator handler every call that (transitively, within the node's own
    classes) clears my_reserved is followed, before the handler advances to the next operation, by raising the batch flag that
    requests a forwarding task.  Otherwise an item that was kept because it was reserved, or that arrived / became forwardable
    while the reservation was held, is never offered again ("a message that a successor rejects is kept and offered again")."""
    from rules.common import handler_iterations
    from engine.rules import Summaries
    summ = Summaries(facts, max_depth=4)

    def clears_reservation(g, pos, e):
        if not isinstance(e, int):
            return False
        nd = g.nodes[e]
        return nd.get('k') == 'binop' and nd.get('op') == '=' and last_member(g, nd['l']) == 'my_reserved' and g.cv(nd['r']) == 0
    n = 0
    for fn in sorted(facts.fns.values(), key=lambda f: f.q):
        if not (fn.cls or '').startswith(D2 + 'buffer_node') or not fn.p.endswith('handle_operations_impl'):
            continue
        its = handler_iterations(fn)
        if not its:
            continue
        adv = its[0][0]
        # the batch flags: bool locals initialised to false in front of the loop
        reached, ex, par = fn.walk(adv)
        loop = set(q for q in reached if fn.can_reach(q, adv))
        flags = set()
        for pos, sx, nd in fn.stmt_elems(('decl',)):
            for v in nd['vars']:
                if v.get('ty') == 'bool' and 'init' in v and fn.cv(v['init']) == 0 and pos not in loop:
                    flags.add(v['v'])
        raises = set(p for p, s_, l, r in assignments(fn) if fn.n(fn.strip(l)).get('k') == 'var' and fn.n(fn.strip(l)).get('v') in flags and fn.cv(r) == 1)
        for pos, s_, node, d in calls(fn):
            if pos not in loop:
                continue
            g = facts.fns.get(node.get('fn'))
            if g is None or not (g.cls or '').startswith(D2):
                continue
            if not summ.may(g, 'clears-my_reserved', clears_reservation):
                continue
            n += 1
            ok, wit = every_path_passes(fn, pos, lambda q, e: q in raises, end=adv)
            rep.ob('D1', 'K3', fn, 'an operation that ends a reservation requests forwarding (%s)' % (d or {}).get('n'), ok,
                   '%s clears my_reserved but the handler does not raise its forwarding flag afterwards (%s): the forwarder stopped at the '
                   'reserved item and nothing starts it again - the kept item is never offered to the successors' % ((d or {}).get('n'), wit),
                   ln=node.get('ln'), key_extra='unreserve|%s' % (d or {}).get('n'))
    if n < 2:
        raise AnalysisBroken('buffer_node::handle_operations_impl: operations that clear my_reserved: %d (expected release and consume)' % n)
