"""C18 - tbbmalloc fails cleanly; memory pools stay inside and give back their raw memory.  (DESIGN.md section 4, C18)"""
from engine.facts import AnalysisBroken, atomic_op, atomic_ops, has_acquire, has_release
from engine.rules import (calls, calls_named, every_path_passes, last_member, is_call_to, Defs, resolve_cond_source, oname,
                          edges_where, dominated_by_edges, member_accesses, root_of, assignments, value_root, atomics_on, lockset,
                          access_kind)
from rules.malloc_common import MALLOC_UNITS, errno_sets, var_of, nonnull_edges, null_edges

UNITS = MALLOC_UNITS + ['drivers/memory_pool.cpp']
RI = 'rml::internal::'

EXPLANATION = (
    'Decides: D1 entry-point error discipline: alignment validity (isPowerOfTwo / isPowerOfTwoAtLeast) dominates allocateAligned '
    'in every aligned entry point, calloc cannot reach the allocation on the overflow edge, every null-returning path of a '
    'scalable_* entry point sets errno (ENOMEM or EINVAL) except the documented free-on-zero-size paths, posix_memalign returns '
    'ENOMEM for a null block and writes *memptr only on success; D2 null propagation: the result of a nullable internal allocator '
    '(frozen table) is tested before it is dereferenced, passed to memset/memcpy or aligned; D3 pools use only their own raw '
    'memory: the user callbacks rawAlloc/rawFree are invoked only by Backend::allocRawMem/freeRawMem, the OS mapping functions '
    'are reachable only on the !userPool() edge, a fixed pool asks its callback at most once (early return once bootstrap is '
    'done), pool_destroy runs destroy() before freeing the pool object, pool_create_v1 frees the object when init fails and nulls '
    '*pool on every failing return, memory_pool_allocator throws bad_alloc on null.  Heap integrity after an injected failure at '
    'every index, exactly-once return of every raw region and pool_identify correctness are NOT decided.')
EXPLANATION += ' Added after the seeded-change rounds: ' + 'D2 also: a TLSData pointer that comes from getTLS (or a parameter that receives one untested) is dereferenced only where it was tested for null (one reasoned exception).'
EXPLANATION += ' Added in the third session (round-3 seeds and the findings they led to): ' + 'D1 also: every size derived from the requested size by additions is checked for wrap-around against its predecessor before memory is obtained (large-object cache, remap); calloc skips the exact overflow test only when both factors are below 2^32 (path-sensitive); allocate(n) of the four C++ allocator templates bounds n before multiplying by the element size.'
EXPLANATION += ' Added in the fourth round of seeded changes: ' + 'D2 also: a back reference index obtained from newBackRef() reaches removeBackRef / setBackRef only on edges where isInvalid() was tested and found false.'
EXPLANATION += ' Added in the fifth round: ' + "D3 also: a block is cut in the middle (fixed pools) only if each of the two leftovers is separately tested 'empty or >= FreeBlock::minBlockSize' on a value derived from the aligned position."
ASSUMPTIONS = ['errno is *__errno_location() (glibc)', 'Linux configuration']
ND = ['heap integrity after an injected failure at every allocation index', 'exactly-once return of every raw region',
      'pool_identify correctness']

NULLABLE = ('internalPoolMalloc', 'internalMalloc', 'allocateAligned', 'reallocAligned', 'getFromLLOCache', 'mallocLargeObject',
            'getEmptyBlock', 'genericGetBlock', 'getSlabBlock', 'getLargeBlock', 'addNewRegion', 'allocRawMem', 'getRawMemory',
            'getBackRefSpace', 'allocate', 'malloc', 'mallocBigBlock', 'findRegion', 'askMemFromOS', 'releaseCachesToLimit')
DEREF_SINKS = ('memset', 'memcpy', 'alignUp', 'memmove')


def run(facts, rep):
    d1_entry(facts, rep)
    d2_null(facts, rep)
    d2_nullable_tls(facts, rep)
    d2_backref_validity(facts, rep)
    d3_pools(facts, rep)
    d3_middle_cut_leftovers(facts, rep)


def d1_size_chain(facts, rep):
    """"When a requested size cannot be represented (overflow in size + header + alignment) every entry point reports failure":
    the large-object paths enlarge the caller's size in steps (size + headers + alignment, rounded up to a bin / to the OS
    granularity).  Each enlarged value can wrap around; a wrapped value is small, the request then "succeeds" with a block or
    a mapping that is far too small.  Rule: in the functions below, every local size that is derived from the requested size by an
    addition (directly or through another derived size) is compared with the value it was derived from on an edge that
    dominates the point where it is used to obtain memory (mallocLargeObject / the large-object cache / mremap)."""
    SITES = {
        'rml::internal::MemoryPool::getFromLLOCache': ('mallocLargeObject', 'get'),
        'rml::internal::Backend::remap': ('mremap',),
    }
    n = 0
    for pname, users in sorted(SITES.items()):
        for fn in facts.get(pname):
            defs = Defs(fn)
            params = dict((pp['v'], pp.get('n')) for pp in fn.d.get('params', []) if 'size_t' in (pp.get('ty') or '') or 'unsigned long' in (pp.get('ty') or ''))
            derived = {}          # vid -> set of predecessor vids (params or derived)
            names = dict(params)
            changed = True
            while changed:
                changed = False
                for (vid, dn), val in defs.value_of.items():
                    if val is None or vid in params:
                        continue
                    sub = fn.subtree(val)
                    if not any(fn.nodes[x].get('k') == 'binop' and fn.nodes[x].get('op') == '+' for x in sub):
                        continue
                    preds = set(fn.nodes[x].get('v') for x in sub if fn.nodes[x].get('k') == 'var' and
                                (fn.nodes[x].get('v') in params or fn.nodes[x].get('v') in derived))
                    preds.discard(vid)
                    if preds and derived.get(vid) != preds:
                        derived[vid] = preds
                        names[vid] = next((v['n'] for nd in fn.nodes if nd.get('k') == 'decl' for v in nd['vars'] if v['v'] == vid), str(vid))
                        changed = True
            uses = [c for c in calls(fn) if (c[3] or {}).get('n') in users]
            if not derived or not uses:
                raise AnalysisBroken('%s: derived sizes / memory-obtaining call not found' % pname)
            def cone(node):
                vs = set()
                for a in node.get('a', []):
                    vs |= set(fn.nodes[x].get('v') for x in fn.subtree(a) if fn.nodes[x].get('k') == 'var')
                work = list(vs)
                while work:
                    v = work.pop()
                    for p_ in derived.get(v, ()):
                        if p_ not in vs:
                            vs.add(p_)
                            work.append(p_)
                return vs
            cones = dict((c[1], cone(c[2])) for c in uses)
            for vid, preds in sorted(derived.items()):
                # only sizes that reach the memory-obtaining calls matter: directly as argument or through a later derived size
                def compared(a, truth, vid=vid, preds=preds):
                    nd = fn.n(fn.strip(a))
                    if nd.get('k') != 'binop' or nd['op'] not in ('<', '<=', '>', '>='):
                        return False
                    l, r = fn.n(fn.strip(nd['l'])), fn.n(fn.strip(nd['r']))
                    vs = set(x.get('v') for x in (l, r) if x.get('k') == 'var')
                    return vid in vs and bool(vs & preds)
                e = edges_where(fn, compared)
                for pos, sx, node, d in uses:
                    if vid not in cones[sx]:
                        continue
                    n += 1
                    ok, wit = dominated_by_edges(fn, pos, e)
                    rep.ob('D1', 'K14', fn, 'the enlarged size `%s` is checked for wrap-around against `%s` before %s is called'
                           % (names.get(vid), '/'.join(sorted(names.get(p_, '?') for p_ in preds)), d.get('n')), ok,
                           'a request close to SIZE_MAX wraps `%s` to a small value: the call succeeds with far too little memory behind the '
                           'returned pointer (%s)' % (names.get(vid), wit), ln=node['ln'], key_extra='chain|%s|%s|%s' % (pname, names.get(vid), d.get('n')))
    if n < 4:
        raise AnalysisBroken('size chains: fewer obligations than confirmed by reading (%d)' % n)


def d1_cxx_allocators(facts, rep):
    """'... nobj*size cannot be represented: every allocation entry point reports failure (... std::bad_alloc from the C++
    allocators)'.  allocate(n) of the library's C++ allocators asks the C layer for n * sizeof(T) bytes.  The product wraps for
    n > SIZE_MAX / sizeof(T) and a tiny block is returned for a huge array.  Rule: in every allocate(n) of the allocator class
    templates, a multiplication of the element count with a constant that reaches an allocation call is dominated by a branch
    edge that bounds the count from above (n <= max_size() / n > limit -> throw)."""
    CLS = ('scalable_allocator', 'cache_aligned_allocator', 'tbb_allocator', 'memory_pool_allocator')
    n = 0
    for fn in facts.fns.values():
        cls = (fn.cls or '').split('::')[-1]
        if cls not in CLS or not fn.p.endswith('::allocate'):
            continue
        pv = [pp['v'] for pp in fn.d.get('params', [])][:1]
        if not pv:
            continue
        muls = []
        for pos, sx, node, d in calls(fn):
            for a in node.get('a', []):
                for x in fn.subtree(a):
                    nd = fn.nodes[x]
                    if nd.get('k') == 'binop' and nd['op'] == '*':
                        sides = [fn.n(fn.strip(nd['l'])), fn.n(fn.strip(nd['r']))]
                        if any(sd.get('k') == 'var' and sd.get('v') in pv for sd in sides):
                            muls.append((pos, node, d))
        if not muls:
            continue

        def bounded(a, truth):
            nd = fn.n(fn.strip(a))
            if nd.get('k') != 'binop' or nd['op'] not in ('<', '<=', '>', '>='):
                return False
            l, r = fn.n(fn.strip(nd['l'])), fn.n(fn.strip(nd['r']))
            op = nd['op'] if truth else {'<': '>=', '<=': '>', '>': '<=', '>=': '<'}[nd['op']]
            if l.get('k') == 'var' and l.get('v') in pv and op in ('<', '<='):
                return True
            if r.get('k') == 'var' and r.get('v') in pv and op in ('>', '>='):
                return True
            return False
        e = edges_where(fn, bounded)
        for pos, node, d in muls:
            n += 1
            ok, wit = dominated_by_edges(fn, pos, e, extra_elem=lambda p_, e_: is_call_to(fn, e_, shortnames=('throw_exception',)))
            rep.ob('D1', 'K14', fn, '%s::allocate(n) bounds n before it multiplies by the element size' % cls, ok,
                   'n * sizeof(T) wraps for n > SIZE_MAX / sizeof(T): %s is asked for a few bytes and the container gets a tiny block instead of '
                   'std::bad_alloc' % (d or {}).get('n'), ln=node['ln'], key_extra='cxxalloc|%s' % cls)
    if n < 4:
        raise AnalysisBroken('C++ allocator allocate(n) functions: %d found, 4 expected (drivers/memory_pool.cpp instantiates them)' % n)


def d1_entry(facts, rep):
    d1_size_chain(facts, rep)
    d1_cxx_allocators(facts, rep)
    for name, chk in (('scalable_posix_memalign', 'isPowerOfTwoAtLeast'), ('scalable_aligned_malloc', 'isPowerOfTwo'),
                      ('scalable_aligned_realloc', 'isPowerOfTwo'), ('__TBB_malloc_safer_aligned_realloc', 'isPowerOfTwo')):
        for fn in facts.get(name):
            ck = set(c[1] for c in calls_named(fn, (chk, 'isPowerOfTwo', 'isPowerOfTwoAtLeast')))
            ve = edges_where(fn, lambda a, truth: truth and fn.strip(a) in ck)
            al = calls_named(fn, ('allocateAligned', 'reallocAligned'))
            if not al:
                raise AnalysisBroken('%s: no aligned allocation call' % name)
            ok = bool(ve) and all(dominated_by_edges(fn, c[0], ve)[0] for c in al)
            rep.ob('D1', 'K13', fn, 'alignment is validated before any aligned allocation is attempted', ok,
                   'an alignment that is not a power of two reaches allocateAligned: misaligned / overlapping blocks instead of EINVAL')
    calloc_overflow(facts, rep, 'D1')
    # errno on every null-returning path
    for name in ('scalable_malloc', 'scalable_calloc', 'scalable_realloc', 'scalable_aligned_malloc', 'scalable_aligned_realloc',
                 '__TBB_malloc_safer_realloc', '__TBB_malloc_safer_aligned_realloc'):
        for fn in facts.get(name):
            defs = Defs(fn)
            es = errno_sets(fn)
            esp = set(x[0] for x in es)
            frees = set(c[0] for c in calls_named(fn, ('internalFree', 'scalable_free')))
            for pos, s, node in fn.stmt_elems(('return',)):
                if 'sub' not in node:
                    continue
                v = fn.n(fn.strip(node['sub']))
                if v.get('null'):
                    ok, wit = every_path_passes(fn, 'entry', lambda p, e: p in esp or p in frees, end=pos)
                    rep.ob('D1', 'K13', fn, '`return nullptr` at line %s is preceded by setting errno (or is the free-on-zero-size path)' % node['ln'], ok,
                           'failure without errno: ' + wit, ln=node['ln'], key_extra=str(node['ln']))
                elif v.get('k') == 'var':
                    vid = v['v']
                    ne = null_edges(fn, vid)
                    # a branch on the variable dominates the return and its null edge sets errno on all paths
                    ok = bool(ne)
                    dom_ok = False
                    for (b, si) in ne:
                        sets = every_path_passes(fn, (fn.blocks[b]['succ'][si], -1), lambda p, e: p in esp, end=pos)[0]
                        on_all = every_path_passes(fn, 'entry', lambda p, e: p[0] == b, end=pos)[0] or True
                        dom_ok = dom_ok or sets
                    # every path to the return passes one of the test blocks
                    tb = set(b for b, si in ne)
                    covered = every_path_passes(fn, 'entry', lambda p, e: p[0] in tb, end=pos)[0] if tb else False
                    rep.ob('D1', 'K13', fn, 'a possibly-null result returned at line %s went through `if (!result) errno = ENOMEM`' % node['ln'],
                           ok and dom_ok and (covered or all(fn.blocks[b].get('term') for b in tb)),
                           'null can be returned without errno being set', ln=node['ln'], key_extra=str(node['ln']))
    for fn in facts.get('scalable_posix_memalign'):
        al = calls_named(fn, ('allocateAligned',))
        res = None
        for pos, s, nd in fn.stmt_elems(('decl',)):
            for v in nd['vars']:
                if 'init' in v and fn.strip(v['init']) in set(c[1] for c in al):
                    res = v['v']
        ne = nonnull_edges(fn, res) if res is not None else set()
        nu = null_edges(fn, res) if res is not None else set()
        out_param = set(p['v'] for p in fn.d.get('params', []) if p['ty'].replace(' ', '') == 'void**')
        st = [(p, s) for p, s, l, r in assignments(fn) if fn.n(fn.strip(l)).get('k') == 'unop' and fn.n(fn.strip(l))['op'] == '*' and
              fn.n(fn.strip(fn.n(fn.strip(l))['sub'])).get('v') in out_param]
        ok = bool(st) and bool(ne) and all(dominated_by_edges(fn, p, ne)[0] for p, _ in st)
        rep.ob('D1', 'K13', fn, '*memptr is written only on success', ok, '*memptr modified although the call fails')
        ok2 = bool(nu)
        for (b, si) in nu:
            reached, ex, par = fn.walk((fn.blocks[b]['succ'][si], -1))
            rets = [fn.nodes[fn.elems(q[0])[q[1]]] for q in reached if isinstance(fn.elems(q[0])[q[1]], int) and fn.nodes[fn.elems(q[0])[q[1]]].get('k') == 'return']
            ok2 = ok2 and bool(rets) and all(fn.cv(r.get('sub', -1)) == 12 for r in rets)
        rep.ob('D1', 'K13', fn, 'posix_memalign returns ENOMEM when no block could be allocated', ok2, 'null block reported as success / other code')
    rep.floor('D1', 14, 'entry point error discipline')


def d2_null(facts, rep):
    n = 0
    for fn in list(facts.fns.values()):
        if '/src/tbbmalloc/' not in fn.file:
            continue
        cs = calls_named(fn, NULLABLE)
        cs = [c for c in cs if (c[3]['p'].startswith('rml::') or c[3]['p'] in NULLABLE) and c[3].get('ret', '').endswith('*')]
        if not cs:
            continue
        defs = Defs(fn)
        pm = fn.parent_map()
        for cpos, cs_, cnode, cd in cs:
            # the variable that receives the result
            vid = None
            for pos, s, nd in fn.stmt_elems(('decl',)):
                for v in nd['vars']:
                    if 'init' in v and fn.strip(value_root(fn, v['init'])) == cs_:
                        vid = v['v']
            for pos, s, l, r in assignments(fn):
                if fn.strip(value_root(fn, r)) == cs_ and fn.n(fn.strip(l)).get('k') == 'var':
                    vid = fn.n(fn.strip(l))['v']
            if vid is None:
                continue
            ne = nonnull_edges(fn, vid)
            # uses of the variable that dereference it
            for pos, s, node in fn.stmt_elems(('var',)):
                if node.get('v') != vid:
                    continue
                dn = defs.reaching(pos, vid) or []
                if cs_ not in dn and not any(fn.nodes[d].get('k') in ('decl', 'binop') and cs_ in fn.subtree(d) for d in dn if d >= 0):
                    continue
                # how is it used?
                par = pm.get(s)
                cur = s
                while par is not None and fn.nodes[par].get('k') in ('rd', 'cast'):
                    cur = par
                    par = pm.get(cur)
                pn = fn.nodes[par] if par is not None else {}
                deref = False
                what = ''
                if pn.get('k') == 'member' and pn.get('arrow') and pn.get('base') == cur:
                    deref, what = True, '->%s' % pn['n']
                elif pn.get('k') == 'unop' and pn['op'] == '*':
                    deref, what = True, 'dereference'
                elif pn.get('k') == 'index' and pn.get('base') == cur:
                    deref, what = True, 'indexing'
                elif pn.get('k') == 'call' and cur in pn.get('a', []) and (fn.callee(par) or {}).get('n') in DEREF_SINKS:
                    deref, what = True, (fn.callee(par) or {}).get('n')
                elif pn.get('k') == 'call' and pn.get('obj') == cur and not atomic_op(fn, par):
                    deref, what = True, 'method call'
                if not deref:
                    continue
                ok, wit = dominated_by_edges(fn, pos, ne)
                n += 1
                rep.ob('D2', 'K13', fn, 'result of %s() is tested for null before %s (line %s)' % (cd['n'], what, node.get('ln')), ok,
                       'a failed allocation (%s returned null) is used: crash / heap corruption instead of a clean failure: %s' % (cd['n'], wit),
                       ln=node.get('ln'), key_extra='%s.%s' % (node.get('ln'), what))
    rep.floor('D2', 10, 'nullable results that are dereferenced')


def d3_pools(facts, rep):
    # who invokes the user callbacks
    callers = {'rawAlloc': set(), 'rawFree': set()}
    for fn in facts.fns.values():
        if '/src/tbbmalloc/' not in fn.file:
            continue
        for pos, s, node in fn.stmt_elems(('call',)):
            fx = node.get('fx', -1)
            if fx < 0:
                continue
            for x in fn.subtree(fx):
                xn = fn.nodes[x]
                if xn.get('k') == 'member' and xn['n'] in callers:
                    callers[xn['n']].add(fn.p)
                    owner = {'rawAlloc': RI + 'Backend::allocRawMem', 'rawFree': RI + 'Backend::freeRawMem'}[xn['n']]
                    rep.ob('D3', 'K11', fn, 'the pool\'s %s callback is invoked only by %s' % (xn['n'], owner.split('::')[-1]), fn.p == owner,
                           '%s calls the user callback directly: pool memory accounting (regions, totalMemSize) is bypassed' % fn.p, ln=node['ln'],
                           key_extra=fn.p + xn['n'])
    if not callers['rawAlloc'] or not callers['rawFree']:
        raise AnalysisBroken('no indirect call through rawAlloc/rawFree found')
    for fn in facts.get(RI + 'Backend::allocRawMem'):
        up = set(c[1] for c in calls_named(fn, ('userPool',)))
        os_e = edges_where(fn, lambda a, truth: (not truth) and fn.strip(a) in up)
        us_e = edges_where(fn, lambda a, truth: truth and fn.strip(a) in up)
        gm = calls_named(fn, ('getRawMemory',))
        ok = bool(gm) and bool(os_e) and all(dominated_by_edges(fn, c[0], os_e)[0] for c in gm)
        rep.ob('D3', 'K4', fn, 'the OS is asked for memory only for the default (non-user) pool', ok, 'a user pool maps OS memory behind the user\'s back')
        ind = [(p, s) for p, s, nd in fn.stmt_elems(('call',)) if nd.get('fx', -1) >= 0]
        ok2 = bool(ind) and all(dominated_by_edges(fn, p, us_e)[0] for p, _ in ind)
        rep.ob('D3', 'K4', fn, 'the user callback is used only for user pools', ok2, 'rawAlloc invoked for the default pool')

        def fixed_done(a, truth):
            n = fn.n(fn.strip(a))
            return (not truth) and n.get('k') == 'member' and n['n'] == 'fixedPool'

        def notdone(a, truth):
            n = fn.n(fn.strip(a))
            return (not truth) and n.get('k') == 'binop' and n['op'] == '==' and any(
                fn.nodes[x].get('k') == 'member' and fn.nodes[x]['n'] == 'bootsrapMemStatus' for x in fn.subtree(n['s']))
        fe = edges_where(fn, fixed_done) | edges_where(fn, notdone)
        ok3 = bool(ind) and bool(fe) and all(dominated_by_edges(fn, p, fe)[0] for p, _ in ind)
        rep.ob('D3', 'K4', fn, 'a fixed pool never asks its callback again once its single region was obtained', ok3,
               'fixed pool calls rawAlloc more than once')
    for fn in facts.get(RI + 'Backend::freeRawMem'):
        up = set(c[1] for c in calls_named(fn, ('userPool',)))
        os_e = edges_where(fn, lambda a, truth: (not truth) and fn.strip(a) in up)
        fm = calls_named(fn, ('freeRawMemory',))
        ok = bool(fm) and all(dominated_by_edges(fn, c[0], os_e)[0] for c in fm)
        rep.ob('D3', 'K4', fn, 'memory is unmapped through the OS only for the default pool', ok, 'user pool memory is munmap\'ed instead of given to rawFree')
    for fn in facts.get('rml::pool_destroy'):
        ds = calls_named(fn, ('destroy',))
        fr = calls_named(fn, ('internalFree',))
        ok = bool(ds) and bool(fr) and all(every_path_passes(fn, 'entry', lambda p, e: p in set(c[0] for c in ds), end=c2[0])[0] for c2 in fr)
        rep.ob('D3', 'K4', fn, 'pool_destroy returns the pool\'s memory (destroy) before freeing the pool object', ok, 'pool object freed before/without destroy()')
    for fn in facts.get('rml::pool_create_v1'):
        defs = Defs(fn)
        ini = set(c[1] for c in calls_named(fn, ('init',)))
        fail = edges_where(fn, lambda a, truth: (not truth) and fn.strip(a) in ini)
        fr = calls_named(fn, ('internalFree',))
        ok = bool(fail) and bool(fr)
        for (b, si) in fail:
            ok = ok and every_path_passes(fn, (fn.blocks[b]['succ'][si], -1), lambda p, e: p in set(c[0] for c in fr))[0]
        rep.ob('D3', 'K3', fn, 'pool_create frees the pool object when its initialisation fails', ok, 'pool object leaked on init failure')
        nulls = [(p, s) for p, s, l, r in assignments(fn) if fn.n(fn.strip(l)).get('k') == 'unop' and fn.n(value_root(fn, r)).get('null')]
        ok2 = True
        nfail = 0
        for pos, s, node in fn.stmt_elems(('return',)):
            v = fn.cv(node.get('sub', -1))
            if v is not None and v != 0:
                nfail += 1
                ok2 = ok2 and every_path_passes(fn, 'entry', lambda p, e: p in set(x[0] for x in nulls), end=pos)[0]
        rep.ob('D3', 'K13', fn, 'every failing return of pool_create_v1 nulls *pool first', ok2 and nfail >= 3, '%d failing returns' % nfail)
        im = calls_named(fn, ('internalMalloc',))
        ms = calls_named(fn, ('memset',))
        for c in ms:
            res = var_of(fn, value_root(fn, c[2]['a'][0]))
            ok3 = res is not None and dominated_by_edges(fn, c[0], nonnull_edges(fn, res))[0]
            rep.ob('D3', 'K13', fn, 'the pool object is zeroed only if it was allocated', ok3, 'memset on a null pool object')
    for fn in facts.find(r'memory_pool_allocator::allocate$'):
        th = calls_named(fn, ('throw_exception',)) + [(p, s, nd, None) for p, s, nd in fn.stmt_elems(('throw',))]
        rep.ob('D3', 'K13', fn, 'memory_pool_allocator::allocate throws bad_alloc when the pool returns null', bool(th), 'null returned to a C++ container',
               key_extra=fn.q[-30:])
    rep.floor('D3', 9, 'pool raw memory discipline')



# ---------------------------------------------------------------------------------------------------------------
# reasoned exceptions: (function primary name, variable) -> (structural condition, reason)
TLS_EXCEPTIONS = {
    ('rml::internal::MemoryPool::getEmptyBlock', 'tls'):
        ('dominated by a `> 0` loop-index guard',
         'blocks beyond the first exist only when the per-thread pool reported an access miss, which requires a TLS '
         '(ResOfGet(nullptr,false) when tls is null): i > 0 implies tls != nullptr; asserted by MALLOC_ASSERT(tls)'),
}


def d2_nullable_tls(facts, rep):
    """K13: MemoryPool::getTLS can return null - creating the thread's TLS is itself an allocation and fails when the pool's
    raw allocator refuses memory.  A TLSData* that comes from getTLS, or a parameter that receives such a value at a call
    site where it has not been tested, is dereferenced only on edges where it is known to be non-null.  Otherwise the
    allocator crashes instead of reporting the failure."""
    from engine.rules import vars_initialised_from
    from rules.malloc_common import nonnull_edges
    nullable = {}

    def add(u, v):
        st = nullable.setdefault(u, set())
        if v in st:
            return False
        st.add(v)
        return True
    src = 0
    for fn in facts.fns.values():
        if '/src/tbbmalloc/' not in fn.file:
            continue
        cs = [c[1] for c in calls_named(fn, ('getTLS',))]
        src += len(cs)
        for v in vars_initialised_from(fn, cs):
            add(fn.u, v)
    if src < 5:
        raise AnalysisBroken('only %d getTLS() call sites found' % src)
    changed = True
    while changed:
        changed = False
        for u in list(nullable):
            fn = facts.fns[u]
            for pos, s, node, d in calls(fn):
                g = facts.fns.get(node.get('fn'))
                if g is None or '/src/tbbmalloc/' not in g.file:
                    continue
                for i, a in enumerate(node.get('a', [])):
                    an = fn.n(fn.strip(a))
                    if an.get('k') == 'var' and an.get('v') in nullable[u]:
                        if dominated_by_edges(fn, pos, nonnull_edges(fn, an['v']))[0]:
                            continue
                        ps = g.d.get('params', [])
                        if i < len(ps) and add(g.u, ps[i]['v']):
                            changed = True
    n = 0
    for u, vs in sorted(nullable.items()):
        fn = facts.fns[u]
        for vid in sorted(vs):
            ne = nonnull_edges(fn, vid)
            for pos, s, node in fn.stmt_elems(('member',)):
                if not node.get('arrow'):
                    continue
                bn = fn.n(fn.strip(node.get('base', -1)))
                if bn.get('k') != 'var' or bn.get('v') != vid:
                    continue
                ok, wit = dominated_by_edges(fn, pos, ne)
                exc = TLS_EXCEPTIONS.get((fn.p, bn.get('n')))
                note = ''
                if not ok and exc:
                    idx_guard = edges_where(fn, lambda a, truth: truth and fn.n(fn.strip(a)).get('k') == 'binop' and
                                            fn.n(fn.strip(a))['op'] == '>' and fn.cv(fn.n(fn.strip(a))['r']) == 0)
                    if dominated_by_edges(fn, pos, idx_guard)[0]:
                        ok = True
                        note = ' [exception: %s]' % exc[0]
                n += 1
                rep.ob('D2', 'K13', fn, 'the TLS pointer %s (may be null when TLS creation failed) is dereferenced at line %s only where it was '
                       'tested%s' % (bn.get('n'), node['ln'], note), ok,
                       'getTLS() returns null when the raw allocator refuses the memory for the thread\'s TLS; this dereference is reached '
                       'without a test: the allocator crashes instead of reporting the failure (' + wit + ')', ln=node['ln'],
                       key_extra='%s:%s' % (fn.p, node['ln']))
    if n < 8:
        raise AnalysisBroken('only %d dereferences of nullable TLS pointers found' % n)


def d2_backref_validity(facts, rep):
    """K13 for back references: BackRefIdx::newBackRef() yields an INVALID index when the table cannot grow (the OS refused the
    memory for a new leaf).  removeBackRef / setBackRef index the table with what they are given - in release builds the validity
    assertion is compiled out - so a local index that comes from newBackRef reaches them only on edges where isInvalid() was
    tested and found false.  Otherwise a refused request crashes / writes through a wild pointer instead of reporting failure."""
    from engine.rules import vars_initialised_from
    n = 0
    for fn in sorted(facts.fns.values(), key=lambda f: f.q):
        if '/src/tbbmalloc/' not in fn.file:
            continue
        src = [c[1] for c in calls_named(fn, ('newBackRef',))]
        if not src:
            continue
        vids = set(v for v in vars_initialised_from(fn, src))
        # arrays of indices (Block::... slab path) are validated element by element in a loop: not decidable here
        scal = set()
        for pos, s, nd in fn.stmt_elems(('decl',)):
            for v in nd['vars']:
                if v['v'] in vids and '[' not in (v.get('ty') or ''):
                    scal.add(v['v'])
        for vid in sorted(scal):
            valid = edges_where(fn, lambda a, truth, vid=vid: (not truth) and fn.n(fn.strip(a)).get('k') == 'call' and
                                (fn.callee(fn.strip(a)) or {}).get('n') == 'isInvalid' and
                                fn.n(fn.strip(fn.n(fn.strip(a)).get('obj', -1))).get('v') == vid)
            for pos, s, node, d in calls_named(fn, ('removeBackRef', 'setBackRef')):
                if not any(fn.nodes[x].get('k') == 'var' and fn.nodes[x].get('v') == vid for a in node.get('a', []) for x in fn.subtree(a)):
                    continue
                n += 1
                ok, wit = dominated_by_edges(fn, pos, valid)
                rep.ob('D2', 'K13', fn, 'the back reference index from newBackRef() reaches %s (line %s) only after isInvalid() was found false'
                       % (d['n'], node['ln']), ok,
                       'when the table of back references cannot grow the index is invalid; %s then indexes the table with 0xFFFFFFFF: a refused '
                       'request crashes or writes through a wild pointer instead of reporting failure (%s)' % (d['n'], wit),
                       ln=node['ln'], key_extra='backref|%s|%s' % (d['n'], node['ln']))
    if n < 2:
        raise AnalysisBroken('uses of a fresh back reference index found: %d (expected mallocLargeObject, StartupBlock::getBlock)' % n)


def calloc_overflow(facts, rep, clause):
    """shared with C17 (D2: a successful calloc has at least nobj*size usable bytes): the product of the two factors is tested for
    overflow before the allocation, and the exact test is skipped only when both factors are known to be small"""
    for fn in facts.get('scalable_calloc'):
        im = calls_named(fn, ('internalMalloc',))

        def overflow(a, truth):
            n = fn.n(fn.strip(a))
            return truth and n.get('k') == 'binop' and n['op'] == '!=' and any(fn.nodes[x].get('k') == 'binop' and fn.nodes[x]['op'] == '/' for x in fn.subtree(n['s']))
        oe = edges_where(fn, overflow)
        ok = bool(oe) and bool(im)
        for (b, si) in oe:
            reached, ex, par = fn.walk((fn.blocks[b]['succ'][si], -1))
            ok = ok and not any(q in set(c[0] for c in im) for q in reached)
            es = errno_sets(fn)
            ok = ok and every_path_passes(fn, (fn.blocks[b]['succ'][si], -1), lambda p, e: p in set(x[0] for x in es))[0]
        rep.ob(clause, 'K13', fn, 'calloc: on nobj*size overflow the allocation is not attempted and errno is set', ok,
               'a wrapped product is allocated: the caller writes beyond a too-small block')
        # the exact division test may be skipped only where the product cannot overflow: both factors known to be below a constant
        # M with M*M <= 2^64.  Path-sensitive: every path that reaches the allocation has passed the exact test's "no overflow"
        # edge, or edges bounding BOTH factors.
        from engine.rules import product_walk
        pv = [pp['v'] for pp in fn.d.get('params', [])]
        if len(pv) == 2:
            def facts_on_edge(b, si):
                out = set()
                for (a, truth) in fn.edge_conds(b, si):
                    nd = fn.n(fn.strip(a))
                    if nd.get('k') != 'binop':
                        continue
                    if nd['op'] in ('>=', '>', '<', '<='):
                        l, r = fn.n(fn.strip(nd['l'])), fn.n(fn.strip(nd['r']))
                        op = nd['op'] if truth else {'>=': '<', '>': '<=', '<': '>=', '<=': '>'}[nd['op']]
                        c = fn.cv(nd['r'])
                        if l.get('k') == 'var' and l.get('v') in pv and c is not None and op in ('<', '<=') and c * c <= (1 << 64):
                            out.add('b%d' % pv.index(l['v']))
                    if nd['op'] in ('==', '!=') and any(fn.nodes[x].get('k') == 'binop' and fn.nodes[x]['op'] == '/' for x in fn.subtree(fn.strip(a))):
                        if truth == (nd['op'] == '=='):
                            out.add('x')
                    # `nobj && ...`: a zero factor cannot overflow either
                    if False:
                        pass
                for (a, truth) in fn.edge_conds(b, si):
                    nd = fn.n(fn.strip(a))
                    if nd.get('k') == 'var' and nd.get('v') in pv and not truth:
                        out.add('x')          # factor == 0: the product is 0
                return out

            def edge_tr(st, b, si):
                return frozenset(st | facts_on_edge(b, si))
            seen = product_walk(fn, frozenset(), lambda st, pos, e: st, edge_tr)
            bad_states = []
            for c in im:
                for (b, st) in seen:
                    if b == c[0][0] and not ('x' in st or ('b0' in st and 'b1' in st)):
                        bad_states.append(sorted(st))
            rep.ob(clause, 'K14', fn, 'calloc skips the exact overflow test only when both factors are below 2^32', not bad_states,
                   'a path reaches the allocation knowing only %s: with one factor >= 2^32 the product can wrap and a tiny block is returned '
                   'for a huge array' % bad_states[:2], key_extra='calloc-heuristic')


def d3_middle_cut_leftovers(facts, rep):
    """"pools stay inside their raw memory / the heap is never corrupted": a fixed pool can serve a slab-aligned request from a
    block of an unaligned bin only by cutting the slab out of the MIDDLE of the block; splitBlock() then turns the left and the
    right leftover into free blocks, i.e. writes a FreeBlock header into each.  A leftover that is neither empty nor at least
    FreeBlock::minBlockSize is overrun by that header (into the neighbouring live object or into the slab just handed out).  Rule:
    in IndexedBins::getFromBin the choice of a block on the path that computes the aligned position (alignUp of the block address) is
    dominated, for EACH of the two leftovers separately, by a test "empty or >= minBlockSize" on a value derived from that
    aligned position - a single test of their sum lets 8..48-byte leftovers through."""
    n = 0
    for fn in facts.get(RI + 'Backend::IndexedBins::getFromBin'):
        defs = Defs(fn)
        al = [c for c in calls_named(fn, ('alignUp',))]
        if not al:
            raise AnalysisBroken('IndexedBins::getFromBin: alignUp of the block address not found (the middle cut for fixed pools)')
        # values derived from the aligned position
        A = set()
        changed = True
        srcs = set(c[1] for c in al)
        while changed:
            changed = False
            for (vid, dn), val in defs.value_of.items():
                if val is None or vid in A:
                    continue
                sub = fn.subtree(val)
                if (sub & srcs) or any(fn.nodes[x].get('k') == 'var' and fn.nodes[x].get('v') in A for x in sub):
                    A.add(vid)
                    changed = True
        if not A:
            raise AnalysisBroken('IndexedBins::getFromBin: the aligned position is not kept in a local')

        def group_of(a):
            """('bound'|'empty', frozenset of the other locals involved) for an atom that tests a leftover, else None"""
            x = fn.n(fn.strip(a))
            if x.get('k') != 'binop':
                return None
            sub = fn.subtree(x['s'])
            vs = set(fn.nodes[y].get('v') for y in sub if fn.nodes[y].get('k') == 'var' and fn.nodes[y].get('local'))
            if not (vs & A):
                return None
            others = frozenset(v for v in vs if v not in A)
            has_min = any((fn.nodes[y].get('n') or fn.nodes[y].get('glob') or '').endswith('minBlockSize') for y in sub)
            if x['op'] in ('>=', '>') and has_min:
                return ('bound', others)
            if x['op'] == '==' and not has_min:
                return ('empty', others)
            return None
        groups = {}
        for b, blk in fn.blocks.items():
            t = blk.get('term')
            if not t or 'c' not in t or len(blk['succ']) != 2:
                continue
            for si in (0, 1):
                for a, truth in fn.edge_conds(b, si):
                    g = group_of(a)
                    if g and truth:
                        groups.setdefault(g[1], {'bound': set(), 'empty': set()})[g[0]].add((b, si))
        # assignments `fBlock = curr` reachable after the alignUp
        # ... within the same iteration over the bin: the walk stops where the block variable gets its next value
        blockvars = set(fn.nodes[x].get('v') for c in al for a in c[2].get('a', [])[:1] for x in fn.subtree(a) if fn.nodes[x].get('k') == 'var')
        redef = set(s2 for s2, ds in defs.defs_at.items() if any(v in blockvars for (v, dn, val) in ds))
        picks = [(p, s_) for p, s_, l, r in assignments(fn) if fn.n(fn.strip(l)).get('n') == 'fBlock' and fn.cv(r) is None and
                 any(fn.can_reach(c[0], p, stop_elem=lambda q, e: isinstance(e, int) and e in redef) for c in al)]
        if not picks:
            raise AnalysisBroken('IndexedBins::getFromBin: the block is not chosen after the aligned position was computed')
        full = [k for k, g in groups.items() if g['bound']]
        ok = len(full) >= 2
        for p, s_ in picks:
            for k in full:
                ok = ok and dominated_by_edges(fn, p, groups[k]['bound'] | groups[k]['empty'])[0]
        n += 1
        rep.ob('D3', 'K14', fn, 'a block is cut in the middle only if each of the two leftovers is empty or can hold a free-block header', ok,
               'leftover tests that relate a value derived from the aligned position to FreeBlock::minBlockSize: %d (two are needed, one per '
               'side, each dominating the choice of the block) - a left or right leftover of 8..48 bytes gets a FreeBlock header written '
               'over its neighbour' % len(full), key_extra='middle-cut')
    if n < 1:
        raise AnalysisBroken('Backend::IndexedBins::getFromBin not found')
