"""C03 - a task's exception surfaces exactly once at the wait, after the group stopped.  (DESIGN.md section 4, C03)"""
from engine.facts import AnalysisBroken, atomic_op, atomic_ops, has_acquire, has_release
from engine.rules import (calls, calls_named, atomics_on, every_path_passes, last_member, oname, is_call_to, Defs,
                          resolve_cond_source, edges_where, dominated_by_edges, member_accesses, Summaries, assignments)
from rules.common import task_classes, k7_task_class, TBB_SRC, TASK_BASE, exit_coverage

UNITS = ['src/tbb/task_dispatcher.cpp', 'src/tbb/task_group_context.cpp', 'src/tbb/exception.cpp', 'src/tbb/arena.cpp',
         'src/tbb/parallel_pipeline.cpp', 'src/tbb/private_server.cpp', 'src/tbb/task.cpp',
         'drivers/algorithms.cpp', 'drivers/flow.cpp', 'drivers/containers.cpp']
UNITS_THOROUGH = sorted(set(UNITS + TBB_SRC))
R1 = 'tbb::detail::r1::'
D1 = 'tbb::detail::d1::'
D2 = 'tbb::detail::d2::'

EXPLANATION = (
    'Decides the structural necessary conditions of exception transport: D1 every catch(...) of the library is classified; the '
    'dispatch-loop handler stores the exception only on the winning edge of cancel_group_execution() with release order and '
    'does not leave the exception loop; virtual task::execute/cancel calls occur only inside that try (or inside another task\'s '
    'execute/cancel) and are selected by is_group_execution_cancelled(); D2 the rethrow is dominated by the completed wait and '
    'an acquire load of the stored exception; D3 cancel() frees what execute() frees (task classes of all drivers); D4 '
    'Body::join is skipped for a cancelled group and the zombie body is destroyed iff it was constructed; D5 group/graph '
    'context is reset on both the normal and the exceptional exit of the waits; D6 thread entry points are noexcept; D7 a '
    'delegated functor runs under a completion handler and always reaches finalize(); D8 a splitting task is re-parented to a '
    'new join-tree node only when nothing that can throw (the user\'s Range/Body copy) stands between that and the attachment '
    'and spawn of its sibling, so a throw never leaves a join node waiting for a child that does not exist; D9 a wait reference taken for a child '
    'task is taken only when nothing can fail any more before the child is handed over (no user operation - an operation on a '
    'value of a template-parameter type - and no library call that may throw between reserve() and spawn / execute_and_wait / '
    'the end of the function).  "One that was actually thrown", the '
    'timing of bodies versus the rethrow and user-object lifetime counts are NOT decided.')
EXPLANATION += ' Added after the seeded-change rounds: ' + 'D8: nothing that may throw stands between re-parenting a splitting task to its new join node and the spawn of the sibling; D9: a wait reference is reserved only when no user operation (template-parameter typed operation) / throw / allocation stands between reserve() and the hand-over of the child (preview message-waiter protocol excluded).'
EXPLANATION += ' Added in the third session (round-3 seeds and the findings they led to): ' + "D10: pipeline token ownership - a filter never destroys its input token on its exceptional path, destroys it exactly once on the normal path, the task replaces the handed token by the filter's result, the pipeline teardown finalises items still parked in a serial filter's buffer; D11: an object created and deleted by the same function is also destroyed when a call in between throws (violated by parallel_scan: known finding)."
EXPLANATION += ' Added in the fourth round of seeded changes: ' + "D5 now decided by exit_coverage (any recognised scope-exit form); D12: after a task has destroyed itself nothing that can raise a user exception runs in the same call, and a tree fold whose join can throw gives the node its reference back on the exceptional path; D13: a wait reference reserved by a base-class constructor is released by its destructor when a derived constructor can throw, and small_object_allocator::new_object returns the storage when the constructor throws; D4 also: an object kept in single-slot raw storage (aligned_space<T>) is destroyed by its owner's destructor only if every constructor constructs it or a member flag that is raised somewhere guards the call."
EXPLANATION += ' Added in the fifth round: ' + 'D4 also: the lazily split body of parallel_reduce - wherever it is constructed - is announced by has_right_zombie on every path after the construction and never before it; D11 also: a scope-exit handler deletes a self-deleting task object that escapes inside the region it covers only under a guard.'
EXPLANATION += ' Added in the sixth (partial) seeding round: ' + 'D2 also (shared with C04-D3): when a cancellation is propagated the climb through a context\'s parent chain ends only at the cancelled source or at the root - every other edge out of that loop is dominated by the ancestor == &src edge.'
EXPLANATION += ' D2 also: in ~task_group_base every wait that can run during stack unwinding (not dominated by the no-unwinding edge) stands inside a try block whose catch-all handler does not rethrow; D1 knows two named, checked swallowing handlers (optional growth in concurrent_hash_map::lookup, the destructor wait during unwinding).'
ASSUMPTIONS = ['the try_call/raii_guard idiom behaves as its definition in _template_helpers.h (checked structurally in D5)',
               'task classes not instantiated by the drivers are not analysed']
ND = ['"one that was actually thrown" under all throw positions', 'timing of bodies vs. the rethrow',
      'object-lifetime counts of user Range/Body copies']

K7_EXCEPTIONS = {
    'enqueue_task::cancel': 'enqueued tasks are not waited for; cancel() is an assert-release "cannot happen" stub',
    'task_proxy::execute': 'assert-release stub', 'task_proxy::cancel': 'assert-release stub',
    'resume_task::cancel': 'forwards to execute() (C20-D5 checks that)',
}


def lambdas_in(facts, fn, s):
    out = []
    for x in fn.subtree(s):
        if fn.nodes[x].get('k') == 'lambda':
            g = facts.fns.get(fn.nodes[x].get('fn'))
            if g is not None:
                out.append(g)
    return out


def try_call_sites(facts, fn):
    """[(pos, 'on_exception'|'on_completion', [body lambdas], [handler lambdas])]"""
    out = []
    for pos, s, node, d in calls_named(fn, ('on_exception', 'on_completion')):
        if not d.get('cls', '').endswith('try_call_proxy'):
            continue
        handlers = []
        for a in node.get('a', []):
            handlers += lambdas_in(facts, fn, a)
        bodies = lambdas_in(facts, fn, node.get('obj', -1)) if node.get('obj', -1) >= 0 else []
        out.append((pos, d['n'], bodies, handlers, node))
    return out


def run(facts, rep):
    d1_catch(facts, rep)
    d2_rethrow(facts, rep)
    d3_parity(facts, rep)
    d4_join(facts, rep)
    d4_single_slot_storage(facts, rep)
    d5_reset(facts, rep)
    d6_noexcept(facts, rep)
    d7_delegate(facts, rep)
    d8_tree_window(facts, rep)
    d9_reference_window(facts, rep)
    d10_token_ownership(facts, rep)
    d11_local_ownership(facts, rep)
    d11_handlers_do_not_delete_what_they_may_not_own(facts, rep)
    d12_no_user_code_after_self_destruction(facts, rep)
    d12_fold_tolerates_throwing_join(facts, rep)
    d13_constructor_reservations(facts, rep)
    d13_storage_of_failed_constructions(facts, rep)
    idiom(facts, rep)
    # "cancels the rest of that group": nested groups two or more levels down are reached (shared with C04-D3)
    from rules.C04 import d3_ancestor_walk_is_complete
    d3_ancestor_walk_is_complete(facts, rep, clause='D2')
    d2_destructor_wait_during_unwinding(facts, rep)


def catch_blocks(fn):
    out = []
    for b, blk in fn.blocks.items():
        lab = blk.get('label')
        if lab and 'catch' in lab:
            out.append((b, fn.nodes[lab['catch']]))
    return out


# catch-all handlers that end an exception on purpose: function -> (the only calls the guarded region may contain, reason)
OPTIONAL_STEP_HANDLERS = {
    'tbb::detail::d2::concurrent_hash_map::lookup': (
        ('enable_segment',),
        'it guards only the optional growth that follows a completed insertion: the operation has succeeded and reports so (C10-D5), '
        'enable_segment takes its own mark back, and a later insertion retries; no user body runs in the guarded region'),
    'tbb::detail::d2::task_group_base::(dtor)': (
        ('wait', 'get_context', 'context'),
        'it guards only the destructor\'s own wait on the path taken during stack unwinding: another exception is already in flight, a second '
        'one leaving the destructor would terminate the program (C03-D2 dtor-wait-unwinding); nothing can report it any more'),
}


def d1_catch(facts, rep):
    # enumerate every catch(...) of the analysed code
    handlers = []
    for fn in facts.fns.values():
        if '/verif/drivers/' in fn.file:
            continue
        for b, cn in catch_blocks(fn):
            if cn.get('ell'):
                handlers.append((fn, b, cn))
    classified = 0
    for fn, b, cn in handlers:
        reached, ex, par = fn.walk((b, -1))
        elems = [fn.elems(q[0])[q[1]] for q in reached]
        has_rethrow = any(isinstance(e, int) and fn.nodes[e].get('k') == 'throw' and 'sub' not in fn.nodes[e] for e in elems)
        captures = any(is_call_to(fn, e, shortnames=('cancel_group_execution',)) for e in elems)
        status = any(isinstance(e, int) and (atomic_op(fn, e) or {}).get('kind') == 'store' and
                     last_member(fn, atomic_op(fn, e)['obj']) == 'status' for e in elems)
        terminate = any(is_call_to(fn, e, shortnames=('terminate', 'do_throw_noexcept')) for e in elems)
        # handlers in exception.cpp translate/terminate; memory_pool rethrows after cleanup
        ok = has_rethrow or captures or status or terminate
        if not ok:
            # Named exceptions, each with its reason, and each checked: the guarded region may contain nothing but the listed step.
            reason = OPTIONAL_STEP_HANDLERS.get(fn.p)
            if reason is not None:
                guarded = [nd for nd in fn.nodes if nd and nd.get('tr') == cn.get('try') and nd.get('k') in ('call', 'ctor', 'new', 'throw')]
                if guarded and all((fn.callee(nd['s']) or {}).get('n') in reason[0] for nd in guarded):
                    ok = True
                    rep.note('D1 %s: catch(...) at line %s is a named exception - %s' % (fn.p, cn['ln'], reason[1]))
        classified += 1
        rep.ob('D1', 'K9', fn, 'catch(...) at line %s rethrows, captures into the group context, or fails its own operation' % cn['ln'],
               ok, 'a catch-all handler swallows the exception', ln=cn['ln'], key_extra=str(cn['ln']))
    # the dispatch loop handler
    n_loop = 0
    for fn in facts.get(R1 + 'task_dispatcher::local_wait_for_all'):
        cbs = [(b, cn) for b, cn in catch_blocks(fn) if cn.get('ell')]
        if not cbs:
            continue
        n_loop += 1
        for b, cn in cbs:
            reached, ex, par = fn.walk((b, -1))
            stores = [(q, atomic_op(fn, fn.elems(q[0])[q[1]])) for q in reached if isinstance(fn.elems(q[0])[q[1]], int)]
            stores = [(q, o) for q, o in stores if o and o['kind'] == 'store' and last_member(fn, o['obj']) == 'my_exception'
                      and fn.nodes[o['s']].get('ca') is not None]
            cge = set(s for p, s, n, d in calls_named(fn, ('cancel_group_execution',)) if n.get('ca') is not None)
            win = edges_where(fn, lambda a, truth: truth and fn.strip(a) in cge)
            ok = bool(stores) and bool(win)
            for q, o in stores:
                r2, _, _ = fn.walk((b, -1), stop_edge=lambda bb, si: (bb, si) in win)
                if q in r2:
                    ok = False
                if not has_release(o['order'] or 0):
                    ok = False
            rep.ob('D1', 'K9', fn, 'the dispatch loop stores the exception only after winning cancel_group_execution(), with release',
                   ok, 'my_exception can be overwritten by a thread that did not win the cancellation (exception lost / leaked) or is '
                       'published without release order', ln=cn['ln'])
            rets = [e for e in (fn.elems(q[0])[q[1]] for q in reached) if isinstance(e, int) and fn.nodes[e].get('k') == 'return'
                    and fn.nodes[e].get('ca') is not None]
            rep.ob('D1', 'K9', fn, 'the handler does not leave the dispatch loop', not rets,
                   'return inside the catch handler: remaining tasks of the cancelled group are dropped, not cancelled', ln=cn['ln'])
    if n_loop == 0:
        raise AnalysisBroken('no catch(...) found in task_dispatcher::local_wait_for_all')
    # who may call task::execute / task::cancel
    nsites = 0
    for fn in facts.fns.values():
        for pos, s, node, d in calls_named(fn, ('execute', 'cancel')):
            if not node.get('virt'):
                continue
            dd = d
            roots = set([dd['u']]) | set(dd.get('ov', []))
            is_task_virtual = d.get('cls') == TASK_BASE or any((facts.decls.get(u) or {}).get('cls') == TASK_BASE for u in roots) or \
                (d.get('cls', '').endswith('graph_task'))
            if not is_task_virtual:
                continue
            nsites += 1
            in_override = fn.d.get('virt') and fn.p.split('::')[-1] in ('execute', 'cancel') and TASK_BASE in fn.bases
            in_try = node.get('tr') is not None
            if in_try and not in_override:
                hs = [nd for nd in fn.nodes if nd and nd.get('k') == 'catch' and nd.get('try') == node.get('tr')]
                rep.ob('D1', 'K9', fn, 'the try around task::%s at line %s stops every exception (catch(...))' % (d['n'], node['ln']),
                       any(h.get('ell') for h in hs), 'handlers %s: an exception of another type thrown by a task body escapes on the '
                       'worker thread instead of being captured into the group context' % [h.get('ty') or '...' for h in hs],
                       ln=node['ln'], key_extra='catchall' + str(node['ln']))
            rep.ob('D1', 'K11', fn, 'virtual task::%s call at line %s runs under the dispatch loop\'s try' % (d['n'], node['ln']),
                   in_override or in_try,
                   'a task is executed outside the try of the dispatch loop: an exception thrown by the body is not captured into the '
                   'group context', ln=node['ln'], key_extra=str(node['ln']))
            if fn.p == R1 + 'task_dispatcher::local_wait_for_all':
                igc = set(x[1] for x in calls_named(fn, ('is_group_execution_cancelled',)))
                want = (d['n'] == 'cancel')
                edges = edges_where(fn, lambda a, truth: truth == want and fn.strip(a) in igc)
                ok, wit = dominated_by_edges(fn, pos, edges)
                rep.ob('D1', 'K4', fn, 't->%s() is selected by is_group_execution_cancelled() == %s' % (d['n'], want), ok, wit,
                       ln=node['ln'], key_extra='sel' + str(node['ln']))
    rep.floor('D1', 8, 'catch handlers + execute/cancel call sites')


def d2_rethrow(facts, rep):
    for fn in facts.get(R1 + 'task_dispatcher::execute_and_wait'):
        ts = calls_named(fn, ('throw_self',))
        lw = set(p for p, _, _, _ in calls_named(fn, ('local_wait_for_all',)))
        ld = [(p, o) for p, o in atomics_on(fn, 'my_exception', kinds=('load',))]
        if not ts:
            raise AnalysisBroken('execute_and_wait no longer rethrows')
        for pos, s, node, d in ts:
            ok1, w1 = every_path_passes(fn, 'entry', lambda p, e: p in lw, end=pos)
            acq = [(q, o) for q, o in ld if has_acquire(o['order'] or 0)]      # debug builds add relaxed assertion-only loads
            ok2 = bool(acq) and every_path_passes(fn, 'entry', lambda p, e: p in set(q for q, _ in acq), end=pos)[0]
            rep.ob('D2', 'K4', fn, 'throw_self() is dominated by the completed wait and an acquire load of my_exception', ok1 and ok2,
                   'the exception can be rethrown while bodies of the group may still run, or is read without acquire: ' + w1,
                   ln=node['ln'])
    for fn in facts.get(R1 + 'task_arena_impl::execute'):
        ts = calls_named(fn, ('throw_self',))
        ld = [(p, o) for p, o in atomics_on(fn, 'my_exception', kinds=('load',))]
        ce = set(x[1] for x in calls_named(fn, ('continue_execution',)))
        done_edges = edges_where(fn, lambda a, truth: (not truth) and fn.strip(a) in ce)
        waits = set(p for p, s, n, d in calls(fn) if d['p'] == R1 + 'wait')
        for pos, s, node, d in ts:
            ok, wit = dominated_by_edges(fn, pos, done_edges, extra_elem=lambda p, e: p in waits)
            acq = [(q, o) for q, o in ld if has_acquire(o['order'] or 0)]
            ok2 = bool(acq) and every_path_passes(fn, 'entry', lambda p, e: p in set(q for q, _ in acq), end=pos)[0]
            rep.ob('D2', 'K4', fn, 'the delegated exception is rethrown only after the delegated work finished', ok and ok2,
                   'rethrow is reachable although wait_context::continue_execution() was never seen false: ' + wit, ln=node['ln'])
    rep.floor('D2', 2, 'rethrow sites')


def d3_parity(facts, rep):
    tcs = task_classes(facts)
    sub = type('R', (), {})()
    n = 0

    class Proxy(object):
        """forward only the dealloc-parity obligations to the report"""
        def __init__(self, rep):
            self.rep = rep
            self.configs = rep.configs

        def ob(self, clause, *a, **k):
            if clause == 'D3':
                return self.rep.ob(clause, *a, **k)
            return True

        def note(self, s):
            pass
    px = Proxy(rep)
    for cp in sorted(tcs):
        k7_task_class(facts, px, 'D7x', cp, K7_EXCEPTIONS, dealloc_clause='D3')
    rep.floor('D3', 12, 'task classes whose execute() deallocates')


def d4_join(facts, rep):
    n = 0
    for cls in ('reduction_tree_node', 'deterministic_reduction_tree_node'):
        for fn in facts.get(D1 + cls + '::join'):
            js = [c for c in calls_named(fn, ('join',)) if c[0] is not None and fn.u != c[3]['u']]
            igc = set(x[1] for x in calls_named(fn, ('is_group_execution_cancelled',)))
            if not js:
                raise AnalysisBroken('%s::join: Body::join call not found' % cls)
            edges = edges_where(fn, lambda a, truth: (not truth) and fn.strip(a) in igc)
            for pos, s, node, d in js:
                ok, wit = dominated_by_edges(fn, pos, edges)
                rep.ob('D4', 'K4', fn, 'Body::join is skipped when the group was cancelled', ok,
                       'bodies of a cancelled reduction are joined (user join runs on partial results after an exception): ' + wit,
                       ln=node['ln'])
                n += 1
    for fn in facts.get(D1 + 'reduction_tree_node::(dtor)'):
        # explicit destructor call of the zombie, guarded by has_right_zombie
        dt = [(p, s, nd) for p, s, nd in fn.stmt_elems(('call', 'pseudodtor')) if
              (nd.get('k') == 'pseudodtor') or ((fn.callee(s) or {}).get('n') == '(dtor)')]
        guard = edges_where(fn, lambda a, truth: truth and fn.n(fn.strip(a)).get('k') == 'member' and fn.n(fn.strip(a))['n'] == 'has_right_zombie')
        ok = bool(guard) and all(dominated_by_edges(fn, p, guard)[0] for p, _, _ in dt)
        ok = ok and all(any(q[0] == fn.blocks[b]['succ'][si] or True for q in [p for p, _, _ in dt]) for b, si in guard)
        # trivially destructible bodies have no destructor call in the instantiation; accept pseudo-destructor expressions too
        rep.ob('D4', 'K3', fn, 'the zombie body is destroyed only when it was constructed', ok,
               'destructor of zombie_space runs without has_right_zombie', key_extra='dtor')
    zombie_pairing(facts, rep, 'D4')
    rep.floor('D4', 4, 'join guards + zombie pairing')


def handler_calls(facts, handlers, names):
    return any(calls_named(h, names) for h in handlers)


def d5_reset(facts, rep):
    n = 0
    summ = Summaries(facts, max_depth=4)

    def is_wait(g, pos, e):
        return isinstance(e, int) and g.nodes[e].get('k') == 'call' and (g.callee(e) or {}).get('n') in ('wait', 'execute_and_wait') and \
            ((g.callee(e) or {}).get('q') or '').startswith('tbb::detail::')

    def resets(g, pos, e):
        return isinstance(e, int) and g.nodes[e].get('k') == 'call' and (g.callee(e) or {}).get('q') == D1 + 'task_group_context::reset'
    for fname in (D2 + 'task_group_base::wait', D2 + 'task_group_base::internal_run_and_wait'):
        for fn in facts.get(fname):
            nops, normal_ok, exc_ok, notes = exit_coverage(facts, summ, fn, is_wait, resets, 'resets-group-context')
            if not nops:
                raise AnalysisBroken('%s: no wait found' % fname)
            rep.ob('D5', 'K3', fn, 'the group context is reset on normal and exceptional exit of the wait', normal_ok and exc_ok,
                   'the context stays cancelled after wait(): the task_group is not reusable, a delivered exception is delivered again (%s)'
                   % '; '.join(notes))
            n += 1
    for fn in facts.get(D2 + 'graph::wait_for_all'):
        sites = try_call_sites(facts, fn)
        ok = any(kind in ('on_exception', 'on_completion') and handler_calls(facts, hs, ('reset',)) for _, kind, _, hs, _ in sites)
        rs = calls_named(fn, ('reset',))
        rep.ob('D5', 'K3', fn, 'graph::wait_for_all resets the context after an exception and on the normal path', ok and bool(rs),
               'graph context not reset after an exception or after a normal cancelled wait')
        flag_ok = False
        for _, kind, _, hs, _ in sites:
            for h in hs:
                for p, s, nd in h.stmt_elems(('binop',)):
                    if nd['op'] == '=' and last_member(h, nd['l']) == 'caught_exception' and h.cv(nd['r']) == 1:
                        flag_ok = True
        rep.ob('D5', 'K4', fn, 'graph::wait_for_all records a caught exception', flag_ok, 'caught_exception is not set in the handler')
    rep.floor('D5', 4, 'waits with completion handlers')


def d6_noexcept(facts, rep):
    for pname in (R1 + 'rml::private_worker::run', R1 + 'co_local_wait_for_all', R1 + 'task_dispatcher::co_local_wait_for_all'):
        fs = facts.get(pname, required=False)
        if not fs and 'co_local' in pname:
            continue
        if not fs:
            raise AnalysisBroken('%s not found' % pname)
        for fn in fs:
            rep.ob('D6', 'K12', fn, 'thread/coroutine entry point is noexcept', bool(fn.d.get('ne')),
                   'an exception could unwind out of a worker thread entry point instead of terminating deterministically')
    for fn in facts.get(D1 + 'collaborative_once_runner::assist', required=False):
        rep.ob('D6', 'K12', fn, 'collaborative_once helpers never see the exception (assist is noexcept)', bool(fn.d.get('ne')), '')
    for fn in facts.get(R1 + 'do_throw_noexcept'):
        rep.ob('D6', 'K12', fn, 'terminate_on_exception path throws inside a noexcept function', bool(fn.d.get('ne')), '')
    rep.floor('D6', 3, 'noexcept entry points')


def d7_delegate(facts, rep):
    for fn in facts.get(R1 + 'delegated_task::execute'):
        sites = try_call_sites(facts, fn)
        ok = any(kind == 'on_completion' for _, kind, _, _, _ in sites)
        rep.ob('D7', 'K3', fn, 'the delegated functor runs under a completion handler restoring the dispatcher state', ok,
               'no try_call(...).on_completion in delegated_task::execute')
        fin = calls_named(fn, ('finalize',))
        ok2 = bool(fin) and every_path_passes(fn, 'entry', lambda p, e: is_call_to(fn, e, shortnames=('finalize',)))[0]
        rep.ob('D7', 'K4', fn, 'delegated_task::execute reaches finalize() on every normal path', ok2, 'finalize() skipped')
    rep.floor('D7', 2, 'delegated_task')


def idiom(facts, rep):
    """the try_call idiom model itself: on_exception dismisses the guard after the body, on_completion does not"""
    for name, want_dismiss in (('on_exception', True), ('on_completion', False)):
        fs = facts.get('tbb::detail::try_call_proxy::' + name)
        for fn in fs:
            g = calls_named(fn, ('make_raii_guard',))
            body = [c for c in calls(fn) if c[2].get('op') == '()']
            dis = calls_named(fn, ('dismiss',))
            ok = bool(g) and bool(body) and (bool(dis) == want_dismiss)
            if dis and body:
                ok = ok and all(every_path_passes(fn, 'entry', lambda p, e: p in set(x[0] for x in body), end=dp)[0] for dp, _, _, _ in dis)
            rep.ob('D5', 'K3', fn, 'try_call(...).%s idiom: guard armed before the body%s' % (name, ', dismissed after it' if want_dismiss else ''),
                   ok, 'the idiom no longer matches the model used by the rules')
    for fn in facts.get('tbb::detail::raii_guard::(dtor)'):
        g = edges_where(fn, lambda a, truth: truth and fn.n(fn.strip(a)).get('k') == 'member' and fn.n(fn.strip(a))['n'] == 'is_active')
        cs = [c for c in calls(fn) if c[2].get('op') == '()']
        ok = bool(cs) and bool(g) and all(dominated_by_edges(fn, c[0], g)[0] for c in cs)
        rep.ob('D5', 'K3', fn, 'raii_guard runs its functor at scope exit iff still active', ok, 'raii_guard destructor changed')



# ---------------------------------------------------------------------------------------------------------------
def d8_tree_window(facts, rep):
    """offer_work_impl of the tree-based algorithms: the running task is re-parented (this->my_parent = new node with
    ref_count 2).  From that store on the node expects two children.  If anything throws before the right child is
    attached and spawned, cancel()/finalize() of the running task folds a node that waits for a child that was never
    created: the root wait is never released and the exception never surfaces.  Rule: no call that may throw (callee
    not noexcept) between the re-parenting store and the spawn of the sibling."""
    n = 0
    for cls in ('start_for', 'start_reduce', 'start_deterministic_reduce'):
        fns = facts.get(D1 + cls + '::offer_work_impl')
        for fn in fns:
            stores = []
            for pos, s, nd in fn.stmt_elems(('binop',)):
                if nd['op'] != '=':
                    continue
                l = fn.n(fn.strip(nd['l']))
                if l.get('k') == 'member' and l.get('n') == 'my_parent' and fn.n(l.get('base', -1)).get('k') == 'this':
                    stores.append((pos, nd))
            sp = set(c[0] for c in calls_named(fn, ('spawn_self', 'spawn')))
            if not stores or not sp:
                raise AnalysisBroken('%s::offer_work_impl: re-parenting store or spawn not found' % cls)
            for pos, nd in stores:
                reached, ex, par = fn.walk(pos, stop_elem=lambda p, e: p in sp)
                bad = []
                for q in reached:
                    if q == pos or q in sp:
                        continue
                    e = fn.elems(q[0])[q[1]]
                    if not isinstance(e, int) or fn.nodes[e].get('k') not in ('call', 'ctor', 'new'):
                        continue
                    d = fn.callee(e)
                    if d is None or d.get('ne'):
                        continue
                    if d.get('p') in ('std::forward', 'std::move'):
                        continue
                    bad.append('%s at line %s' % (d.get('q', d.get('n')), fn.nodes[e].get('ln')))
                n += 1
                rep.ob('D8', 'K9', fn, 'nothing can throw between re-parenting the running task and spawning its sibling', not bad,
                       'after this->my_parent was set to the new 2-child join node, %s may throw (user Range/Body copy): the node then '
                       'never gets its second child, the wait hangs and the exception is never rethrown' % '; '.join(sorted(set(bad))[:2]),
                       ln=nd['ln'])
    rep.floor('D8', 3, 'offer_work_impl of the three tree-based algorithms')



# ---------------------------------------------------------------------------------------------------------------
WAIT_CLASSES = ('wait_context', 'wait_context_vertex', 'wait_tree_vertex_interface', 'reference_vertex')
HAND_OVER = ('spawn', 'spawn_self', 'execute_and_wait', 'enqueue', 'spawn_in_graph_arena', 'wait', 'run_and_wait', 'submit',
             'notify_waiters', 'enqueue_task', 'spawn_and_notify')


def d9_reference_window(facts, rep):
    """After X.reserve() the waiter expects one more release.  The release belongs to a child task (its finalize) or to the
    object being constructed (its destructor / finalize).  If an exception leaves the function between the reserve and the
    point where the child is handed to the scheduler, nobody will ever release: the wait hangs and the exception that the
    dispatcher stored is never rethrown.  Rule: in that window there is no user operation (copy / dereference / increment /
    comparison of a template-parameter typed value, a user functor call) and no library call with a may-throw summary.
    (Base-class constructors that reserve are paired with their destructor by the language; windows inside a
    try_call(...).on_exception(...) body are separate functions whose handler is checked by the idiom rule.)"""
    from rules.common import MayThrow
    # only what is certainly user code or an explicit throw / allocation counts here (ITT hooks and r1 entry points without a
    # body are not evidence of a throw in the window)
    mt = MayThrow(facts, external_may_throw=False)
    seen = set()
    n = 0
    for fn in facts.fns.values():
        if not fn.q.startswith('tbb::detail::'):
            continue
        rs = [c for c in calls_named(fn, ('reserve',)) if (c[3].get('cls') or '').split('::')[-1] in WAIT_CLASSES]
        # references taken for the waiters of a message (preview try_put_and_wait: message_metainfo::waiters()) are handed over
        # by storing the metainfo next to the buffered item, not by spawning a task: a different protocol, not covered here
        if rs and (calls_named(fn, ('waiters',)) or (fn.cls or '').endswith('trackable_messages_graph_task')):
            continue
        for pos, s, node, d in rs:
            key = (fn.p, fn.file, node['ln'])
            reached, ex, par = fn.walk(pos, stop_elem=lambda p, e: isinstance(e, int) and fn.nodes[e].get('k') == 'call' and
                                       (fn.callee(e) or {}).get('n') in HAND_OVER)
            bad = []
            for q in reached:
                if q == pos:
                    continue
                e = fn.elems(q[0])[q[1]]
                if not isinstance(e, int) or fn.nodes[e].get('k') not in ('call', 'ctor', 'new', 'unop', 'binop', 'throw'):
                    continue
                cd = fn.callee(e) if fn.nodes[e].get('k') in ('call', 'ctor') else None
                if cd is not None and cd.get('n') in HAND_OVER:
                    continue
                if mt.node(fn, e):
                    bad.append('%s at line %s' % ((cd or {}).get('n') or fn.nodes[e].get('op') or fn.nodes[e].get('k'), fn.nodes[e].get('ln')))
            if key not in seen:
                seen.add(key)
                n += 1
            rep.ob('D9', 'K9', fn, 'nothing can throw between reserve() at line %s and the hand-over of the child' % node['ln'], not bad,
                   'the reference taken at line %s is leaked when %s throws (user iterator / item copy, allocation): the task that threw is '
                   'cancelled but the extra reference is never released, the wait never ends and the stored exception is never '
                   'rethrown' % (node['ln'], '; '.join(sorted(set(bad))[:3])), ln=node['ln'], key_extra='%s:%s' % (fn.file, node['ln']))
    rep.floor('D9', 12, 'reserve() sites on wait contexts / vertices')


def exceptional_path_functions(facts, fn):
    """functions whose body also runs when an exception leaves fn: functors handed to make_raii_guard (a guard that is
    dismissed later still runs on the exceptional path) and handlers of try_call(...).on_exception / on_completion"""
    out = []
    for pos, s, node, d in calls_named(fn, ('make_raii_guard',)):
        for a in node.get('a', []):
            out += lambdas_in(facts, fn, a)
    for pos, kind, bodies, handlers, node in try_call_sites(facts, fn):
        out += handlers
    return out


def d10_token_ownership(facts, rep):
    """A pipeline item ("token") boxed by the library is owned by the stage_task (my_object).  A filter's operator() consumes its
    input token and returns the next one, which replaces my_object.  When the user body throws, operator() never returns:
    my_object still names the input token and ~stage_task() finalises it (cancel path).  So the input token must be destroyed
      - exactly once on every normal path through operator(), after the body ran, and
      - never on the exceptional path of operator() (guard functor, try_call handler, catch block): the owner does that.
    On the caller side the pointer handed to the filter is replaced by the filter's result in the same statement."""
    n = 0
    for fn in facts.fns.values():
        if fn.p != D1 + 'concrete_filter::operator()' :
            continue
        params = [pp for pp in fn.d.get('params', []) if pp.get('n')]
        uses_input = any(nd.get('k') == 'var' and 'param' in nd for nd in fn.nodes)
        dt = calls_named(fn, ('destroy_token',))
        for c in calls(fn):
            g = facts.fns.get(c[2].get('fn'))
            if g is not None and g.kind == 'lambda' and g.d.get('lparent') == fn.u and calls_named(g, ('destroy_token',)):
                dt.append(c)           # a local helper lambda that is called directly is part of the normal path
        dts = set(c[1] for c in dt)
        body = [c for c in calls(fn) if c[1] not in dts and ((c[3] or {}).get('n') in ('invoke', 'operator()') or fn.nodes[c[1]].get('tp'))]
        if not uses_input:
            continue            # first filter of a pipeline: no input token
        n += 1
        once = bool(dt) and bool(body)
        wit = ''
        if once:
            # every path from the (last) body invocation to the exit passes exactly one destroy_token
            for b in body:
                ok, w = every_path_passes(fn, b[0], lambda p, e: p in set(c[0] for c in dt))
                if not ok:
                    once, wit = False, w
            for c in dt:
                reached, ex, par = fn.walk(c[0])
                if any(q in reached for q in set(x[0] for x in dt)):
                    once, wit = False, 'a second destroy_token is reachable after the one at line %s' % c[2]['ln']
                if not any(fn.can_reach(b[0], c[0]) for b in body):
                    once, wit = False, 'destroy_token at line %s does not follow the body invocation' % c[2]['ln']
        rep.ob('D10', 'K3', fn, 'the consumed input token is destroyed exactly once on the normal path, after the body returned', once,
               'the boxed input item is leaked or destroyed twice when the filter completes normally (%s)' % wit)
        bad = []
        for g in exceptional_path_functions(facts, fn):
            if calls_named(g, ('destroy_token', 'finalize')):
                bad.append('functor at line %s runs at scope exit / on exception' % g.l0)
        for b, cn in catch_blocks(fn):
            reached, ex, par = fn.walk((b, -1))
            if any(is_call_to(fn, fn.elems(q[0])[q[1]], shortnames=('destroy_token', 'finalize')) for q in reached):
                bad.append('catch block at line %s' % cn.get('ln'))
        rep.ob('D10', 'K9', fn, 'the input token is not destroyed on the exceptional path of the filter (its owner, the stage task, finalises it)',
               not bad, 'when the user body throws the token is destroyed here (%s) AND again by ~stage_task() through filter->finalize(my_object): '
               'double destruction / double free of the boxed item' % '; '.join(bad))
    if n < 2:
        raise AnalysisBroken('fewer than two input-taking concrete_filter::operator() instantiations found (%d)' % n)
    for fn in facts.get(R1 + 'stage_task::execute_filter'):
        k = 0
        for pos, s, node, d in calls(fn):
            if not ((d or {}).get('n') == 'operator()' and (d or {}).get('cls', '').endswith('base_filter')):
                continue
            k += 1
            arg = node.get('a', [None])[0]
            arg_m = last_member(fn, arg) if arg is not None else None
            pm = fn.parent_map()
            par = pm.get(s)
            for _ in range(3):
                if par is not None and fn.nodes[par].get('k') in ('cast', 'rd'):
                    par = pm.get(par)
            pn = fn.nodes[par] if par is not None else {}
            ok = pn.get('k') == 'binop' and pn.get('op') == '=' and arg_m is not None and last_member(fn, pn['l']) == arg_m
            rep.ob('D10', 'K10', fn, 'the token handed to a filter is replaced by the filter\'s result (line %s)' % node['ln'], ok,
                   'after a normal return the task still names the consumed token: it is finalised again by the destructor or passed to '
                   'the next filter', ln=node['ln'], key_extra=str(node['ln']))
        if k < 2:
            raise AnalysisBroken('stage_task::execute_filter: filter invocations not found (%d)' % k)
    # parked items: an item that arrives out of turn at a serial filter is parked in the filter's input_buffer (try_put_token
    # copies the task_info into array[] and the depositing task lets go of it).  It leaves the buffer either through
    # try_to_spawn_task_for_next_token (normal operation) or - when the pipeline is cancelled before its turn comes - never.
    # The teardown of the pipeline is then the last owner: it must hand every still valid entry to the filter's finalize().
    from engine.rules import Summaries
    summ = Summaries(facts, max_depth=4)

    def finalizes_valid(f, pos, e):
        if not is_call_to(f, e, shortnames=('finalize',)):
            return False
        d = f.callee(e) or {}
        if not (d.get('cls') or '').endswith('base_filter'):
            return False
        ve = edges_where(f, lambda a, truth: truth and f.n(f.strip(a)).get('k') == 'member' and f.n(f.strip(a))['n'] == 'is_valid')
        return bool(ve) and dominated_by_edges(f, pos, ve)[0]
    for fn in facts.get(R1 + 'pipeline::(dtor)'):
        ok = summ.may(fn, 'finalize-parked', finalizes_valid)
        rep.ob('D10', 'K3', fn, 'the pipeline teardown finalises the items that are still parked in a serial filter\'s input buffer', ok,
               'input_buffer::array[] entries with is_valid set (items that arrived out of turn) are dropped with the array when the pipeline '
               'was cancelled before their turn: the boxed items are never destroyed')
    rep.floor('D10', 6, 'pipeline token ownership')


def d11_local_ownership(facts, rep):
    """'All objects the library created for the cancelled work are destroyed exactly once.'  Task objects normally own themselves
    (finalize() deletes `this` on execute and on cancel).  An object that a function creates with new_object and destroys itself
    with delete_object is owned by that function: every call between the two that can leave by an exception - in particular the
    blocking wait, which rethrows the group's exception - must run under a guard / try_call handler that destroys the object.
    Enumerated over every function of the analysed units that both creates and deletes small objects."""
    from rules.common import MayThrow
    mt = MayThrow(facts, external_may_throw=False)
    n = 0
    seen = set()
    for fn in facts.fns.values():
        if not fn.q.startswith('tbb::detail::'):
            continue
        news = calls_named(fn, ('new_object',))
        dels = calls_named(fn, ('delete_object',))
        if not news or not dels or (fn.p, fn.l0) in seen:
            continue
        defs = Defs(fn)
        for npos, ns, nnode, nd in news:
            # the variable bound to the new object: `auto& x = *alloc.new_object<T>(...)` / `T* x = alloc.new_object<T>(...)`
            owner = None
            for (vid, dn), val in defs.value_of.items():
                if val is not None and ns in fn.subtree(val):
                    owner = vid
            if owner is None:
                continue
            mine = [c for c in dels if any(fn.nodes[x].get('k') == 'var' and fn.nodes[x].get('v') == owner
                                           for a in c[2].get('a', []) for x in fn.subtree(a))]
            if not mine:
                continue
            seen.add((fn.p, fn.l0))
            n += 1
            # may-throw calls after the creation that are not under a handler which deletes the object
            guarded_bodies = set()
            for pos, kind, bodies, handlers, node in try_call_sites(facts, fn):
                if any(calls_named(h, ('delete_object',)) for h in handlers):
                    for bfn in bodies:
                        guarded_bodies.add(bfn.u)
            guards = [c for c in calls_named(fn, ('make_raii_guard',))
                      if any(calls_named(g, ('delete_object',)) for a in c[2].get('a', []) for g in lambdas_in(facts, fn, a))]
            reached, ex, par = fn.walk(npos)
            bad = []
            for q in reached:
                if q == npos:
                    continue
                e = fn.elems(q[0])[q[1]]
                if not isinstance(e, int) or fn.nodes[e].get('k') != 'call':
                    continue
                cd = fn.callee(e) or {}
                throws = cd.get('n') in ('execute_and_wait', 'wait', 'run_and_wait') or mt.node(fn, e)
                if not throws or cd.get('n') in ('new_object', 'delete_object'):
                    continue
                if any(every_path_passes(fn, 'entry', lambda p, el, g=g: p == g[0], end=q)[0] for g in guards):
                    continue
                bad.append('%s at line %s' % (cd.get('n'), fn.nodes[e].get('ln')))
            tname = (nd.get('q') or '').split('new_object<', 1)[-1].split('<', 1)[0].split('::')[-1]
            rep.ob('D11', 'K9', fn, 'the %s created and deleted by %s is also destroyed when a call in between throws'
                   % (tname or 'object', fn.p.split('::')[-2] + '::' + fn.p.split('::')[-1]), not bad, 'calls that can leave by an exception while the function still owns the object: %s - the object (and what '
                   'it holds: a copy of the user\'s Body) is never destroyed' % ', '.join(sorted(set(bad))[:4]), ln=nnode['ln'],
                   key_extra='local-own|%s' % fn.p)
    if n < 1:
        raise AnalysisBroken('no function with locally owned small objects found (start_scan::run)')
    rep.floor('D11', 1, 'locally owned small objects')


def d12_no_user_code_after_self_destruction(facts, rep):
    """When execute() of a task leaves by an exception the dispatcher records it, cancels the group and then calls cancel() ON THE
    SAME TASK, which finalises it (destroys it, unwinds the tree, frees the memory).  That protocol only works while the task
    is still intact when the exception escapes: a task that has already run its own destructor (`this->~T()`) and then calls
    something that runs user code (Body::join while folding the tree) is finalised a second time if that user code throws -
    second destructor call, second decrement of the same parent node, the interrupted fold never reaches the root: the wait
    of the algorithm never returns (or memory is corrupted).  Rule: in every function that destroys `this`, no element
    reachable after the destructor call can raise a user exception (user operations by template-parameter type, `throw`,
    allocation; interprocedural), unless it runs under a catch(...) handler."""
    from rules.common import MayThrow
    mt = MayThrow(facts, external_may_throw=False, library_throws=False)
    n = 0
    for fn in sorted(facts.fns.values(), key=lambda f: f.q):
        if not fn.q.startswith('tbb::detail::') or fn.kind != 'method':
            continue
        dts = []
        for pos, s, node, d in calls(fn):
            if (d or {}).get('n') == '(dtor)' and fn.n(fn.strip(node.get('obj', -1))).get('k') == 'this':
                dts.append((pos, s, node))
        if not dts:
            continue
        for pos, s, node in dts:
            n += 1
            reached, ex, par = fn.walk(pos)
            bad = []
            for q in sorted(reached):
                if q == pos:
                    continue
                e = fn.elems(q[0])[q[1]]
                if not isinstance(e, int) or fn.nodes[e].get('k') not in ('call', 'ctor', 'new', 'throw'):
                    continue
                if not mt.node(fn, e):
                    continue
                t = fn.nodes[e].get('tr')
                if t is not None and any(nd and nd.get('k') == 'catch' and nd.get('try') == t and nd.get('ell') for nd in fn.nodes):
                    continue
                cd = fn.callee(e) or {}
                bad.append('%s at line %s' % (cd.get('n') or fn.nodes[e].get('k'), fn.nodes[e].get('ln')))
            rep.ob('D12', 'K9', fn, 'after the task has destroyed itself nothing that can raise a user exception runs in the same call', not bad,
                   'user code can throw after `this->~%s()`: %s - the exception leaves execute(), the dispatcher calls cancel() on the destroyed '
                   'task, which is finalised a second time; the interrupted fold never reaches the root and the wait of the algorithm '
                   'never returns' % (fn.p.split('::')[-2], ', '.join(sorted(set(bad))[:4])), ln=node.get('ln'), key_extra='self-dtor')
    if n < 3:
        raise AnalysisBroken('functions destroying `this`: %d (expected the finalize() functions of the algorithm tasks)' % n)
    rep.floor('D12', 3, 'self-destroying functions')


def d12_fold_tolerates_throwing_join(facts, rep):
    """A tree fold that calls a join() which can raise a user exception is repeated after the exception (the task is
    cancelled and finalised again): the node whose join threw has already lost the reference of this task, so the fold must give
    it back on the exceptional path - otherwise the repeated fold decrements the counter below zero and the tree is never
    unwound to the root.  Decided with exit_coverage on every instantiation of the derived tree folds."""
    from rules.common import MayThrow, tree_folds, _refcount_decrement
    mt = MayThrow(facts, external_may_throw=False, library_throws=False)
    summ = Summaries(facts, max_depth=3)

    def gives_back(g, pos, e):
        if not isinstance(e, int):
            return False
        op = atomic_op(g, e)
        return bool(op and op['kind'] == 'rmw' and op['name'] in ('fetch_add', 'operator++', 'operator+=') and
                    last_member(g, op['obj']) in ('m_ref_count', 'ref_count', 'my_ref_count'))
    n = 0
    for p_ in sorted(tree_folds(facts)):
        for fn in facts.get(p_):
            def throwing_user_call(g, pos, e):
                return isinstance(e, int) and g.nodes[e].get('k') == 'call' and not _refcount_decrement(g, e) and mt.node(g, e)
            nops, normal_ok, exc_ok, notes = exit_coverage(facts, summ, fn, throwing_user_call, gives_back, 'gives-reference-back')
            if not nops:
                continue
            n += 1
            rep.ob('D12', 'K9', fn, 'a tree fold gives the node its reference back when the join it calls throws', exc_ok,
                   'user code called from the fold can throw and nothing restores the counter (%s): the fold is repeated after the '
                   'exception and decrements the same node again - the tree is never unwound to the root, the algorithm does not return'
                   % '; '.join(n_ for n_ in notes if 'throws' in n_), key_extra='fold-restore')
    if n < 1:
        raise AnalysisBroken('no tree fold calls a join that can throw (parallel_reduce is no longer instantiated by the drivers?)')


def d13_constructor_reservations(facts, rep):
    """A class whose constructor reserves a reference of a wait context (the graph's "work in flight" counter) while classes
    derived from it can still fail to construct (their constructors copy the user's message or body, which may throw) has to
    give the reference back when that happens: the destructor of the base sub-object is the only code that runs.  Otherwise the
    exception reaches the caller of try_put, but the counter never returns to zero and wait_for_all() blocks for ever - the
    graph is not "reusable afterwards"."""
    from rules.common import MayThrow
    mt = MayThrow(facts, external_may_throw=False, library_throws=False)

    def reserves(g, e):
        if not isinstance(e, int) or g.nodes[e].get('k') != 'call':
            return False
        q = (g.callee(e) or {}).get('q') or ''
        return q.endswith('::reserve') and ('wait_tree_vertex_interface' in q or 'wait_context' in q or 'reference_vertex' in q)

    def releases(g, e):
        if not isinstance(e, int) or g.nodes[e].get('k') != 'call':
            return False
        q = (g.callee(e) or {}).get('q') or ''
        return q.endswith('::release') and ('wait_tree_vertex_interface' in q or 'wait_context' in q or 'reference_vertex' in q)
    n = 0
    done = set()
    # one named exception, with its reason (replayed: /tmp-free probe in findings/C03-graph-task-constructor-throws/README.md)
    EXCEPTIONS = {
        D2 + 'trackable_messages_graph_task':
            'preview feature try_put_and_wait: the references reserved by this constructor belong to the wait context of ONE message, a '
            'local of the try_put_and_wait call that is being unwound by the same exception - nobody waits on it afterwards (a throwing '
            'message copy makes try_put_and_wait throw and leaves the graph usable on the pinned tree); the graph-wide reference is the '
            'one reserved by the base class graph_task',
    }
    for fn in sorted(facts.fns.values(), key=lambda f: f.q):
        if fn.kind != 'ctor' or not fn.q.startswith('tbb::detail::') or fn.cls in done:
            continue
        if not any(reserves(fn, e) for _, _, e in fn.iter_elems()):
            continue
        cls = fn.cls
        if cls in EXCEPTIONS:
            done.add(cls)
            rep.note('D13 %s: recorded exception -- %s' % (cls.split('::')[-1], EXCEPTIONS[cls]))
            continue
        done.add(cls)
        derived = [p for p, cs in facts.classes.items() if any(cls in c.get('allbases', ()) for c in cs)]
        throwing = []
        for p in sorted(derived):
            for g in facts.by_p.get(p + '::(ctor)', []):
                if mt.fn(g.u):
                    throwing.append(p.split('::')[-1])
                    break
        if not throwing:
            continue
        n += 1
        dts = facts.by_p.get(cls + '::(dtor)', [])
        ok = any(releases(d_, e) for d_ in dts for _, _, e in d_.iter_elems())
        rep.ob('D13', 'K3', fn, 'a wait reference reserved by a base-class constructor is released by its destructor when a derived constructor throws',
               ok, 'the constructor of %s reserves a wait reference and %d derived task classes have constructors that run user code (%s ...) - '
               'when the user\'s copy throws nothing gives the reference back: wait_for_all() never returns'
               % (cls.split('::')[-1], len(set(throwing)), ', '.join(sorted(set(throwing))[:3])), key_extra='ctor-reserve|' + cls)
    if n < 1:
        raise AnalysisBroken('no constructor reserving a wait reference with throwing derived constructors found (graph_task)')


def d13_storage_of_failed_constructions(facts, rep):
    """small_object_allocator::new_object obtains storage from the thread's pool and constructs the object (a task holding a
    copy of the user's functor, body or message) in place.  The constructor can throw whatever the user's copy constructor
    throws; the exception reaches the caller (task_group::run, try_put ...), and the storage has to go back to the pool on that
    path - otherwise every failed submission leaks one block ("all objects the library created are destroyed exactly once"
    includes what was allocated for an object that never came to life).  Decided with exit_coverage on every instantiation
    whose constructor may throw."""
    from rules.common import MayThrow
    mt = MayThrow(facts, external_may_throw=False, library_throws=False)
    summ = Summaries(facts, max_depth=2)

    def gives_back(g, pos, e):
        return isinstance(e, int) and g.nodes[e].get('k') == 'call' and ((g.callee(e) or {}).get('q') or '') == R1 + 'deallocate'
    n = 0
    for fn in facts.get(D1 + 'small_object_allocator::new_object'):
        def throwing_ctor(g, pos, e):
            return isinstance(e, int) and g.nodes[e].get('k') == 'ctor' and mt.node(g, e)
        nops, normal_ok, exc_ok, notes = exit_coverage(facts, summ, fn, throwing_ctor, gives_back, 'returns-storage')
        if not nops:
            continue
        n += 1
        rep.ob('D13', 'K3', fn, 'storage obtained for an object whose constructor throws is returned to the pool', exc_ok,
               'the constructor runs user code (copy of a functor / body / message) and nothing deallocates the block when it throws: every '
               'failed task_group::run / try_put leaks one small object', key_extra='new_object')
    if n < 1:
        raise AnalysisBroken('no instantiation of small_object_allocator::new_object with a throwing constructor found')


def d4_single_slot_storage(facts, rep):
    """"All objects the library created ... are destroyed exactly once": a class that keeps an object in raw storage
    (aligned_space<T> with one slot) and destroys it explicitly in its destructor may do so only if the object exists: either
    every constructor of the class constructs it, or the destructor call is guarded by a member flag, and then every
    placement-new into that storage (anywhere in the analysed code) is followed on every path by raising that flag.
    Otherwise the destructor of a user type (Range, Body, a return value) runs on storage that was never constructed."""
    n = 0

    def storage_members(fn, root):
        out = []
        if root is None or root < 0:
            return out
        for x in fn.subtree(root):
            m = fn.nodes[x]
            if m.get('k') == 'member' and (m.get('ty') or '').replace(' ', '').endswith(',1>') and 'aligned_space<' in (m.get('ty') or ''):
                out.append(m)
        return out
    news = {}          # (declaring class, member) -> [(fn, pos)]
    for fn in facts.fns.values():
        if not fn.q.startswith('tbb::detail::'):
            continue
        for pos, s, nd in fn.stmt_elems(('new',)):
            for a in nd.get('pl') or []:
                for m in storage_members(fn, a):
                    news.setdefault((m.get('cls'), m['n']), []).append((fn, pos))
    seen = set()
    for fn in sorted(facts.fns.values(), key=lambda f: f.q):
        if fn.kind != 'dtor' or not fn.q.startswith('tbb::detail::'):
            continue
        for pos, s, nd in fn.stmt_elems(('call', 'pseudodtor')):
            if nd.get('k') == 'call' and (fn.callee(s) or {}).get('n') != '(dtor)':
                continue
            ms = storage_members(fn, nd.get('obj', nd.get('sub', -1)))
            if not ms:
                continue
            m = ms[0]
            key = (fn.p, m['n'])
            n += 1
            flags = {}

            def flag_guard(a, truth, flags=flags):
                x = fn.n(fn.strip(a))
                if x.get('k') == 'member' and fn.n(fn.strip(x.get('base', -1))).get('k') == 'this' and truth:
                    flags[x['n']] = True
                    return True
                return False
            guarded, wit = dominated_by_edges(fn, pos, edges_where(fn, flag_guard))
            ctors = facts.by_p.get(fn.p.rsplit('::', 1)[0] + '::(ctor)', [])
            all_construct = bool(ctors) and all(any(g is c for g, _ in news.get((m.get('cls'), m['n']), [])) for c in ctors)
            ok = guarded or all_construct
            detail = 'the destructor destroys %s unconditionally, but only %s construct(s) it' % (
                m['n'], sorted(set(g.p.split('::')[-1] for g, _ in news.get((m.get('cls'), m['n']), []))) or 'nothing in the analysed code')
            if guarded:
                # the flag tested in the destructor is raised somewhere (after the construction in the same function - the zombie
                # body - or where the object is taken over - task_arena_function::consume_result); a flag that is never raised
                # means the object is never destroyed
                raised = False
                for g in facts.fns.values():
                    if g.q.startswith('tbb::detail::') and any(last_member(g, l2) in flags and g.cv(r2) == 1 for p2, s2, l2, r2 in assignments(g)):
                        raised = True
                        break
                if not raised:
                    ok = False
                    detail = 'the flag %s that guards the destruction is never raised: the object is never destroyed' % '/'.join(sorted(flags))
            rep.ob('D4', 'K3', fn, 'an object kept in single-slot raw storage is destroyed only if it was constructed (%s)' % m['n'], ok,
                   detail + ' - the destructor of a user type runs on storage that never held an object', ln=nd.get('ln'), key_extra='slot|' + m['n'])
    if n < 3:
        raise AnalysisBroken('destructors destroying single-slot aligned_space members: %d (expected reduction_tree_node, final_sum, task_arena_function, ets_element)' % n)


def zombie_pairing(facts, rep, clause):
    """shared with C06 (D2): the record of the lazily split body agrees with its construction"""
    # the lazily split body lives in raw storage of the tree node (zombie_space); has_right_zombie is the only record that it
    # exists.  Wherever it is constructed (start_reduce::execute or a helper of the node): the flag is raised on every path after
    # the construction - and NOT before it: the splitting constructor is user code and may throw, and a node that claims a body
    # which was never constructed runs ~Body() on raw storage when the tree is folded.
    nsites = 0
    for fn in sorted(facts.fns.values(), key=lambda f: f.q):
        if not fn.q.startswith(D1):
            continue
        news = [(p, s_, nd) for p, s_, nd in fn.stmt_elems(('new',)) if nd.get('pl') and
                any(fn.nodes[x].get('k') == 'member' and fn.nodes[x].get('n') == 'zombie_space' for a in nd['pl'] for x in fn.subtree(a))]
        if not news:
            continue
        flag = [(p, s_) for p, s_, nd in fn.stmt_elems(('binop',)) if nd['op'] == '=' and last_member(fn, nd['l']) == 'has_right_zombie' and fn.cv(nd['r']) == 1]
        for p, s_, nd in news:
            nsites += 1
            ok, wit = every_path_passes(fn, p, lambda q, e: q in set(x[0] for x in flag))
            if not ok and not flag:
                # a helper that only constructs: every caller raises the flag after the call
                cs = facts.callers(fn.u)
                ok = bool(cs)
                for g, cpos, cs_ in cs:
                    gf = set(p2 for p2, s2, nd2 in g.stmt_elems(('binop',)) if nd2['op'] == '=' and last_member(g, nd2['l']) == 'has_right_zombie' and g.cv(nd2['r']) == 1)
                    ok = ok and every_path_passes(g, cpos, lambda q, e, gf=gf: q in gf)[0]
            rep.ob(clause, 'K3', fn, 'constructing the zombie body sets has_right_zombie on every path', ok,
                   'a split body is constructed but never joined/destroyed: ' + wit, ln=nd['ln'])
            early = [q for q, _ in flag if fn.can_reach(q, p)]
            rep.ob(clause, 'K3', fn, 'has_right_zombie is raised only after the body has been constructed', not early,
                   'the flag is raised before the splitting constructor (user code) has run: if it throws, the node claims a body that was '
                   'never constructed and ~Body() runs on raw storage when the tree is folded', ln=nd['ln'], key_extra='flag-after')
    if not nsites:
        raise AnalysisBroken('no placement new into reduction_tree_node::zombie_space found (the lazy body split)')


def d11_handlers_do_not_delete_what_they_may_not_own(facts, rep):
    """A task object normally owns itself: its execute()/cancel() end by deleting it.  A function that creates such an object
    and keeps a reference may delete it itself only while the object has not been handed to the scheduler or to a tree that will
    run it.  On the normal path that is decided by the branch the function is in; a scope-exit handler (try_call(..).on_exception,
    raii_guard) runs after ANY of the covered calls has thrown, also after the object has been passed on - there an unconditional
    delete_object of an escaped, self-deleting task object destroys it a second time.  Rule: such a handler deletes the object only
    under a guard (some branch inside the handler decides)."""
    from engine.rules import Summaries
    summ = Summaries(facts, max_depth=4)

    def deletes_this(g, pos, e):
        if not isinstance(e, int) or g.nodes[e].get('k') != 'call' or (g.callee(e) or {}).get('n') != 'delete_object':
            return False
        return any(g.nodes[x].get('k') == 'this' for a in g.nodes[e].get('a', []) for x in g.subtree(a))
    n = 0
    for fn in sorted(facts.fns.values(), key=lambda f: f.q):
        if not fn.q.startswith('tbb::detail::') or fn.kind == 'lambda':
            continue
        news = calls_named(fn, ('new_object',))
        if not news:
            continue
        hs = exceptional_path_functions(facts, fn)
        if not hs:
            continue
        defs = Defs(fn)
        for npos, ns, nnode, nd in news:
            q = (nd or {}).get('q') or ''
            tname = q.split('new_object<', 1)[-1].split('>::', 1)[0] if 'new_object<' in q else ''
            tcls = tname.split('<', 1)[0].strip()
            selfdel = False
            for mname in ('execute', 'cancel'):
                for g in facts.by_p.get(tcls + '::' + mname, []):
                    if summ.may(g, 'deletes-this', deletes_this):
                        selfdel = True
            if not selfdel:
                continue
            owner = None
            for (vid, dn), val in defs.value_of.items():
                if val is not None and ns in fn.subtree(val):
                    owner = vid
            if owner is None:
                continue
            oname_ = next((v['n'] for nd_ in fn.nodes if nd_ and nd_.get('k') == 'decl' for v in nd_['vars'] if v['v'] == owner), None)
            # does the object escape inside the region a handler covers?  (it is passed as an argument to some call there - to a
            # constructor or a method of another object; using its own members does not count)
            covered = []
            for pos_, kind_, bodies_, handlers_, node_ in try_call_sites(facts, fn):
                covered += [(b_, handlers_) for b_ in bodies_]
            for h in hs:
                bodies = [b_ for b_, hh in covered if h in hh] or [fn]
                escapes = False
                for b_ in bodies:
                    for pos2, s2, node2, d2 in calls(b_):
                        if (d2 or {}).get('n') == 'delete_object':
                            continue
                        if any(b_.nodes[x].get('k') in ('var', 'member') and b_.nodes[x].get('n') == oname_ and 'fn' not in b_.nodes[x]
                               for a in node2.get('a', []) for x in b_.subtree(a)):
                            escapes = True
                if not escapes:
                    continue
                for pos, s_, node, d in calls_named(h, ('delete_object',)):
                    # the handler captures the owner by reference: the argument names the same variable
                    if not any(h.nodes[x].get('k') in ('var', 'member') and (h.nodes[x].get('n') == oname_) for a in node.get('a', []) for x in h.subtree(a)):
                        continue
                    n += 1
                    guarded = any(len(blk['succ']) == 2 and blk.get('term') and 'c' in blk['term'] and
                                  h.can_reach((b, len(blk['e']) - 1 if blk['e'] else -1), pos) for b, blk in h.blocks.items())
                    rep.ob('D11', 'K3', fn, 'a scope-exit handler deletes a self-deleting task object only under a guard', guarded,
                           'the handler deletes `%s` (a %s, which deletes itself when it is executed or cancelled) unconditionally: after the object '
                           'has been handed to the tree / the scheduler an exception from a later call makes the handler destroy it a second '
                           'time' % (oname_, tcls.split('::')[-1]), ln=node.get('ln'), key_extra='handler-delete|%s' % oname_)
    rep.note('D11 handlers deleting self-deleting task objects: %d' % n)


def d2_destructor_wait_during_unwinding(facts, rep):
    """"rethrows one exception ... from the call that waits for the group": a task_group destroyed by stack unwinding (an exception
    thrown between run() and wait()) still has to wait for its tasks - ~task_group_base does so and, knowing that it runs during
    unwinding, does not report the missing wait.  But its internal wait rethrows the exception a task of the group has thrown
    meanwhile: a second exception leaves a destructor while the first is in flight and the program is terminated - the exception
    in flight never reaches its handler.  Rule: in ~task_group_base every wait that can run while stack_unwinding_in_progress
    holds (not dominated by the edge on which it is false) stands inside a try block whose handler does not rethrow."""
    n = 0
    for fn in facts.fns.values():
        if fn.p != 'tbb::detail::d2::task_group_base::(dtor)':
            continue
        defs = Defs(fn)
        waits = [(pos, node) for pos, s, node, d in calls(fn) if (d or {}).get('n') == 'wait' and (d or {}).get('p', '').startswith('tbb::detail::d1::wait')]
        if not waits:
            raise AnalysisBroken('~task_group_base: the internal wait was not found')

        def not_unwinding(a, truth):
            src = resolve_cond_source(fn, defs, a)
            has = any(fn.nodes[x].get('k') == 'call' and (fn.callee(x) or {}).get('n') in ('uncaught_exceptions', 'uncaught_exception') for x in fn.subtree(src))
            if not has:
                return False
            nd = fn.n(src)
            # `uncaught_exceptions() > 0` / `uncaught_exception()`: unwinding when true
            return not truth
        safe = edges_where(fn, not_unwinding)
        if not safe:
            raise AnalysisBroken('~task_group_base: the stack-unwinding test was not found')
        for pos, node in waits:
            n += 1
            if dominated_by_edges(fn, pos, safe)[0]:
                ok = True
            else:
                catches = [c for c in fn.nodes if c and c.get('k') == 'catch' and c.get('try') == node.get('tr')] if node.get('tr') is not None else []
                rethrows = any(nd and nd.get('k') == 'throw' and 'sub' not in nd and nd.get('ca') in set(c['s'] for c in catches) for nd in fn.nodes)
                ok = bool(catches) and all(c.get('ell') for c in catches) and not rethrows
            rep.ob('D2', 'K9', fn, 'the wait inside ~task_group_base cannot throw while another exception is in flight', ok,
                   'd1::wait at line %s can run during stack unwinding and rethrows the exception a task of the group has thrown: a second exception '
                   'leaves the destructor, std::terminate is called and the exception in flight never reaches its handler' % node.get('ln'),
                   ln=node.get('ln'), key_extra='dtor-wait-unwinding')
    if n < 1:
        raise AnalysisBroken('~task_group_base not instantiated')
