"""C04 - cancellation reaches every descendant context and nothing else; one winner.  (DESIGN.md section 4, C04)"""
from engine.facts import AnalysisBroken, atomic_op, atomic_ops, has_acquire, has_release, is_full_fence
from engine.rules import (calls, calls_named, atomics_on, every_path_passes, last_member, oname, is_call_to, Defs,
                          resolve_cond_source, edges_where, dominated_by_edges, lockset, member_accesses, root_of, Summaries, assignments)
from rules.common import TBB_SRC

UNITS = ['src/tbb/task_group_context.cpp', 'src/tbb/threading_control.cpp', 'src/tbb/main.cpp', 'src/tbb/governor.cpp',
         'src/tbb/arena.cpp', 'src/tbb/task_dispatcher.cpp', 'drivers/algorithms.cpp']
UNITS_THOROUGH = sorted(set(UNITS + TBB_SRC + ['drivers/flow.cpp']))
R1 = 'tbb::detail::r1::'
TGC = R1 + 'task_group_context_impl::'
FLAG = 'my_cancellation_requested'

EXPLANATION = (
    'Decides the structural necessary conditions of cancellation propagation: D1 the 0->1 transition of the cancellation flag '
    'is an atomic exchange/CAS and only the caller that saw 0 returns true and propagates; D2 writer table of the flag over all '
    'analysed units (constant 0 only in initialize/reset, copies from the parent only while binding, the propagated state only '
    'inside the ancestor==src guarded loop); D3 the propagation holds the threads-list mutex over re-check, epoch increment and '
    'the walk, each per-thread walk holds the context-list mutex and publishes the list epoch (release) after the walk, list '
    'mutations hold the list mutex; D4 binding order chain (may_have_children, epoch snapshot with acquire, speculative copy, '
    'registration = full fence, global epoch re-check, re-copy under the propagation lock) AND lock identity: the lock under '
    'which a binder re-copies its parent\'s state must be a lock the propagator holds while it walks; D5 exactly one binder '
    '(CAS created->locked), isolated contexts are never bound, final state published with release.  The reachability statement '
    'over all interleavings of bind/cancel (the epoch argument itself) is NOT decided.')
EXPLANATION += ' Added after the seeded-change rounds: ' + 'D2 also: the may-have-children hint is cleared only at construction; D3 also: a context list that still holds contexts when its thread goes away must stay reachable for the propagation (violated on the pinned tree: known finding); D4 also: the epoch snapshot is taken from the context list that holds the parent whose flag is copied.'
EXPLANATION += ' Added in the third session (round-3 seeds and the findings they led to): ' + "D2 also: binding can only raise the cancellation flag, never overwrite a requested cancellation with 0; D4 also: a full fence separates the store of the parent's may-have-children hint from every later read of the parent's state (store-buffering pair with cancel_group_execution)."
EXPLANATION += ' Added in the sixth (partial) seeding round: ' + 'D3 also: in task_group_context_impl::propagate_task_group_state the climb through the parent chain ends only at the cancelled source or at the root (every other edge leaving the loop is dominated by the ancestor == &src edge).'
ASSUMPTIONS = ['mutex acquisition (d1::mutex / spin_mutex scoped_lock) is a seq_cst RMW, i.e. a full fence',
               'single threading_control instance at a time (as enforced by g_threading_control)']
ND = ['the reachability statement over all interleavings of bind/cancel', 'destroy racing propagate beyond lock discipline']

LOCKCLS = lambda c: c.endswith('scoped_lock') or c in ('std::lock_guard', 'std::unique_lock')   # noqa: E731


def is_ptm(fn, s):
    n = fn.n(fn.strip(s))
    return n.get('k') == 'binop' and n['op'] in ('->*', '.*')


def flag_ops(fn, kinds=None, inline=True):
    """atomic operations on the cancellation flag: by member name or through the pointer-to-member state argument.  Operations of
    a local lambda that fn calls directly are reported at the position of the call (a helper lambda is part of the function);
    such an entry carries 'fn' = the lambda (its node ids are the lambda's) and 'inlined'."""
    out = []
    for pos, op in atomic_ops(fn):
        if op['kind'] == 'fence':
            continue
        if last_member(fn, op['obj']) == FLAG or is_ptm(fn, op['obj']):
            if kinds is None or op['kind'] in kinds:
                out.append((pos, op))
    if inline:
        for pos, s, node, d in calls(fn):
            g = fn.facts.fns.get(node.get('fn'))
            if g is not None and g.kind == 'lambda' and g.d.get('lparent') == fn.u:
                for p2, op2 in flag_ops(g, kinds, inline=False):
                    o3 = dict(op2)
                    o3.update(fn=g, inlined=True, ln=node.get('ln'), inner_pos=p2)
                    out.append((pos, o3))
    return out


def lock_decl_key(fn, arg):
    """identity of a mutex expression by declaration"""
    s = fn.strip(arg)
    n = fn.n(s)
    if n.get('k') == 'var':
        return ('global', n.get('glob') or n['n'])
    if n.get('k') == 'member':
        return ('field', n.get('cls'), n['n'])
    return ('expr', fn.path(s))


def run(facts, rep):
    d1_winner(facts, rep)
    d2_writers(facts, rep)
    d3_propagation(facts, rep)
    d3_orphaned_lists(facts, rep)
    d3_ancestor_walk_is_complete(facts, rep)
    d4_binding(facts, rep)
    d5_binder(facts, rep)


def d1_winner(facts, rep):
    for fn in facts.get(TGC + 'cancel_group_execution'):
        ops = flag_ops(fn)
        rmw = [(p, o) for p, o in ops if o['kind'] in ('rmw', 'cas')]
        st = [(p, o) for p, o in ops if o['kind'] == 'store']
        rep.ob('D1', 'K1', fn, 'the cancellation flag is raised by an atomic exchange/CAS, never by a plain store', bool(rmw) and not st,
               'flag changed by %s: two concurrent callers can both see 0 and both return true' %
               ', '.join(o['name'] for _, o in ops if o['kind'] != 'load'))
        xchg_nodes = set(o['s'] for _, o in rmw if o['kind'] == 'rmw')      # returns the old value: winner saw 0
        cas_nodes = set(o['s'] for _, o in rmw if o['kind'] == 'cas')       # returns success
        zero_edges = edges_where(fn, lambda a, truth: ((not truth) and fn.strip(a) in xchg_nodes) or
                                 (truth and fn.strip(a) in cas_nodes))
        for pos, s, node in fn.stmt_elems(('return',)):
            if 'sub' in node and fn.cv(node['sub']) == 1:
                ok, wit = dominated_by_edges(fn, pos, zero_edges)
                rep.ob('D1', 'K4', fn, '`return true` only on the edge where the RMW returned 0', ok,
                       'a caller that did not perform the 0->1 transition reports success: ' + wit, ln=node['ln'])
        pr = calls_named(fn, ('propagate_task_group_state',))
        for pos, s, node, d in pr:
            ok, wit = dominated_by_edges(fn, pos, zero_edges)
            rep.ob('D1', 'K4', fn, 'only the winner propagates', ok, wit, ln=node['ln'])
        rep.ob('D1', 'K4', fn, 'the winner propagates to descendants', bool(pr), 'propagate_task_group_state call removed')
    rep.floor('D1', 3, 'cancel_group_execution')


ALLOWED_WRITERS = {
    TGC + 'initialize': 'zero',
    TGC + 'reset': 'zero',
    TGC + 'bind_to_impl': 'copy',
    TGC + 'cancel_group_execution': 'rmw',
    TGC + 'propagate_task_group_state': 'propagate',
}


def d2_writers(facts, rep):
    seen = set()
    for fn in list(facts.fns.values()):
        ws = flag_ops(fn, kinds=('store', 'rmw', 'cas'), inline=False)
        if not ws:
            continue
        # pointer-to-member accesses are only the flag when the function handles task_group_context state
        ws = [(p, o) for p, o in ws if last_member(fn, o['obj']) == FLAG or 'task_group_context' in fn.q or 'propagate_task_group_state' in fn.p]
        if not ws:
            continue
        owner = fn
        if fn.kind == 'lambda' and facts.fns.get(fn.d.get('lparent')) is not None:
            owner = facts.fns[fn.d['lparent']]          # a helper lambda is part of the function that defines it
        kind = ALLOWED_WRITERS.get(owner.p)
        seen.add(owner.p)
        rep.ob('D2', 'K1', fn, 'writer of the cancellation flag is in the writer table', kind is not None,
               '%s writes the cancellation flag (%s) but is not one of initialize/reset/bind_to_impl/cancel_group_execution/'
               'propagate_task_group_state' % (fn.p, ', '.join(o['name'] for _, o in ws)))
        if kind is None:
            continue
        for pos, o in ws:
            val = o.get('val', -1)
            if kind == 'zero':
                ok = fn.cv(val) == 0
                rep.ob('D2', 'K1', fn, 'stores only the constant 0 (line %s)' % o['ln'], ok, 'stores %s' % fn.path(val), ln=o['ln'],
                       key_extra=str(o['ln']))
            elif kind == 'copy':
                if val >= 0:
                    val = resolve_cond_source(fn, Defs(fn), val)      # `if (state = parent->flag.load()) own.store(state)`
                sub = fn.subtree(val) if val >= 0 else set()
                ok = any(fn.nodes[x].get('k') == 'member' and fn.nodes[x]['n'] == 'my_parent' for x in sub) and \
                    any(atomic_op(fn, x) and last_member(fn, atomic_op(fn, x)['obj']) == FLAG for x in sub)
                rep.ob('D2', 'K10', fn, 'binding copies the flag from the parent context only (line %s)' % o['ln'], ok,
                       'value stored: %s' % fn.path(val), ln=o['ln'], key_extra=str(o['ln']))
                # "a cancelled context stays cancelled until it is reset": cancel_group_execution() is legal on a context that was
                # never used, i.e. before it is bound.  Binding may therefore only RAISE the flag: a plain copy of the parent's value
                # overwrites a requested cancellation with 0.  Accepted: an RMW that can only add bits (fetch_or / |=), a store on an
                # edge where the parent's value is known to be non-zero, or a stored value that ORs the context's own flag in.
                raising = o['kind'] in ('rmw', 'cas') and o['name'] in ('fetch_or', 'operator|=', 'compare_exchange_strong', 'compare_exchange_weak')
                if not raising and val >= 0:
                    own = [x for x in sub if atomic_op(fn, x) and last_member(fn, atomic_op(fn, x)['obj']) == FLAG and
                           'my_parent' not in fn.path(atomic_op(fn, x)['obj'])]
                    has_or = any(fn.nodes[x].get('k') == 'binop' and fn.nodes[x]['op'] in ('|', '||') for x in sub)
                    raising = bool(own) and has_or
                if not raising:
                    defs = Defs(fn)

                    def parent_nonzero(a, truth, fn=fn, defs=defs):
                        src = resolve_cond_source(fn, defs, a)
                        n = fn.n(src)
                        tested, want = src, True
                        if n.get('k') == 'binop' and n['op'] in ('!=', '==', '>') and (fn.cv(n['r']) == 0 or fn.cv(n['l']) == 0):
                            tested = n['l'] if fn.cv(n['r']) == 0 else n['r']
                            tested = resolve_cond_source(fn, defs, tested)
                            want = n['op'] != '=='
                        if truth != want:
                            return False
                        for x in fn.subtree(tested):
                            opx = atomic_op(fn, x)
                            if opx and opx['kind'] == 'load' and last_member(fn, opx['obj']) == FLAG and 'my_parent' in fn.path(opx['obj']):
                                return True
                        return False
                    raising = dominated_by_edges(fn, pos, edges_where(fn, parent_nonzero))[0]
                rep.ob('D2', 'K1', fn, 'binding can only raise the flag, never overwrite a requested cancellation with 0 (line %s)' % o['ln'],
                       raising, 'an unconditional copy of the parent\'s state: a context (or task_group) that was cancelled before its first '
                       'use is bound beneath a running parent and becomes NOT cancelled again - its tasks run', ln=o['ln'],
                       key_extra='raise|%s' % o['ln'])
            elif kind == 'propagate':
                # the store must be dominated by the true edge of `ancestor == &src`
                def anc_eq(a, truth):
                    n = fn.n(fn.strip(a))
                    if n.get('k') != 'binop' or n['op'] not in ('==', '!='):
                        return False
                    txt = (fn.path(n['l']), fn.path(n['r']))
                    if not any('src' in t for t in txt):
                        return False
                    return truth == (n['op'] == '==')
                edges = edges_where(fn, anc_eq)
                ok, wit = dominated_by_edges(fn, pos, edges)
                rep.ob('D2', 'K4', fn, 'the new state is written only to contexts whose ancestor chain contains the source', ok,
                       'contexts that do not descend from the cancelled one can be marked: ' + wit, ln=o['ln'])
    for need in (TGC + 'cancel_group_execution', TGC + 'propagate_task_group_state', TGC + 'bind_to_impl'):
        if need not in seen:
            raise AnalysisBroken('no write of the cancellation flag found in %s' % need)
    # the "may have children" hint lets cancel_group_execution skip the propagation.  Children register once (their single
    # created -> bound transition) and stay bound for their whole life, which can be longer than one use of the parent.
    # So the hint is monotone: it is cleared only when the context object is initialised, never by reset() or anything else.
    CLEARERS = {TGC + 'initialize': 'construction: no child can exist yet'}
    nset = 0
    for fn in list(facts.fns.values()):
        for pos, o in atomic_ops(fn):
            if o['kind'] not in ('store', 'rmw', 'cas') or last_member(fn, o['obj']) != 'my_may_have_children':
                continue
            val = o.get('val', -1)
            # the only "clearing" value is the constant 0; everything else (the may_have_children constant) sets the hint
            if val >= 0 and fn.cv(val) != 0:
                nset += 1
                continue
            rep.ob('D2', 'K11', fn, 'the may-have-children hint is cleared only at construction (line %s)' % o['ln'], fn.p in CLEARERS,
                   '%s clears the hint although bound children can still exist: a later cancel_group_execution() skips the propagation '
                   'and a still-bound descendant is never cancelled' % fn.p, ln=o['ln'], key_extra='mhc%s' % o['ln'])
    if nset == 0:
        raise AnalysisBroken('no store of may_have_children found (bind_to_impl)')
    rep.floor('D2', 6, 'flag writers')


def d3_propagation(facts, rep):
    for fn in facts.get(R1 + 'cancellation_disseminator::propagate_task_group_state'):
        before, info = lockset(fn, LOCKCLS)
        locks = set(info)
        if not locks:
            raise AnalysisBroken('cancellation_disseminator::propagate_task_group_state takes no lock')
        inc = [(p, o) for p, o in atomic_ops(fn) if o['kind'] == 'rmw' and 'the_context_state_propagation_epoch' in fn.path(o['obj'])]
        walk = [c for c in calls_named(fn, ('propagate_task_group_state',))]
        rechk = [(p, o) for p, o in flag_ops(fn, kinds=('load',))]
        rep.ob('D3', 'K5', fn, 'the source state is re-checked under the propagation lock',
               bool(rechk) and all(before.get(p, frozenset()) & locks for p, _ in rechk), 're-check outside the lock / missing')
        rep.ob('D3', 'K5', fn, 'the global epoch is advanced under the propagation lock',
               bool(inc) and all(before.get(p, frozenset()) & locks for p, _ in inc), 'epoch increment outside the lock / missing')
        rep.ob('D3', 'K5', fn, 'every per-thread walk happens under the propagation lock',
               bool(walk) and all(before.get(c[0], frozenset()) & locks for c in walk), 'walk outside the lock')
        ok = bool(inc) and bool(walk) and all(every_path_passes(fn, 'entry', lambda p, e: p in set(q for q, _ in inc), end=c[0])[0] for c in walk)
        rep.ob('D3', 'K4', fn, 'the epoch is advanced before any list is walked', ok,
               'a binder that registers after its list was walked can see an unchanged epoch and skip the locked re-copy')
    for fn in facts.get(R1 + 'thread_data::propagate_task_group_state'):
        before, info = lockset(fn, LOCKCLS)
        locks = set(v for v, i in info.items() if i['mutex'] == 'm_mutex')
        walk = calls_named(fn, ('propagate_task_group_state',))
        st = [(p, o) for p, o in atomics_on(fn, 'epoch', kinds=('store',))]
        rep.ob('D3', 'K5', fn, 'the context list is walked under its mutex', bool(walk) and bool(locks) and
               all(before.get(c[0], frozenset()) & locks for c in walk), 'list walk outside m_mutex')
        ok = bool(st) and all(has_release(o['order'] or 0) for _, o in st) and \
            not any(fn.can_reach(sp, c[0]) for sp, _ in st for c in walk)
        rep.ob('D3', 'K4', fn, 'the list epoch is published (release) after the walk', ok,
               'local epoch stored before the walk finished or without release')
    for name in ('push_front', 'remove', 'orphan'):
        for fn in facts.get(R1 + 'context_list::' + name):
            before, info = lockset(fn, LOCKCLS)
            locks = set(v for v, i in info.items() if i['mutex'] == 'm_mutex')
            base = [c for c in calls_named(fn, ('push_front', 'remove', 'empty'))]
            w = [x for x in member_accesses(fn, ('orphaned',)) if x[3] == 'write']
            pts = [c[0] for c in base] + [x[0] for x in w]
            rep.ob('D3', 'K5', fn, 'context_list::%s works under the list mutex' % name,
                   bool(pts) and bool(locks) and all(before.get(p, frozenset()) & locks for p in pts), 'list touched outside m_mutex')
    for name in ('register_thread', 'unregister_thread'):
        for fn in facts.get(R1 + 'cancellation_disseminator::' + name):
            before, info = lockset(fn, LOCKCLS)
            cs = calls_named(fn, ('push_front', 'remove'))
            rep.ob('D3', 'K5', fn, '%s holds the threads-list mutex' % name,
                   bool(cs) and all(before.get(c[0], frozenset()) for c in cs), 'threads list changed without the mutex')
    rep.floor('D3', 10, 'propagation protocol')


def d3_orphaned_lists(facts, rep):
    """The propagation reaches a context through the context list it is registered in, and reaches the lists through the
    registered thread_data objects.  When a thread goes away its list is orphaned; if contexts are still registered in
    it (persistent context objects that outlive the thread that bound them) they must stay reachable: on the non-empty
    path of context_list::orphan() the list (or its contexts) must be handed to something the propagation walks
    (cancellation_disseminator / threading_control, or another context_list)."""
    KEEPERS = ('cancellation_disseminator', 'threading_control', 'threading_control_impl', 'context_list')
    for fn in facts.get(R1 + 'context_list::orphan'):
        em = set(c[1] for c in calls_named(fn, ('empty',)))
        if not em:
            raise AnalysisBroken('context_list::orphan no longer tests empty()')
        nonempty = edges_where(fn, lambda a, truth: (not truth) and fn.strip(a) in em)
        if not nonempty:
            raise AnalysisBroken('context_list::orphan: no branch on empty()')

        def keeper(p, e):
            if not isinstance(e, int) or fn.nodes[e].get('k') != 'call':
                return False
            d = fn.callee(e) or {}
            cls = (d.get('cls') or '').split('::')[-1]
            if cls not in KEEPERS:
                return False
            if cls == 'context_list':
                # a hand-over to ANOTHER list (not a call on this)
                return d.get('n') in ('push_front', 'splice', 'merge') and fn.n(fn.strip(fn.nodes[e].get('obj', -1))).get('k') != 'this'
            return True
        ok = True
        wit = ''
        for (b, si) in nonempty:
            okp, w = every_path_passes(fn, (fn.blocks[b]['succ'][si], -1), keeper)
            if not okp:
                ok, wit = False, w
        rep.ob('D3', 'K3', fn, 'a context list that still holds contexts when its thread goes away stays reachable for the propagation', ok,
               'the non-empty list is only marked orphaned: cancellation_disseminator::propagate_task_group_state walks the lists of '
               'registered threads only, so a context bound by a thread that has exited is never reached and stays uncancelled when an '
               'ancestor is cancelled (' + wit + ')')


def d4_binding(facts, rep):
    for fn in facts.get(TGC + 'bind_to_impl'):
        regs = calls_named(fn, ('register_with',))
        if not regs:
            raise AnalysisBroken('bind_to_impl no longer calls register_with')
        mhc = [(p, o) for p, o in atomics_on(fn, 'my_may_have_children')]
        snap = [(p, o) for p, o in atomic_ops(fn) if o['kind'] == 'load' and last_member(fn, o['obj']) == 'epoch']
        gload = [(p, o) for p, o in atomic_ops(fn) if o['kind'] == 'load' and 'the_context_state_propagation_epoch' in fn.path(o['obj'])]
        stores = flag_ops(fn, kinds=('store',))
        before, info = lockset(fn, LOCKCLS)
        rep.ob('D4', 'K4', fn, 'may_have_children of the parent is established before registration',
               bool(mhc) and all(every_path_passes(fn, 'entry', lambda p, e: p in set(q for q, _ in mhc), end=r[0])[0] for r in regs),
               'a cancellation of the parent can skip propagation (no children flag) although a child is being bound')
        rep.ob('D4', 'K1', fn, 'the parent-list epoch snapshot is an acquire load', bool(snap) and all(has_acquire(o['order'] or 0) for _, o in snap),
               ', '.join(oname(o['order']) for _, o in snap))
        # K10: the snapshot validates the speculative read of the PARENT's flag, so it must be the epoch of the list that holds
        # the parent (the list the propagator paints together with the parent): same access-path prefix as the flag that is copied
        srcs = set()
        for p_, o_ in flag_ops(fn, kinds=('load',)):
            pth = o_.get('fn', fn).path(o_['obj'])
            if '->' in pth:
                srcs.add(pth.rsplit('->', 1)[0])
        ok_owner = bool(snap) and bool(srcs) and all(any(fn.path(o['obj']).startswith(src + '->') for src in srcs) for _, o in snap)
        rep.ob('D4', 'K10', fn, 'the epoch snapshot is taken from the context list that holds the parent whose state is copied', ok_owner,
               'snapshot of %s validates a speculative copy from %s: a list that was already walked says nothing about whether the parent '
               'has been marked yet, so the binder can copy a stale flag and skip the locked re-copy'
               % (sorted(fn.path(o['obj']) for _, o in snap), sorted(srcs)))
        rep.ob('D4', 'K4', fn, 'the global epoch is compared after the registration (full fence)',
               bool(gload) and all(every_path_passes(fn, 'entry', lambda p, e: p in set(r[0] for r in regs), end=gp)[0] for gp, _ in gload),
               'epoch re-check before the context is visible to propagators')
        # K2 (store-buffering pair with cancel_group_execution): the canceller raises the parent's flag by a seq_cst RMW and then reads
        # my_may_have_children; when it reads "no children" it skips the propagation and never advances an epoch.  The binder therefore
        # needs a full fence between ITS store of my_may_have_children and EVERY later read of the parent's flag - the speculative
        # read included, because nothing invalidates it when the canceller skipped.  (A path on which the hint is not stored needs
        # nothing: the hint was already visible.)
        summ = Summaries(facts, max_depth=6)

        def fence_here(f, pos, e):
            if not isinstance(e, int):
                return False
            if is_full_fence(atomic_op(f, e)):
                return True
            nd = f.nodes[e]
            return nd.get('k') == 'ctor' and LOCKCLS(nd.get('cls') or '')     # lock acquisition (see ASSUMPTIONS)

        def fence_elem(pos, e):
            return summ.elem_must(fn, pos, e, 'fullfence+lock', fence_here)
        hint_stores = [(p, o) for p, o in mhc if o['kind'] in ('store', 'rmw', 'cas')]
        parent_loads = flag_ops(fn, kinds=('load',))
        if not hint_stores or not parent_loads:
            raise AnalysisBroken('bind_to_impl: store of my_may_have_children or load of the parent state not found')
        for lp, lo in parent_loads:
            bad = []
            for hp, ho in hint_stores:
                if is_full_fence(ho):
                    continue
                if not fn.can_reach(hp, lp):
                    continue
                ok_f, wit = every_path_passes(fn, hp, fence_elem, end=lp)
                if not ok_f:
                    bad.append(wit)
            rep.ob('D4', 'K2', fn, 'a full fence separates the store of the parent\'s children hint from the read of the parent\'s state at line %s'
                   % lo['ln'], not bad,
                   'store-buffering race with cancel_group_execution (flag.exchange(1); if (!may_have_children) return): the binder can read '
                   'the old state while the canceller reads the old hint and skips the propagation; no epoch changes, the stale copy is kept and '
                   'the new child of a cancelled context stays uncancelled (%s)' % '; '.join(bad), ln=lo['ln'], key_extra='sb|%s' % lo['ln'])
        nspec = 0
        for sp, so in stores:
            after_reg, _ = every_path_passes(fn, 'entry', lambda p, e: p in set(r[0] for r in regs), end=sp)
            if not after_reg:
                nspec += 1
                # speculative copy: the READ of the parent's state is dominated by the snapshot and precedes the epoch re-check on every
                # path; the store (which may be conditional: only a raised state is copied) is followed by register_with
                lp = sp
                v0 = so.get('val', -1)
                if v0 >= 0 and not so.get('inlined'):
                    for x in fn.subtree(resolve_cond_source(fn, Defs(fn), v0)):
                        opx = atomic_op(fn, x)
                        if opx and opx['kind'] == 'load' and last_member(fn, opx['obj']) == FLAG and fn.pos_of(x) is not None:
                            lp = fn.pos_of(x)
                ok1 = bool(snap) and every_path_passes(fn, 'entry', lambda p, e: p in set(q for q, _ in snap), end=lp)[0]
                ok2 = every_path_passes(fn, sp, lambda p, e: p in set(r[0] for r in regs))[0] and \
                    every_path_passes(fn, lp, lambda p, e: p in set(r[0] for r in regs))[0]
                ok3 = all(every_path_passes(fn, 'entry', lambda p, e: p == lp, end=gp)[0] or not fn.can_reach(lp, gp) for gp, _ in gload) and \
                    any(fn.can_reach(lp, gp) for gp, _ in gload)
                rep.ob('D4', 'K4', fn, 'speculative copy: after the epoch snapshot, before registration and the epoch re-check',
                       ok1 and ok2 and ok3, 'order snapshot -> copy -> register_with -> re-check broken', ln=so['ln'], key_extra=str(so['ln']))
            else:
                locked = bool(before.get(sp, frozenset()))
                # a copy after registration is either under the propagation lock or in the no-grandparent branch
                gp_edges = edges_where(fn, lambda a, truth: (not truth) and fn.n(fn.strip(a)).get('k') == 'member' and
                                       fn.n(fn.strip(a))['n'] == 'my_parent')
                in_nogp = bool(gp_edges) and dominated_by_edges(fn, sp, gp_edges)[0]
                rep.ob('D4', 'K5', fn, 'a copy after registration is under the propagation lock (or there is no grand-parent)',
                       locked or in_nogp, 'unlocked re-copy while a propagation from a grand-ancestor may be running', ln=so['ln'],
                       key_extra=str(so['ln']))
        rep.ob('D4', 'K4', fn, 'a speculative copy exists on the grand-parent path', nspec >= 1, 'no copy before registration')
        # The copy that counts is the one a path ends with.  Registration (the full fence) makes the context reachable for
        # propagations that start later; a state read BEFORE it is only a speculation, valid if no propagation was in flight,
        # which the binder learns from the epoch comparison after the registration.  So on every path through the function:
        # after register_with() the parent's state is read again, or the path passes the edge on which the snapshot equals the
        # global epoch.  (Path-sensitive in local flags such as `has_grand_ancestors`.)
        from engine.rules import product_walk_from, bool_vars_tracker
        on_elem, on_edge = bool_vars_tracker(fn)
        loadpos = set(p_ for p_, _ in parent_loads)
        defs4 = Defs(fn)
        gl_nodes = set(o['s'] for _, o in gload)

        def validated_edge(b, si):
            for (a, truth) in fn.edge_conds(b, si):
                nd = fn.n(fn.strip(a))
                if nd.get('k') == 'binop' and nd['op'] in ('!=', '==') and (fn.subtree(fn.strip(a)) & gl_nodes):
                    if truth == (nd['op'] == '=='):
                        return True
            return False

        def e_tr(state, b, si):
            st2 = on_edge(state[1], b, si)
            if st2 is None:
                return None
            return (state[0] or validated_edge(b, si), st2)

        def el_tr(state, p_, e_):
            if p_ in loadpos:
                return None                       # the state is read (again) after the registration: fine
            return (state[0], on_elem(state[1], e_))
        unsafe = False
        for r in regs:
            visits, exits = product_walk_from(fn, r[0], (False, ()), el_tr, e_tr)
            if any(not st[0] for st in exits):
                unsafe = True
        rep.ob('D4', 'K4', fn, 'on every path the binder ends with a state read after its registration, or with a validated speculation', not unsafe,
               'a path leaves bind_to_impl with a copy of the parent\'s state that was read before register_with() and is never validated by '
               'the epoch comparison: a cancellation of the parent whose walk of this thread\'s list finished before the registration is missed - '
               'the child stays uncancelled beneath a cancelled parent', key_extra='final-read')
        # lock identity: binder's fallback lock vs. the propagator's lock
        binder_keys = set()
        for v, i in info.items():
            if i['args']:
                binder_keys.add(lock_decl_key(fn, i['args'][0]))
        prop_keys = set()
        for g in facts.get(R1 + 'cancellation_disseminator::propagate_task_group_state'):
            b2, i2 = lockset(g, LOCKCLS)
            inc = [(p, o) for p, o in atomic_ops(g) if o['kind'] == 'rmw' and 'the_context_state_propagation_epoch' in g.path(o['obj'])]
            for p, o in inc:
                for v in b2.get(p, frozenset()):
                    if i2[v]['args']:
                        prop_keys.add(lock_decl_key(g, i2[v]['args'][0]))
        ok = bool(binder_keys & prop_keys)
        rep.ob('D4', 'K5', fn, 'the binder re-copies under a lock that the propagator holds during the whole propagation', ok,
               'bind_to_impl re-copies the parent state under %s but the propagation runs under %s: the "locked" re-copy does not '
               'wait for an in-flight propagation, so a context bound beneath a not-yet-marked descendant of a cancelled context '
               'stays uncancelled' % (sorted(binder_keys), sorted(prop_keys)), key_extra='lockid')
    rep.floor('D4', 7, 'binding chain')


def d5_binder(facts, rep):
    for fn in facts.get(TGC + 'bind_to'):
        ws = atomics_on(fn, 'my_state', kinds=('store', 'rmw', 'cas'))
        cas = [(p, o) for p, o in ws if o['kind'] == 'cas']
        st = [(p, o) for p, o in ws if o['kind'] == 'store']
        rep.ob('D5', 'K1', fn, 'created->locked is a compare-exchange', bool(cas), 'no CAS on my_state')
        cas_nodes = set(o['s'] for _, o in cas)
        win = edges_where(fn, lambda a, truth: truth and fn.strip(a) in cas_nodes)
        bi = calls_named(fn, ('bind_to_impl',))
        if not bi:
            raise AnalysisBroken('bind_to no longer calls bind_to_impl')
        for pos, s, node, d in bi:
            ok, wit = dominated_by_edges(fn, pos, win)
            rep.ob('D5', 'K4', fn, 'only the CAS winner binds', ok, 'two threads can bind the same context: ' + wit, ln=node['ln'])
            # isolated contexts / default-context parents are never bound: dominated by the false edge of `... || !bound`

            def iso(a, truth):
                n = fn.n(fn.strip(a))
                return (not truth) and n.get('k') == 'member' and n['n'] == 'bound'
            # `!ctx.my_traits.bound` false <=> bound true
            e1 = edges_where(fn, lambda a, truth: truth and fn.n(fn.strip(a)).get('k') == 'member' and fn.n(fn.strip(a))['n'] == 'bound')
            ok2, wit2 = dominated_by_edges(fn, pos, e1)
            rep.ob('D5', 'K4', fn, 'bind_to_impl is reached only for contexts with the bound trait', ok2,
                   'an isolated context can be attached to a parent and receive its cancellation: ' + wit2, ln=node['ln'], key_extra='b')
        rep.ob('D5', 'K1', fn, 'the final state is published with release',
               bool(st) and all(has_release(o['order'] or 0) for _, o in st), ', '.join(oname(o['order']) for _, o in st))
    # my_parent is written only while binding (and zeroed by initialize)
    for fn in facts.fns.values():
        if '/src/tbb/' not in fn.file and 'task_group' not in fn.file:
            continue
        for pos, s, node, kind in member_accesses(fn, ('my_parent',)):
            if kind != 'write' or 'task_group_context' not in node.get('cls', ''):
                continue
            ok = fn.p in (TGC + 'bind_to_impl', TGC + 'initialize')
            rep.ob('D5', 'K11', fn, 'task_group_context::my_parent is written only by bind_to_impl/initialize', ok,
                   '%s re-parents a context' % fn.p, ln=node['ln'], key_extra=str(node['ln']))
    rep.floor('D5', 5, 'binder election')


def d3_ancestor_walk_is_complete(facts, rep, clause='D3'):
    """propagate_task_group_state decides for one context whether it descends from the cancelled source by climbing its parent
    chain.  The climb may end only where the answer is known: at the source (descendant: paint the chain) or at the root (not a
    descendant).  Any other way out - e.g. "this ancestor already carries the new state" - is wrong: that ancestor may have been
    painted a moment ago by the very same propagation (its list was visited first), and then the contexts below it, registered with
    other threads, stay un-cancelled for ever: their bodies keep running and the wait for the group does not end.  Rule: every CFG
    edge that leaves the parent-chain loop, other than the loop condition itself, is dominated by the `ancestor == &src` edge."""
    n = 0
    for fn in facts.get(TGC + 'propagate_task_group_state'):
        climbs = set()
        for pos, s, l, r in assignments(fn):
            ln_, rn = fn.n(fn.strip(l)), fn.n(fn.strip(r))
            if ln_.get('k') == 'var' and rn.get('k') == 'member' and rn.get('n') == 'my_parent':
                bn = fn.n(fn.strip(rn.get('base', -1)))
                for _ in range(3):            # my_parent lives in an anonymous union: one unnamed member in between
                    if bn.get('k') == 'member' and not bn.get('n'):
                        bn = fn.n(fn.strip(bn.get('base', -1)))
                if bn.get('k') == 'var' and bn.get('v') == ln_['v']:
                    climbs.add(ln_['v'])
        succ = dict((b, [x for x in blk['succ'] if x is not None]) for b, blk in fn.blocks.items())

        def reach(start, cut=()):
            seen, work = set(), list(start)
            while work:
                b = work.pop()
                if b in seen:
                    continue
                seen.add(b)
                for si, x in enumerate(fn.blocks[b]['succ']):
                    if x is not None and (b, si) not in cut:
                        work.append(x)
            return seen
        for b, blk in sorted(fn.blocks.items()):
            t = blk.get('term')
            if not t or t.get('k') not in ('ForStmt', 'WhileStmt') or 'c' not in t:
                continue
            vs = set(fn.nodes[x].get('v') for x in fn.subtree(t['c']) if fn.nodes[x].get('k') == 'var')
            v = vs & climbs
            if not v:
                continue
            v = sorted(v)[0]
            # the source is compared with the climbing variable: `ancestor == &src`
            def match(a, truth):
                nd = fn.n(fn.strip(a))
                if nd.get('k') != 'binop' or nd['op'] not in ('==', '!='):
                    return False
                sides = [fn.n(fn.strip(nd['l'])), fn.n(fn.strip(nd['r']))]
                return any(s_.get('k') == 'var' and s_.get('v') == v for s_ in sides) and \
                    any(s_.get('k') == 'unop' and s_.get('op') == '&' for s_ in sides) and ((nd['op'] == '==') == truth)
            def at_root(a, truth):
                nd = fn.n(fn.strip(a))
                if nd.get('k') != 'binop' or nd['op'] not in ('==', '!='):
                    return False
                for x, y in ((nd['l'], nd['r']), (nd['r'], nd['l'])):
                    if fn.n(fn.strip(y)).get('null') and any(fn.nodes[z].get('k') == 'var' and fn.nodes[z].get('v') == v for z in fn.subtree(fn.strip(x))):
                        return (nd['op'] == '==') == truth
                return False
            me = edges_where(fn, match)
            if not me:
                continue          # an inner loop over the same kind of variable (the painting loop): it has no match test
            body = set(x for x in reach([blk['succ'][0]]) if b in reach([x]))
            body.add(b)
            root_edges = edges_where(fn, at_root)
            outside_ok = reach([fn.entry], cut=me | root_edges)       # blocks reachable without the source met / the root reached
            bad = []
            for x in sorted(body):
                for si, y in enumerate(fn.blocks[x]['succ']):
                    if y is None or y in body or (x == b and si == 1) or (x, si) in me or (x, si) in root_edges:
                        continue          # inside the loop / the loop condition (root reached) / the match itself
                    if x in outside_ok:
                        tl = (fn.blocks[x].get('term') or {}).get('ln')
                        bad.append('line %s' % tl if tl else 'block %s' % x)
            n += 1
            rep.ob(clause, 'K4', fn, 'the climb through the parent chain ends only at the cancelled source or at the root', not bad,
                   'the loop is left at %s without having met the source: an ancestor that merely carries the new state already may have been '
                   'painted by this same propagation - the contexts below it are never cancelled' % ', '.join(bad), key_extra='ancestor-walk')
    if n < 1:
        raise AnalysisBroken('task_group_context_impl::propagate_task_group_state: the parent-chain loop was not found')
