"""Rule fragments shared between properties (task sibling agreement K7, aggregator handlers K8, ...)."""
from engine.facts import AnalysisBroken, atomic_op, atomic_ops, is_full_fence, has_acquire, has_release, SEQ_CST, RELAXED, ACQUIRE, RELEASE
from engine.rules import (calls, calls_named, atomics_on, every_path_passes, Summaries, elem_fn_uid, last_member, oname,
                          is_call_to, Defs, root_of)

TBB_SRC = ['src/tbb/' + x for x in (
    'address_waiter.cpp allocator.cpp arena.cpp arena_slot.cpp concurrent_bounded_queue.cpp dynamic_link.cpp exception.cpp '
    'governor.cpp global_control.cpp itt_notify.cpp main.cpp market.cpp tcm_adaptor.cpp misc.cpp misc_ex.cpp observer_proxy.cpp '
    'parallel_pipeline.cpp private_server.cpp profiling.cpp rml_tbb.cpp rtm_mutex.cpp rtm_rw_mutex.cpp semaphore.cpp '
    'small_object_pool.cpp task.cpp task_dispatcher.cpp task_group_context.cpp thread_dispatcher.cpp '
    'thread_request_serializer.cpp threading_control.cpp version.cpp queuing_rw_mutex.cpp').split()]
MALLOC_SRC = ['src/tbbmalloc/' + x for x in 'backend.cpp backref.cpp frontend.cpp large_objects.cpp tbbmalloc.cpp'.split()]

TASK_BASE = 'tbb::detail::d1::task'

# completion signals: the calls through which a finished (or cancelled) task tells its waiter / parent that it is done
SIGNAL_CALLS = {
    'tbb::detail::d1::wait_context::release': 'wait.release',
    'tbb::detail::d1::wait_context::add_reference': 'wait.release',
    'tbb::detail::d1::wait_tree_vertex_interface::release': 'wait.release',
    'tbb::detail::d1::wait_context_vertex::release': 'wait.release',
    'tbb::detail::d1::reference_vertex::release': 'wait.release',
    'tbb::detail::d1::fold_tree': 'fold_tree',
    'tbb::detail::d2::graph::release_wait': 'wait.release',
    # parallel_invoke: function_invoker reports to its "wait object", which is one of these two
    'tbb::detail::d1::invoke_root_task::release': 'wait.release',
    'tbb::detail::d1::invoke_subroot_task::release': 'wait.release',
}
DEALLOC_CALLS = {
    'tbb::detail::d1::small_object_allocator::deallocate': 'dealloc',
    'tbb::detail::d1::small_object_allocator::delete_object': 'dealloc',
    'tbb::detail::r1::deallocate': 'dealloc',
}


def task_classes(facts):
    """primary names of all classes (transitively) derived from d1::task that are defined in the loaded units"""
    out = {}
    for p, cs in facts.classes.items():
        for c in cs:
            if TASK_BASE in c['allbases']:
                out.setdefault(p, []).append(c)
    return out


def class_scope(facts, cls_p):
    sc = set([cls_p])
    for c in facts.classes.get(cls_p, []):
        sc |= set(c['allbases'])
    return sc


class Closure(object):
    """effects of a method inside the *own closure* of its class: the method itself, methods of the class and of its
    bases, its destructor chain (explicit destructor calls, delete_object idiom, member and base destructors), and the helper
    functions listed in `helpers`.  Effects of arbitrary other callees (user bodies, the dispatcher) are not looked at."""

    def __init__(self, facts, cls_p, helpers=(), extra_scope=()):
        self.facts = facts
        self.scope = class_scope(facts, cls_p) | set(extra_scope)
        self.helpers = set(helpers)
        self._must = {}
        self._may = {}

    def in_scope(self, fn, e):
        u = elem_fn_uid(e, fn)
        if not u:
            return None
        d = self.facts.decls.get(u)
        if not d:
            return None
        g = self.facts.fns.get(u)
        if g is None:
            return None
        if isinstance(e, dict):           # implicit destructor element: always part of the closure
            return g
        if d.get('cls') in self.scope or d['p'] in self.helpers:
            return g
        if d['n'] == '(dtor)':
            return g
        if g.kind == 'lambda' and g.d.get('lparent') == fn.u:
            return g        # a local lambda of a closure function is part of the closure
        return None

    def must(self, fn, key, pred, depth=7, stack=frozenset()):
        ck = (key, fn.u)
        if ck in self._must:
            return self._must[ck]
        if fn.u in stack or depth < 0:
            return False
        st2 = stack | {fn.u}

        def passes(pos, e):
            if pred(fn, pos, e):
                return True
            g = self.in_scope(fn, e)
            if g is not None and not self._dynamic(fn, e):
                return self.must(g, key, pred, depth - 1, st2)
            return False
        ok, _ = every_path_passes(fn, 'entry', passes)
        self._must[ck] = ok
        return ok

    def may(self, fn, key, pred, depth=7, stack=frozenset()):
        ck = (key, fn.u)
        if ck in self._may:
            return self._may[ck]
        if fn.u in stack or depth < 0:
            return False
        st2 = stack | {fn.u}
        res = False
        for b, i, e in fn.iter_elems():
            if pred(fn, (b, i), e):
                res = True
                break
            g = self.in_scope(fn, e)
            if g is not None and self.may(g, key, pred, depth - 1, st2):
                res = True
                break
        self._may[ck] = res
        return res

    def elem_must(self, fn, pos, e, key, pred):
        if pred(fn, pos, e):
            return True
        g = self.in_scope(fn, e)
        if g is not None and not self._dynamic(fn, e):
            return self.must(g, key, pred)
        return False

    def _dynamic(self, fn, e):
        """a virtual call whose static callee need not run (a virtual *destructor* call always runs the static type's
        destructor as part of the chain, so it is not dynamic for must-purposes)"""
        if not (isinstance(e, int) and fn.nodes[e].get('virt')):
            return False
        d = fn.callee(e)
        return not (d and d['n'] == '(dtor)')


def call_in(table):
    def pred(fn, pos, e):
        u = elem_fn_uid(e, fn)
        if not u:
            return False
        d = fn.facts.decls.get(u)
        return bool(d) and d['p'] in table
    return pred


def null_returns(fn, defs=None):
    """[(pos, node)] of return statements whose value is (or may be) a null literal"""
    out = []
    defs = defs or Defs(fn)
    for pos, s, n in fn.stmt_elems(('return',)):
        if 'sub' not in n:
            continue
        v = fn.strip(n['sub'])
        vn = fn.n(v)
        if vn.get('null'):
            out.append((pos, s, 'null literal'))
        elif vn.get('k') == 'var':
            vals = defs.values(v) or []
            if any(val is not None and fn.n(fn.strip(val)).get('null') for _, val in vals):
                out.append((pos, s, 'variable that may hold nullptr'))
    return out


# ---------------------------------------------------------------------------------------------
# K7: every task class signals completion on every exit; cancel mirrors execute
# ---------------------------------------------------------------------------------------------
REFCOUNT_NAMES = ('ref_count', 'm_ref_count', 'my_ref_count')
HANDOVER_CALLS = ('spawn', 'new_object', 'recycle_as_continuation', 'recycle_as_child_of', 'enqueue', 'submit',
                  'spawn_in_graph_arena', 'enqueue_in_graph_arena',
                  # parallel_scan pass 2: sum_node::create_child makes this node the parent of the returned child and the
                  # node's ref_count is set to the number of children before they are released
                  'create_child')


def _refcount_decrement(fn, e):
    if isinstance(e, int):
        op = atomic_op(fn, e)
        if op and op['kind'] == 'rmw' and op['name'] in ('fetch_sub', 'operator--', 'operator-=') and \
                last_member(fn, op['obj']) in REFCOUNT_NAMES:
            return True
    return False


def tree_folds(facts):
    """primary names of the library's free functions that unwind a task tree: every path through them decrements a node's
    reference counter by an atomic RMW (fold_tree and whatever variant of it the tree-based algorithms use).  Derived from
    the code, so that a fold under another name is still a completion signal."""
    got = getattr(facts, '_tree_folds', None)
    if got is None:
        got = set()
        for g in facts.fns.values():
            if g.kind != 'function' or not g.q.startswith('tbb::detail::d1::'):
                continue
            if not any(_refcount_decrement(g, e) for _, _, e in g.iter_elems()):
                continue
            if every_path_passes(g, 'entry', lambda p_, e, g=g: _refcount_decrement(g, e))[0]:
                got.add(g.p)
        facts._tree_folds = got
    return got


def is_signal(fn, pos, e):
    u = elem_fn_uid(e, fn)
    if u:
        d = fn.facts.decls.get(u)
        if d and (d['p'] in SIGNAL_CALLS or d['p'] in tree_folds(fn.facts)):
            return True
    return _refcount_decrement(fn, e)


def is_dealloc(fn, pos, e):
    u = elem_fn_uid(e, fn)
    if u:
        d = fn.facts.decls.get(u)
        if d and d['p'] in DEALLOC_CALLS:
            return True
    return False


def k7_task_class(facts, rep, clause, cls_p, exceptions, dealloc_clause=None):
    """returns number of methods analysed"""
    ex = facts.by_p.get(cls_p + '::execute', [])
    ca = facts.by_p.get(cls_p + '::cancel', [])
    n = 0
    helpers = set(SIGNAL_CALLS) | set(DEALLOC_CALLS) | tree_folds(facts)
    for fn in ex + ca:
        which = 'execute' if fn in ex else 'cancel'
        cl = Closure(facts, cls_p, helpers=helpers)
        sib = (ca if which == 'execute' else ex)
        has_sig = cl.may(fn, 'sig', is_signal) or any(Closure(facts, cls_p, helpers=helpers).may(g, 'sig', is_signal) for g in sib[:1])
        key = cls_p.split('::')[-1] + '::' + which
        if key in exceptions:
            rep.note('%s %s: recorded exception -- %s' % (clause, key, exceptions[key]))
            continue
        if dealloc_clause and which == 'cancel' and ex and not has_sig:
            _dealloc_parity(facts, rep, dealloc_clause, cls_p, fn, ex, cl, helpers)
        if not has_sig:
            continue
        n += 1

        def passes(pos, e, cl=cl, fn=fn):
            return cl.elem_must(fn, pos, e, 'sig', is_signal)
        if which == 'cancel':
            ok, wit = every_path_passes(fn, 'entry', passes)
            rep.ob(clause, 'K7', fn, 'cancel() signals completion on every path', ok,
                   'a path through cancel() reaches the exit without wait_context/vertex release, fold_tree or a ref-count decrement '
                   '(the waiter of this task\'s group would never be released): ' + wit)
        else:
            defs = Defs(fn)
            for pos, s, node in fn.stmt_elems(('return',)):
                if 'sub' not in node:
                    continue
                kind = classify_return(fn, defs, node['sub'], cl)
                if kind in ('this', 'signalled'):
                    continue

                def passes2(p, e, kind=kind, cl=cl, fn=fn):
                    if cl.elem_must(fn, p, e, 'sig', is_signal):
                        return True
                    if isinstance(e, int) and fn.nodes[e].get('k') == 'call':
                        d = fn.callee(e)
                        if d and d['n'] in HANDOVER_CALLS:
                            return True
                    return False
                ok, wit = every_path_passes(fn, 'entry', passes2, end=pos)
                rep.ob(clause, 'K7', fn, 'execute() return of %s is preceded by a completion signal or a hand-over' % kind, ok,
                       'execute() can return %s without releasing its wait reference / folding the tree and without re-submitting '
                       'itself or a continuation: %s' % (kind, wit), ln=node.get('ln'), key_extra=str(node.get('ln')))
        if dealloc_clause and which == 'cancel' and ex:
            _dealloc_parity(facts, rep, dealloc_clause, cls_p, fn, ex, cl, helpers)
    return n


def _dealloc_parity(facts, rep, dealloc_clause, cls_p, fn, ex, cl, helpers):
    clx = Closure(facts, cls_p, helpers=helpers)
    owner = fn.q.rsplit('::', 1)[0]
    same = [g for g in ex if g.q.rsplit('::', 1)[0] == owner]
    if same and all(clx.must(g, 'dea', is_dealloc) for g in same):
        ok = cl.must(fn, 'dea', is_dealloc)
        rep.ob(dealloc_clause, 'K7', fn, 'cancel() frees the task object like execute() does', ok,
               'execute() deallocates the task on every path but a path through cancel() does not (object leaked when the '
               'group is cancelled)')


def classify_return(fn, defs, v, cl, depth=0):
    v = fn.strip(v)
    n = fn.n(v)
    k = n.get('k')
    if n.get('null'):
        return 'nullptr'
    if k == 'this':
        return 'this'
    if k == 'unop' and n['op'] == '&':
        return 'this'      # address of an object: never null
    if k == 'call':
        g = cl.in_scope(fn, v)
        if g is not None and cl.must(g, 'sig', is_signal):
            return 'signalled'
        return 'an unknown task pointer'
    if k == 'var' and depth < 3:
        vals = defs.values(v)
        if not vals:
            return 'an unknown task pointer'
        kinds = set()
        for dn, val in vals:
            if val is None:
                kinds.add('an unknown task pointer')
            else:
                kinds.add(classify_return(fn, defs, val, cl, depth + 1))
        if 'nullptr' in kinds:
            return 'nullptr'
        if 'an unknown task pointer' in kinds:
            return 'an unknown task pointer'
        if kinds <= {'this', 'signalled'}:
            return 'signalled' if 'signalled' in kinds else 'this'
    if k == 'cond':
        a = classify_return(fn, defs, n['l'], cl, depth + 1)
        b = classify_return(fn, defs, n['r'], cl, depth + 1)
        for x in ('nullptr', 'an unknown task pointer'):
            if x in (a, b):
                return x
        return a
    return 'an unknown task pointer'


# ---------------------------------------------------------------------------------------------
# K8: aggregator handler completeness
# ---------------------------------------------------------------------------------------------
def _is_status_store(fn, e, min_release=True):
    if not isinstance(e, int):
        return False
    op = atomic_op(fn, e)
    if not op or op['kind'] not in ('store', 'rmw') or last_member(fn, op['obj']) != 'status':
        return False
    if min_release and not has_release(op['order'] or 0):
        return False
    v = fn.cv(op.get('val', -1))
    return v is None or v != 0


def handler_iterations(fn):
    """advance assignments `list = list->next...` : [(pos, node, list var id)]"""
    from engine.rules import assignments
    out = []
    for pos, s, l, r in assignments(fn):
        ln = fn.n(fn.strip(l))
        if ln.get('k') != 'var':
            continue
        has_next = False
        for x in fn.subtree(r):
            xn = fn.nodes[x]
            if xn.get('k') == 'member' and xn['n'] == 'next':
                base = fn.n(root_of(fn, x))
                if base.get('k') == 'var' and base.get('v') == ln['v']:
                    has_next = True
        if has_next:
            out.append((pos, s, ln['v'], ln['n']))
    return out


def k8_handler(facts, rep, clause, fn, extra_complete=None, min_release=True, label=None):
    """every operation taken off the pending list is completed (status stored, non-zero, release) or deferred to a later pass,
    on every path, before the handler takes the next operation or returns"""
    from engine.rules import assignments
    its = handler_iterations(fn)
    if not its:
        return 0
    list_vars = set(v for _, _, v, _ in its)
    adv_pos = set(p for p, _, _, _ in its)
    summ = Summaries(facts, max_depth=5)

    def status_pred(f, pos, e):
        return _is_status_store(f, e, min_release)

    def completes(pos, e):
        if _is_status_store(fn, e, min_release):
            return True
        if extra_complete is not None and extra_complete(fn, pos, e):
            return True
        if isinstance(e, int):
            n = fn.nodes[e]
            # deferral to a later pass: `other_list = tmp`
            if n.get('k') == 'binop' and n['op'] == '=':
                l = fn.n(fn.strip(n['l']))
                if l.get('k') == 'var' and l.get('v') in list_vars and not any(
                        fn.nodes[x].get('k') == 'member' and fn.nodes[x]['n'] == 'next' for x in fn.subtree(n['r'])):
                    return True
            if n.get('k') == 'call':
                u = n.get('fn')
                g = facts.fns.get(u) if u else None
                if g is not None and g.u != fn.u:
                    # a helper that receives the operation and completes it on all of its paths; for a virtual helper every
                    # overrider visible in the analysed units must do so as well (sibling agreement)
                    targets = [g]
                    if n.get('virt'):
                        targets += [facts.fns[u2] for u2 in facts.overriders(u) if u2 in facts.fns]
                    if all(summ.must(t, 'status', status_pred) for t in targets):
                        return True
        return False
    nbad = 0
    # switch over the operation type without a default: the implicit fall-through edge is feasible only for an enumerator that has
    # no case; that is checked separately (every enumerator used to build an operation has a case)
    implicit_default = set()
    case_names = set()
    has_switch = False
    for b, blk in fn.blocks.items():
        t = blk.get('term')
        if t and t.get('k') == 'SwitchStmt':
            has_switch = True
            for si, sb in enumerate(blk['succ']):
                if sb is None:
                    continue
                lab = fn.blocks[sb].get('label')
                if lab and 'case' in lab:
                    if lab.get('n'):
                        case_names.add(lab['n'])
                elif lab and 'default' in lab:
                    pass
                else:
                    implicit_default.add((b, si))
    # case labels that share a block (fall-through `case a: case b:`) only label it once in the CFG; collect nested labels too
    if has_switch:
        used = set()
        cls = fn.cls or ''
        for g in facts.fns.values():
            if not (g.cls == cls or (g.cls or '').startswith(cls + '::') or g.d.get('lparent') and False):
                continue
            pm = g.parent_map()
            for i, nd in enumerate(g.nodes):
                if nd and nd.get('k') == 'enum' and nd.get('q', '').startswith(cls + '::'):
                    par = pm.get(i)
                    for _ in range(3):
                        if par is not None and g.nodes[par].get('k') in ('cast', 'rd'):
                            par = pm.get(par)
                    pn = g.nodes[par] if par is not None else {}
                    if pn.get('k') == 'ctor' and 'operation' in (pn.get('cls') or ''):
                        used.add(nd['n'])
        missing = sorted(used - case_names) if case_names else []
        rep.ob(clause, 'K8', fn, '%severy operation kind that is ever submitted has a case in the handler' % ((label + ': ') if label else ''),
               not missing or not implicit_default,
               'operation kind(s) %s are submitted but the handler switch has no case for them: the submitter waits forever' % missing,
               key_extra='cases')

    def stop_edge(b, si):
        return (b, si) in implicit_default
    starts = [(p, 'operation taken at line %s' % fn.n(s).get('ln'), fn.n(s).get('ln')) for p, s, _, _ in its]
    for b, blk in fn.blocks.items():
        lab = blk.get('label')
        if lab and 'catch' in lab:
            starts.append(((b, -1), 'exception handler at line %s' % fn.nodes[lab['catch']].get('ln'), fn.nodes[lab['catch']].get('ln')))
    for start, what, ln in starts:
        reached, ex, par = fn.walk(start, stop_elem=completes, stop_edge=stop_edge)
        hit_next = [q for q in reached if q in adv_pos and q != start and not completes(q, fn.elems(q[0])[q[1]])]
        again = (start in reached) if start[1] >= 0 else False
        ok = not ex and not hit_next and not again
        rep.ob(clause, 'K8', fn, '%s%s is completed (status stored with release) or deferred on every path' % ((label + ': ') if label else '', what),
               ok, 'an operation can be dropped without a status: the thread that submitted it spins forever (%s)' %
               ('handler returns' if ex else 'next operation taken'), ln=ln, key_extra=str(ln))
    _k8_no_touch_after_status(facts, rep, clause, fn, label)
    return len(starts)


def _k8_no_touch_after_status(facts, rep, clause, fn, label):
    """The status store hands the operation object back to the thread that submitted it (it lives on that thread's stack and is
    re-used for its next operation at once).  After `op->status.store(...)` the handler must not touch `op` again - in
    particular not read op->next to find the following operation: the link has to be read BEFORE the status is published."""
    from engine.rules import assignments
    bad = []
    nst = 0
    for b, i, e in fn.iter_elems():
        if not _is_status_store(fn, e, min_release=False):
            continue
        op = atomic_op(fn, e)
        rn = fn.n(root_of(fn, op['obj']))
        if rn.get('k') != 'var':
            continue
        vid = rn['v']
        nst += 1

        def redefines(pos, el):
            if not isinstance(el, int):
                return False
            nd = fn.nodes[el]
            if nd.get('k') == 'binop' and nd.get('op') == '=':
                l = fn.n(fn.strip(nd['l']))
                return l.get('k') == 'var' and l.get('v') == vid
            if nd.get('k') == 'decl':
                return any(v['v'] == vid for v in nd['vars'])
            return False
        reached, ex, par = fn.walk((b, i), stop_elem=redefines)
        for q in reached:
            if q == (b, i):
                continue
            el = fn.elems(q[0])[q[1]]
            if not isinstance(el, int):
                continue
            # any member access through the handed-back pointer inside this element (the redefinition `op = op->next` included)
            for x in fn.subtree(el):
                nd = fn.nodes[x]
                if nd.get('k') == 'member' and 'base' in nd:
                    r = fn.n(root_of(fn, x))
                    if r.get('k') == 'var' and r.get('v') == vid and not _is_status_store(fn, el, min_release=False):
                        bad.append((fn.nodes[e].get('ln'), nd.get('n'), nd.get('ln')))
    if nst:
        bad = sorted(set(bad))
        rep.ob(clause, 'K4', fn, '%san operation is not touched any more once its status has been published' % ((label + ': ') if label else ''),
               not bad, 'after the status store at line %s the handler still reads `%s` of the same operation (line %s): the submitter may '
               'already have re-used the operation object, the handler walks into garbage - operations are dropped (their threads hang) or '
               'foreign operations are completed' % (bad[0] if bad else ('', '', '')), key_extra='no-touch')


# ---------------------------------------------------------------------------------------------------------------
# overload family agreement (K7): every public overload of one algorithm dispatches to the same task class
# ---------------------------------------------------------------------------------------------------------------
def dispatch_targets(facts, fn, family, depth=0, seen=None):
    """primary names of the task classes (static `run` entry) / library routines an API overload finally dispatches to,
    following forwarding calls to other overloads of the same family and to library helper functions"""
    seen = seen if seen is not None else set()
    if fn.u in seen or depth > 6:
        return set()
    seen.add(fn.u)
    out = set()
    for b, i, e in fn.iter_elems():
        if not isinstance(e, int) or fn.nodes[e].get('k') != 'call':
            continue
        d = fn.callee(e)
        if not d:
            continue
        p = d.get('p', '')
        if not p.startswith('tbb::detail::'):
            continue
        if d.get('n') == 'run' and d.get('static') and d.get('cls'):
            out.add(d['cls'])
            continue
        if d.get('cls'):
            continue            # constructors, member calls (task_group_context ...): not a dispatch
        g = facts.fns.get(fn.nodes[e].get('fn'))
        if g is None:
            if '::r1::' in p:
                out.add(p)       # exported entry point of the binary library
            continue
        sub = dispatch_targets(facts, g, family, depth + 1, seen)
        if sub:
            out |= sub
        elif p != family:
            out.add(p)
    return out


def api_family_agreement(facts, rep, clause, family, what):
    """all overloads of `family` (grouped by definition site) must dispatch to the same set of task classes.  The
    expectation is the majority among the overloads themselves (sibling agreement), nothing is hard-coded."""
    from collections import Counter
    groups = {}
    for fn in facts.by_p.get(family, []):
        groups.setdefault((fn.file, fn.l0), []).append(fn)
    uncovered = [k for k, d in facts.templates.items() if k[0] == family and not d['nspec']]
    if len(groups) < 2:
        raise AnalysisBroken('%s: fewer than two instantiated overloads (%d)' % (family, len(groups)))
    sig = {}
    helpers = set()
    for k, fns in groups.items():
        t = set()
        for fn in fns:
            seen = set()
            t |= dispatch_targets(facts, fn, family, seen=seen)
            helpers.update(u for u in seen if facts.fns[u].p != family)
        # task classes decide; auxiliary library calls (argument checks that throw ...) count only when there is no class
        cls_t = set(x for x in t if x in facts.classes)
        sig[k] = frozenset(cls_t or t)
    major, cnt = Counter(sig.values()).most_common(1)[0]
    if not major:
        raise AnalysisBroken('%s: no dispatch target found in the majority of overloads' % family)
    for k in sorted(groups):
        fn = groups[k][0]
        ok = sig[k] == major
        rep.ob(clause, 'K7', fn, '%s overload at line %s dispatches like its siblings (%s)' % (family.split('::')[-1], k[1], what), ok,
               'this overload runs %s, the other %d overloads run %s' % (sorted(x.split('::')[-1] for x in sig[k]) or 'nothing', cnt,
                                                                         sorted(x.split('::')[-1] for x in major)),
               ln=k[1], key_extra='%s:%s' % (family, k[1]))
        # K10: a forwarding overload uses every one of its parameters (a dropped context / partitioner argument silently
        # selects the default one: the loop is no longer bound to the caller's group, or runs with another partitioner)
        used = set(n.get('v') for n in fn.nodes if n.get('k') == 'var' and 'param' in n)
        unused = [pp['n'] for pp in fn.d.get('params', []) if pp['v'] not in used and pp['n']]
        rep.ob(clause, 'K10', fn, '%s overload at line %s passes every argument on' % (family.split('::')[-1], k[1]), not unused,
               'parameter(s) %s are never used: the caller\'s %s is silently replaced by a default' % (unused, ' / '.join(unused)),
               ln=k[1], key_extra='%s:%s:args' % (family, k[1]))
    hdone = set()
    for u in sorted(helpers):
        g = facts.fns[u]
        if (g.p, g.file, g.l0) in hdone or g.cls:
            continue
        hdone.add((g.p, g.file, g.l0))
        if not dispatch_targets(facts, g, family):
            continue         # not on the way to the task class (profiling stubs, argument checks)
        used = set(n.get('v') for n in g.nodes if n.get('k') == 'var' and 'param' in n)
        unused = [pp['n'] for pp in g.d.get('params', []) if pp['v'] not in used and pp['n']]
        rep.ob(clause, 'K10', g, 'helper %s at line %s passes every argument on' % (g.p.split('::')[-1], g.l0), not unused,
               'parameter(s) %s are never used: the caller\'s argument is silently replaced by a default' % unused,
               ln=g.l0, key_extra='%s:%s:args' % (g.p, g.l0))
    return len(groups), len(uncovered)


# ---------------------------------------------------------------------------------------------------------------
# may-throw summaries and the "reference taken before the point of no failure" rule (K9)
# ---------------------------------------------------------------------------------------------------------------
NOTHROW_STD = ('std::forward', 'std::move', 'std::get', 'std::addressof', 'std::begin', 'std::end', 'std::declval')
USER_BUILTIN_OPS = ('*', '++', '--', '=', '==', '!=', '<', '+=', '-=', '+', '-')


def user_op(fn, e):
    """an operation on a value whose type is a template parameter of the library (a type the user supplies): its copy,
    dereference, increment, comparison ... may throw whatever the drivers happen to instantiate it with"""
    n = fn.nodes[e]
    if not n.get('tp'):
        return False
    k = n.get('k')
    if k in ('call', 'ctor', 'new'):
        return True
    if k == 'unop':
        return n['op'] in USER_BUILTIN_OPS
    if k == 'binop':
        return n['op'] in USER_BUILTIN_OPS
    return False


class MayThrow(object):
    def __init__(self, facts, external_may_throw=True, library_throws=True):
        """external_may_throw: how to treat callees without a body in the analysed units that are not declared noexcept
        (ITT hooks, r1 entry points): True = conservative for "this never throws" claims, False = only user operations,
        `throw` and allocating `new` count (used where the rule wants evidence of user code in a window).
        library_throws=False: only operations of user-supplied types count - `throw` expressions and allocations inside the
        library's own functions (bad_alloc while the scheduler initialises itself ...) are not "user exceptions"; with the
        whole library loaded (thorough tier) they are reachable from almost every runtime entry point."""
        self.facts = facts
        self.memo = {}
        self.external_may_throw = external_may_throw
        self.library_throws = library_throws

    def node(self, fn, e):
        """can evaluating CFG element e (one node, not its sub-expressions) raise an exception?"""
        n = fn.nodes[e]
        k = n.get('k')
        if k == 'throw':
            return self.library_throws
        if user_op(fn, e):
            if not self.library_throws and k in ('binop', 'unop'):
                # user-exceptions-only mode takes the instantiation at face value: a built-in operator does not throw (internal
                # templates such as waitable_atomic<bool> are full of them; the user-supplied types of the drivers are classes)
                return False
            if not n.get('tpl'):
                return True
            # "tpl": the template parameter belongs to an internal template that was given one of the library's own types
            # (fold_tree<tree_node>, basic_tls<thread_data*>): built-in operators on such values cannot throw, calls are decided by
            # the body of the resolved callee
            if k not in ('call', 'ctor', 'new'):
                return False
        if k == 'new':
            if not n.get('pl'):
                return self.library_throws      # allocation
            return False               # placement new: the constructor call is a separate element
        if k in ('call', 'ctor'):
            d = fn.callee(e)
            if d is None:
                return self.external_may_throw and k == 'call' and 'fx' in n      # call through a function value: unknown target
            return self.fn(d.get('u') or n.get('fn'), d)
        return False

    def fn(self, u, d=None):
        if u in self.memo:
            return self.memo[u]
        d = d or self.facts.decls.get(u) or {}
        if d.get('ne'):
            self.memo[u] = False
            return False
        if d.get('p') in NOTHROW_STD:
            self.memo[u] = False
            return False
        g = self.facts.fns.get(u)
        if g is None:
            # no body in the analysed units: destructors do not throw; anything else may
            r = self.external_may_throw and d.get('n') != '(dtor)'
            self.memo[u] = r
            return r
        self.memo[u] = False           # cycle guard (optimistic), fixed below
        r = False
        for b, i, e in g.iter_elems():
            if isinstance(e, int) and g.nodes[e].get('k') in ('call', 'ctor', 'new', 'throw', 'unop', 'binop') and self.node(g, e):
                r = True
                break
        self.memo[u] = r
        return r


# ---------------------------------------------------------------------------------------------
# "what runs after this operation on the way out" - normal and exceptional exits of one function
# ---------------------------------------------------------------------------------------------
def exit_coverage(facts, summ, fn, op_pred, pred, key):
    """An operation (element of fn, or of a body lambda handed to try_call in fn, satisfying op_pred(g, pos, elem)) is followed
    by an epilogue (an element satisfying pred, directly or inside a callee - may-summary `key`).  Returns
    (n_ops, normal_ok, exc_ok, notes):
      normal_ok - on every path that leaves fn normally after the operation the epilogue runs: it lies on every CFG path from the
                  operation to the exit, or it is the body of a lambda that the repo's scope-exit idioms run unconditionally
                  (try_call(..).M(lambda) where M does not dismiss its guard; a local raii_guard that is never dismissed);
      exc_ok    - when the operation throws the epilogue still runs: one of the idioms above (dismissed or not), or a catch
                  handler of a try enclosing the operation contains it.
    The classification of the proxy methods is read from their code (make_raii_guard + dismiss), not from their names."""
    def dismisses(m):
        return bool(calls_named(m, ('dismiss',)))

    def may(g):
        return summ.may(g, key, pred)

    def lambdas_of(root):
        out = []
        if root is None or root < 0:
            return out
        for x in fn.subtree(root):
            if fn.nodes[x].get('k') == 'lambda':
                g = facts.fns.get(fn.nodes[x].get('fn'))
                if g is not None:
                    out.append(g)
        return out
    always, on_exc = [], []       # lambdas run on every exit / on exceptional exits, with the position where they are armed
    proxy_body_pos = {}           # body lambda uid -> position of the proxy call in fn
    for pos, s, node, d in calls(fn):
        cls = (d or {}).get('cls') or ''
        if cls.endswith('try_call_proxy') and node.get('a'):
            m = facts.fns.get(node.get('fn'))
            if m is None or not calls_named(m, ('make_raii_guard',)):
                continue
            for b in lambdas_of(node.get('obj', -1)):
                proxy_body_pos[b.u] = pos
            for a in node['a']:
                for g in lambdas_of(a):
                    (on_exc if dismisses(m) else always).append((pos, g, None))
    for pos, s, node in fn.stmt_elems(('decl',)):
        for v in node['vars']:
            if 'raii_guard' in (v.get('cls') or v.get('ty') or '') and v.get('init', -1) >= 0:
                dis = [c for c in calls_named(fn, ('dismiss',)) if fn.n(fn.strip(c[2].get('obj', -1))).get('v') == v['v']]
                for g in lambdas_of(v['init']):
                    (on_exc if dis else always).append((pos, g, v['v']))
    # local lambdas referenced by name: `auto l = [&]{..}; try_call(body).on_completion(l)` - resolve variables initialised by a lambda
    named = {}
    for pos, s, node in fn.stmt_elems(('decl',)):
        for v in node['vars']:
            ls = lambdas_of(v.get('init', -1))
            if len(ls) == 1 and 'lambda' in (v.get('ty') or ''):
                named[v['v']] = ls[0]
    if named:
        for pos, s, node, d in calls(fn):
            cls = (d or {}).get('cls') or ''
            if not cls.endswith('try_call_proxy'):
                continue
            m = facts.fns.get(node.get('fn'))
            if m is None or not calls_named(m, ('make_raii_guard',)):
                continue
            for x in fn.subtree(node.get('obj', -1)) if node.get('obj', -1) >= 0 else []:
                nd = fn.nodes[x]
                if nd.get('k') == 'var' and nd.get('v') in named:
                    proxy_body_pos[named[nd['v']].u] = pos
            for a in node.get('a', []):
                for x in fn.subtree(a):
                    nd = fn.nodes[x]
                    if nd.get('k') == 'var' and nd.get('v') in named:
                        (on_exc if dismisses(m) else always).append((pos, named[nd['v']], None))
    # local objects with a destructor that (conditionally) runs the epilogue: a hand-written scope guard.  The automatic
    # destructor runs on every exit of the scope, normal or exceptional, once the object is constructed
    for pos, s, node in fn.stmt_elems(('decl',)):
        for v in node['vars']:
            dts = [e for b, i, e in fn.iter_elems() if isinstance(e, dict) and e.get('d') == 'auto' and e.get('v') == v['v']]
            for e in dts:
                g = facts.fns.get(e.get('fn'))
                if g is not None and may(g):
                    always.append((pos, g, v['v']))
                    break
    ops = []                      # (position in fn, node or None)
    for b, i, e in fn.iter_elems():
        if op_pred(fn, (b, i), e):
            ops.append(((b, i), fn.nodes[e] if isinstance(e, int) else None))
    for u, ppos in proxy_body_pos.items():
        g = facts.fns[u]
        if any(op_pred(g, (b, i), e) for b, i, e in g.iter_elems()):
            ops.append((ppos, None))
    notes = []
    normal_ok = exc_ok = True

    def elem_may(pos, e):
        return summ.elem_may(fn, pos, e, key, pred)
    for opos, onode in ops:
        def armed(p_, var):
            # a try_call proxy covers its own body only (operations of the body are mapped to the position of the proxy call);
            # a guard object covers what is reached from its declaration before its automatic destructor runs (a guard declared
            # later in a loop body does not cover the start of the next iteration)
            if var is None:
                return p_ == opos
            if p_ == opos:
                return False
            def gone(q, e, var=var):
                # the guard is over: its automatic destructor ran, or it was dismissed
                if isinstance(e, dict):
                    return e.get('d') == 'auto' and e.get('v') == var
                nd = fn.nodes[e]
                return nd.get('k') == 'call' and (fn.callee(e) or {}).get('n') == 'dismiss' and fn.n(fn.strip(nd.get('obj', -1))).get('v') == var
            return fn.can_reach(p_, opos, stop_elem=gone)
        armed_always = [g for p_, g, var in always if may(g) and armed(p_, var)]
        armed_exc = [g for p_, g, var in on_exc if may(g) and armed(p_, var)]
        n_ok = bool(armed_always) or every_path_passes(fn, opos, elem_may)[0]
        e_ok = bool(armed_always) or bool(armed_exc)
        if not e_ok and onode is not None and onode.get('tr') is not None:
            hs = [nd for nd in fn.nodes if nd and nd.get('k') == 'catch' and nd.get('try') == onode.get('tr')]
            for h in hs:
                if not h.get('ell'):
                    continue
                inside = [(pos2, s2) for pos2, s2, nd2 in fn.stmt_elems(None, reachable_only=False) if nd2.get('ca') == h.get('s')]
                if any(elem_may(pos2, s2) for pos2, s2 in inside):
                    e_ok = True
        if not n_ok:
            notes.append('after the operation at line %s a normal exit skips it' % ((onode or {}).get('ln') or fn.nodes[fn.blocks[opos[0]]['e'][opos[1]]].get('ln')))
        if not e_ok:
            notes.append('when the operation at line %s throws nothing runs it (no scope-exit lambda, no enclosing catch(...) handler)'
                         % ((onode or {}).get('ln') or fn.nodes[fn.blocks[opos[0]]['e'][opos[1]]].get('ln')))
        normal_ok = normal_ok and n_ok
        exc_ok = exc_ok and e_ok
    return len(ops), normal_ok, exc_ok, notes


# ---------------------------------------------------------------------------------------------------------------
# small interprocedural integer evaluation over a finite domain (used for index arithmetic whose operands are bounded by a
# compile-time table size: the expression is evaluated on EVERY value of the domain, not sampled)
def ipeval(facts, fn, x, env, depth=0, _defs=None):
    """value of integer expression node x of fn with variables bound by env {var id: int}; follows locals with a unique reaching
    definition and calls of functions whose body is a single return statement; tbb::detail::log2 is the floor of the binary
    logarithm (trusted).  None = not evaluable."""
    from engine.rules import Defs
    if x is None or x < 0 or depth > 6:
        return None
    c = fn.cv(x)
    if c is not None:
        return c
    n = fn.n(x)
    k = n.get('k')
    if k in ('rd', 'paren'):
        return ipeval(facts, fn, n['sub'], env, depth, _defs)
    if k == 'cast':
        v = ipeval(facts, fn, n['sub'], env, depth, _defs)
        to = n.get('to')
        if v is not None and to and to[0] and to[0] <= 64:
            v &= (1 << to[0]) - 1
            if to[1] and v >= 1 << (to[0] - 1):
                v -= 1 << to[0]
        return v
    if k == 'var':
        if n.get('v') in env:
            return env[n['v']]
        _defs = _defs if _defs is not None else {}
        if fn.u not in _defs:
            _defs[fn.u] = Defs(fn)
        uv = _defs[fn.u].unique_value(x)
        return ipeval(facts, fn, uv, env, depth + 1, _defs) if uv is not None else None
    if k == 'unop':
        v = ipeval(facts, fn, n['sub'], env, depth, _defs)
        if v is None:
            return None
        return {'-': -v, '~': ~v, '!': int(not v), '+': v}.get(n['op'])
    if k == 'binop':
        op = n['op']
        a = ipeval(facts, fn, n['l'], env, depth, _defs)
        if op == '&&' and a == 0:
            return 0
        if op == '||' and a not in (0, None):
            return 1
        b = ipeval(facts, fn, n['r'], env, depth, _defs)
        if a is None or b is None:
            return None
        if op in ('%', '/'):
            if b == 0:
                return None
            q = abs(a) // abs(b)
            if (a < 0) != (b < 0):
                q = -q
            return q if op == '/' else a - q * b
        if op in ('<<', '>>') and not 0 <= b < 64:
            return None
        f = {'+': lambda: a + b, '-': lambda: a - b, '*': lambda: a * b, '&': lambda: a & b, '|': lambda: a | b, '^': lambda: a ^ b,
             '<<': lambda: a << b, '>>': lambda: a >> b, '==': lambda: int(a == b), '!=': lambda: int(a != b), '<': lambda: int(a < b),
             '<=': lambda: int(a <= b), '>': lambda: int(a > b), '>=': lambda: int(a >= b), '&&': lambda: int(bool(a) and bool(b)),
             '||': lambda: int(bool(a) or bool(b))}.get(op)
        return f() if f else None
    if k == 'cond':
        c0 = ipeval(facts, fn, n['c'], env, depth, _defs)
        if c0 is None:
            return None
        return ipeval(facts, fn, n['l'] if c0 else n['r'], env, depth, _defs)
    if k == 'call':
        d = fn.callee(x) or {}
        args = [ipeval(facts, fn, a, env, depth, _defs) for a in n.get('a', [])]
        if (d.get('p') or '').endswith('detail::log2') and len(args) == 1:
            return args[0].bit_length() - 1 if args[0] and args[0] > 0 else None
        g = facts.fns.get(n.get('fn'))
        if g is None or any(a is None for a in args):
            return None
        rets = [nd for pos, s, nd in g.stmt_elems(('return',)) if nd.get('sub', -1) >= 0]
        if len(rets) != 1:
            return None
        ps = g.d.get('params', [])
        if len(ps) != len(args):
            return None
        return ipeval(facts, g, rets[0]['sub'], dict((p['v'], a) for p, a in zip(ps, args)), depth + 1, _defs)
    return None
