"""C12 - concurrent unordered / ordered associative containers never lose or duplicate keys.  (DESIGN.md section 4, C12)"""
from engine.facts import AnalysisBroken, atomic_op, atomic_ops, has_acquire, has_release
from engine.rules import (calls, calls_named, every_path_passes, last_member, is_call_to, Defs, resolve_cond_source, oname,
                          edges_where, dominated_by_edges, member_accesses, root_of, assignments, value_root, atomics_on,
                          elem_fn_uid, Summaries, access_kind, product_walk_from)

UNITS = ['drivers/containers.cpp']
D1N = 'tbb::detail::d1::'
D2N = 'tbb::detail::d2::'

EXPLANATION = (
    'Decides: D1 split-ordered list: a node is linked by new->set_next(next) followed by a compare-exchange on prev->next; from '
    'the concurrent API set_next is reachable only through try_insert; after a failed CAS the position is searched again (and the '
    'equal-key test repeated) before the retry; the size is incremented only after the link succeeded and a node that was not '
    'inserted is handed back; D2 bucket initialisation: parent bucket first, the bucket table entry is stored with release only '
    'after the dummy node is in the list, a losing dummy is destroyed, bucket 0 is published by CAS; D3 skip list: the level-0 link '
    '(CAS) precedes every upper-level link, each level stores the new node\'s next before the CAS on prev, for unique-key '
    'containers the found() test precedes the level-0 CAS in every retry, the maximum height is raised by CAS, the size is '
    'incremented only after linking and a rejected node is deleted.  Traversal completeness, comparator order of iteration and '
    'linearizability are NOT decided.')
EXPLANATION += ' Added after the seeded-change rounds: ' + 'D4: after internal_insert / internal_insert_node the rejected node is disposed of at most once on every path.'
EXPLANATION += ' Added in the third session (round-3 seeds and the findings they led to): ' + 'D5: every value written to the bucket count is a power of two by construction (one-bit abstract domain; doublings only where the doubled value is bounded from above).'
EXPLANATION += ' Added in the fourth round of seeded changes: ' + 'D6: functor take-over - in a function that replaces my_compare no element is linked before the replacement; every function that copies nodes together with their order keys has taken my_hash_compare from the same source on every path (helpers pass the obligation to their callers; constructors and assignment operators never do).'
EXPLANATION += ' Added later in the fourth round: ' + 'D7: empty() of a container range type means begin() == end() (the value returned compares the two members that begin() and end() hand out).'
EXPLANATION += ' Added in the fifth round: ' + 'D8: path-sensitive size accounting of the unordered containers - after a node was taken out with unlink_node the size drops by exactly one on every path to the end of the operation unless the node is linked back (size changes inside unlink_node included).'
ASSUMPTIONS = ['instantiations: unordered/ordered map, multimap, set, multiset over int (explicit instantiation)']
ND = ['traversal completeness under concurrent inserts', 'comparator order of iteration', 'linearizability']
UB = None


def ub(facts):
    for p in facts.by_p:
        if p.endswith('concurrent_unordered_base::try_insert'):
            return p[:-len('try_insert')]
    raise AnalysisBroken('concurrent_unordered_base::try_insert not found')


def sl(facts):
    for p in facts.by_p:
        if p.endswith('concurrent_skip_list::internal_insert_node'):
            return p[:-len('internal_insert_node')]
    raise AnalysisBroken('concurrent_skip_list::internal_insert_node not found')


def run(facts, rep):
    d1_list(facts, rep)
    d2_buckets(facts, rep)
    d3_skiplist(facts, rep)
    d4_dispose_once(facts, rep)
    d5_bucket_count_pow2(facts, rep)
    d6_functors(facts, rep)
    d7_range_empty(facts, rep)
    d8_size_follows_the_links(facts, rep)


def d1_list(facts, rep):
    U = ub(facts)
    for fn in facts.get(U + 'try_insert'):
        sn = calls_named(fn, ('set_next',))
        ts = calls_named(fn, ('try_set_next',))
        ok = len(sn) == 1 and len(ts) == 1 and every_path_passes(fn, 'entry', lambda p, e: p == sn[0][0], end=ts[0][0])[0]
        if ok:
            # roles by data flow: the node that gets its next pointer set is the node that the CAS installs, the receiver of the
            # CAS is a different parameter (the predecessor), and both use the same expected successor
            linked = fn.n(fn.strip(sn[0][2].get('obj', -1)))
            pred = fn.n(fn.strip(ts[0][2].get('obj', -1)))
            installed = fn.n(fn.strip(ts[0][2]['a'][1]))
            ok = linked.get('k') == 'var' and installed.get('k') == 'var' and linked.get('v') == installed.get('v') and \
                pred.get('k') == 'var' and pred.get('v') != linked.get('v') and \
                fn.path(sn[0][2]['a'][0]) == fn.path(ts[0][2]['a'][0])
        rep.ob('D1', 'K4', fn, 'try_insert: new_node->set_next(next) precedes prev->try_set_next(next, new_node)', ok,
               'the node becomes reachable before its next pointer is set (or the CAS compares against a different successor): a '
               'concurrent traversal falls off the list / elements are lost')
    ln = [p for p in facts.by_p if p.endswith('::list_node::try_set_next')]
    for p in ln:
        for fn in facts.by_p[p]:
            ws = [(q, o) for q, o in atomic_ops(fn) if o['kind'] in ('store', 'rmw', 'cas')]
            rep.ob('D1', 'K1', fn, 'try_set_next is a compare-exchange on my_next', bool(ws) and all(o['kind'] == 'cas' for _, o in ws),
                   ', '.join(o['name'] for _, o in ws))
    for p in [p for p in facts.by_p if p.endswith('::list_node::set_next')]:
        for fn in facts.by_p[p]:
            ws = [(q, o) for q, o in atomic_ops(fn) if o['kind'] in ('store', 'rmw', 'cas')]
            rep.ob('D1', 'K1', fn, 'set_next publishes with release', bool(ws) and all(has_release(o['order'] or 0) for _, o in ws),
                   ', '.join(oname(o['order']) for _, o in ws))
    # who may call set_next from the concurrent API
    roots = []
    for name in ('internal_insert', 'internal_insert_value', 'insert', 'emplace', 'emplace_hint', 'find', 'count', 'contains', 'equal_range',
                 'init_bucket', 'get_bucket', 'prepare_bucket', 'insert_dummy_node', 'internal_find', 'search_after', 'operator[]', 'at'):
        roots += facts.by_p.get(U + name, [])
    seen = set(r.u for r in roots)
    work = list(roots)
    offenders = []
    while work:
        f = work.pop()
        for b, i, e in f.iter_elems():
            u = elem_fn_uid(e, f)
            if not u or u not in facts.fns:
                continue
            g = facts.fns[u]
            if g.p.endswith('::list_node::set_next'):
                if not f.p.endswith('::try_insert'):
                    offenders.append(f)
                continue
            if not (g.p.startswith(U) or 'list_node' in g.p or g.kind == 'lambda'):
                continue
            # the unsafe / merge API is reachable from nowhere in the concurrent API; if it becomes reachable it is reported
            if u not in seen:
                seen.add(u)
                work.append(g)
    for r in roots[:1]:
        rep.ob('D1', 'K11', r, 'from the concurrent API, list links are written only through try_insert (set_next + CAS)', not offenders,
               'set_next is called directly by %s on a path reachable from concurrent operations' % ', '.join(sorted(set(o.p.split('::')[-1] for o in offenders))))
    for fn in facts.get(U + 'internal_insert'):
        defs = Defs(fn)
        ti = calls_named(fn, ('try_insert',))
        sa = calls_named(fn, ('search_after',))
        if not ti or not sa:
            raise AnalysisBroken('internal_insert: try_insert / search_after not found')
        tin = set(c[1] for c in ti)
        fail = edges_where(fn, lambda a, truth: (not truth) and fn.strip(a) in tin)
        succ = edges_where(fn, lambda a, truth: truth and fn.strip(a) in tin)
        sap = set(c[0] for c in sa)
        ok = bool(fail)
        for (b, si) in fail:
            tgt = fn.blocks[b]['succ'][si]
            reached, ex, par = fn.walk((tgt, -1), stop_elem=lambda p, e: p in sap)
            ok = ok and not any(q in set(c[0] for c in ti) for q in reached)
        rep.ob('D1', 'K4', fn, 'after a failed CAS the insert position is searched again before the retry', ok,
               'the retry uses a stale successor: the new node can be linked in front of an equal key inserted meanwhile (duplicate key) '
               'or out of order')
        # the equal-key test is repeated: between search_after and the next try_insert there is a branch on .second
        fa = [(p, o) for p, o in atomics_on(fn, 'my_size', kinds=('rmw',))]
        ok2 = bool(fa) and all(dominated_by_edges(fn, p, succ)[0] for p, _ in fa)
        rep.ob('D1', 'K4', fn, 'the element count is incremented only after the node was linked', ok2, 'my_size changed on a path without a successful CAS')
        # a created node is never dropped: every return after creation either reports success or returns the node
        # the node factory is the functor parameter; the created node is the variable initialised from its call
        from engine.rules import vars_initialised_from
        cr = [c for c in calls(fn) if c[2].get('op') == '()' and 'param' in fn.n(fn.strip(c[2].get('obj', -1)))]
        created = vars_initialised_from(fn, [c[1] for c in cr])
        rets = [(p, s, nd) for p, s, nd in fn.stmt_elems(('return',))]
        ok3 = True
        for p, s, nd in rets:
            if not cr or not any(fn.can_reach(c[0], p) for c in cr):
                continue
            v = fn.n(value_root(fn, nd.get('sub', -1)))
            args = v.get('a', []) if v.get('k') in ('ctor', 'initlist') else []
            if len(args) >= 3:
                inserted = fn.cv(args[2])
                remaining_is_node = fn.n(value_root(fn, args[0])).get('v') in created and fn.n(value_root(fn, args[0])).get('k') == 'var'
                ok3 = ok3 and (inserted == 1 or remaining_is_node)
        rep.ob('D1', 'K3', fn, 'a node that was created but not inserted is handed back to the caller', ok3,
               'the rejected node is neither inserted nor returned: it leaks, or the caller reports a wrong result')
    rep.floor('D1', 6, 'split-ordered list insert')


def d2_buckets(facts, rep):
    U = ub(facts)
    for fn in facts.get(U + 'init_bucket'):
        idn = calls_named(fn, ('insert_dummy_node',))
        if not idn:
            raise AnalysisBroken('init_bucket: insert_dummy_node not found')
        ops = [(p, o) for p, o in atomic_ops(fn) if o['kind'] != 'fence']
        seg_st = [(p, o) for p, o in ops if o['kind'] == 'store']
        seg_cas = [(p, o) for p, o in ops if o['kind'] == 'cas']
        rec = [c for c in calls_named(fn, ('init_bucket',))]
        ok = bool(rec) and all(every_path_passes(fn, 'entry', lambda p, e: isinstance(e, int) and (atomic_op(fn, e) or {}).get('kind') == 'load', end=c[0])[0] for c in idn)

        def parent_ready(a, truth):
            n = fn.n(fn.strip(a))
            if n.get('k') != 'binop' or n['op'] not in ('==', '!='):
                return False
            isnull = fn.n(fn.strip(n['r'])).get('null') or fn.n(fn.strip(n['l'])).get('null')
            hasload = any(atomic_op(fn, x) for x in fn.subtree(n['s']))
            return isnull and hasload and (truth == (n['op'] == '!='))
        pe = edges_where(fn, parent_ready)
        ok = ok and bool(pe) and all(dominated_by_edges(fn, c[0], pe)[0] for c in idn)
        rep.ob('D2', 'K4', fn, 'the parent bucket is initialised (observed non-null) before the dummy node is inserted', ok,
               'a dummy node can be inserted starting from an uninitialised parent')
        ok2 = bool(seg_st) and all(has_release(o['order'] or 0) for _, o in seg_st) and \
            all(every_path_passes(fn, 'entry', lambda p, e: p in set(c[0] for c in idn), end=sp)[0] for sp, _ in seg_st)
        rep.ob('D2', 'K4', fn, 'the bucket table entry is stored (release) only after the dummy node is in the list', ok2,
               'a bucket pointer can be published before the dummy node is linked / without release')
        rep.ob('D2', 'K1', fn, 'bucket 0 is published by compare-exchange', bool(seg_cas), 'no CAS for bucket 0')
    for fn in facts.get(U + 'insert_dummy_node'):
        dn = calls_named(fn, ('destroy_node',))
        ti = calls_named(fn, ('try_insert',))

        def equal_key(a, truth):
            n = fn.n(fn.strip(a))
            return truth and n.get('k') == 'binop' and n['op'] == '==' and any(
                (fn.callee(x) or {}).get('n') == 'order_key' for x in fn.subtree(n['s']) if fn.nodes[x].get('k') == 'call')
        ee = edges_where(fn, equal_key)
        ok = bool(dn) and bool(ee) and all(dominated_by_edges(fn, c[0], ee)[0] for c in dn)
        for (b, si) in ee:
            ok = ok and every_path_passes(fn, (fn.blocks[b]['succ'][si], -1), lambda p, e: p in set(c[0] for c in dn))[0]
        rep.ob('D2', 'K3', fn, 'a dummy node that lost the race is destroyed and the winner is returned', ok, 'losing dummy node leaked or a live one destroyed')
        tin = set(c[1] for c in ti)
        fail = edges_where(fn, lambda a, truth: (not truth) and fn.strip(a) in tin)
        ok2 = bool(fail)
        for (b, si) in fail:
            reached, ex, par = fn.walk((fn.blocks[b]['succ'][si], -1), stop_elem=lambda p, e: is_call_to(fn, e, shortnames=('next',)))
            ok2 = ok2 and not any(q in set(c[0] for c in ti) for q in reached)
        rep.ob('D2', 'K4', fn, 'after a failed CAS the dummy insert position is re-read before the retry', ok2, 'retry with stale successor')
    rep.floor('D2', 5, 'bucket initialisation')


def d3_skiplist(facts, rep):
    S = sl(facts)
    nuniq = 0
    for fn in facts.get(S + 'internal_insert_node'):
        cas = []
        for pos, s, node in fn.stmt_elems(('call',)):
            op = atomic_op(fn, s)
            if op and op['kind'] == 'cas':
                on = fn.n(fn.strip(op['obj']))
                if on.get('k') == 'call' and (fn.callee(on['s']) or {}).get('n') == 'atomic_next':
                    lvl = fn.cv(on['a'][0]) if on.get('a') else None
                    cas.append((pos, op, lvl, on))
        c0 = [c for c in cas if c[2] == 0]
        cu = [c for c in cas if c[2] != 0]
        if not c0 or not cu:
            raise AnalysisBroken('skip list internal_insert_node: level-0 / upper-level CAS not found')
        c0n = set(c[1]['s'] for c in c0)
        linked = edges_where(fn, lambda a, truth: truth and fn.strip(a) in c0n)
        for pos, op, lvl, on in cu:
            ok, wit = dominated_by_edges(fn, pos, linked)
            rep.ob('D3', 'K4', fn, 'upper levels are linked only after the level-0 link succeeded', ok,
                   'a node can be reachable on an upper level while it is not in the bottom list (lookups find a key that iteration '
                   'does not, or a rejected node stays linked): ' + wit, ln=op['ln'])
        sn = calls_named(fn, ('set_next',))
        for pos, op, lvl, on in cas:
            want = fn.path(on['a'][0]) if on.get('a') else '?'
            inserted = fn.n(fn.strip(op['val']))       # the node that the CAS installs
            pre = [c for c in sn if c[2].get('a') and fn.path(c[2]['a'][0]) == want and
                   fn.n(fn.strip(c[2].get('obj', -1))).get('k') == 'var' and fn.n(fn.strip(c[2].get('obj', -1))).get('v') == inserted.get('v')]
            ok = bool(pre) and every_path_passes(fn, 'entry', lambda p, e: p in set(c[0] for c in pre), end=pos)[0]
            # re-done in every retry: from the failing CAS back to itself a set_next must be passed
            reached, ex, par = fn.walk(pos, stop_elem=lambda p, e: p in set(c[0] for c in pre))
            ok = ok and pos not in reached
            rep.ob('D3', 'K4', fn, 'new_node->set_next(level, next) precedes the CAS on prev->atomic_next(level) in every attempt (level %s)' % want, ok,
                   'the node is published on a level with a stale/unset next pointer', ln=op['ln'], key_extra=want)
        fd = set(c[1] for c in calls_named(fn, ('found',)))
        # unique-key instantiations: the traits' AllowMultimapping template argument is false (set_index_number is the
        # multimap-only branch)
        unique = not calls_named(fn, ('set_index_number',))
        if unique:
            nuniq += 1
            nf = edges_where(fn, lambda a, truth: (not truth) and fn.strip(a) in fd)
            for pos, op, lvl, on in c0:
                ok, wit = dominated_by_edges(fn, pos, nf)
                reached, ex, par = fn.walk(pos, stop_edge=lambda b, si: (b, si) in nf)
                rep.ob('D3', 'K4', fn, 'unique containers test found(next, key) before the level-0 CAS in every retry', ok and pos not in reached,
                       'two equivalent keys can be linked by concurrent inserts: ' + wit, ln=op['ln'], key_extra='found')
        mh = [(p, o) for p, o in atomics_on(fn, 'my_max_height', kinds=('store', 'rmw', 'cas'))]
        rep.ob('D3', 'K1', fn, 'the maximum height is raised by compare-exchange', bool(mh) and all(o['kind'] == 'cas' for _, o in mh),
               ', '.join(o['name'] for _, o in mh))
        sz = [(p, o) for p, o in atomics_on(fn, 'my_size', kinds=('rmw', 'store'))]
        ok = bool(sz) and all(dominated_by_edges(fn, p, linked)[0] for p, _ in sz)
        rep.ob('D3', 'K4', fn, 'the size is incremented only after the node was linked', ok, 'size incremented without a successful link')
    if nuniq == 0:
        raise AnalysisBroken('no unique-key skip list instantiation analysed')
    for fn in facts.get(S + 'internal_insert'):
        dl = calls_named(fn, ('delete_value_node',))

        def rejected(a, truth):
            n = fn.n(fn.strip(a))
            return (not truth) and n.get('k') == 'member' and n['n'] == 'second'
        re_ = edges_where(fn, rejected)
        ok = bool(dl) and bool(re_) and all(dominated_by_edges(fn, c[0], re_)[0] for c in dl)
        for (b, si) in re_:
            ok = ok and every_path_passes(fn, (fn.blocks[b]['succ'][si], -1), lambda p, e: p in set(c[0] for c in dl))[0]
        rep.ob('D3', 'K3', fn, 'a rejected node is deleted exactly when the insertion failed', ok, 'rejected node leaked / inserted node deleted')
    rep.floor('D3', 7, 'skip list insert')



# ---------------------------------------------------------------------------------------------------------------
def d4_dispose_once(facts, rep):
    """Every caller of internal_insert handles ONE node (the one its factory creates or hands in).  When the insertion
    is rejected, internal_insert returns that node as `remaining_node` -- the same node the caller may still hold in a
    variable.  So on any single path after the internal_insert call at most one node-disposal call site may be passed:
    two sites on one path free the same node twice (the loser of a same-key race).  Same for the skip list."""
    U = ub(facts)
    S = sl(facts)
    n = 0
    for cls_prefix, callee, disposers in ((U, 'internal_insert', ('destroy_node',)),
                                          (S, 'internal_insert_node', ('delete_value_node', 'destroy_node')),
                                          (S, 'internal_insert', ('delete_value_node', 'destroy_node'))):
        for fn in facts.fns.values():
            if not fn.p.startswith(cls_prefix):
                continue
            ins = [c for c in calls(fn) if (c[3] or {}).get('p', '').startswith(cls_prefix) and c[3]['n'] == callee]
            if not ins:
                continue
            ds = [c for c in calls_named(fn, disposers) if any(fn.can_reach(i[0], c[0]) for i in ins)]
            bad = [(a, b) for a in ds for b in ds if a[0] != b[0] and fn.can_reach(a[0], b[0])]
            n += 1
            rep.ob('D4', 'K3', fn, 'after %s() the rejected node is disposed of at most once on every path' % callee, not bad,
                   'a path passes two disposal sites (%s): the node returned as remaining_node is the caller\'s own node, so the loser of a '
                   'same-key race destroys its element twice and frees the node twice'
                   % ', '.join('line %s' % x[2]['ln'] for x in (bad[0] if bad else ())))
    rep.floor('D4', 4, 'callers of internal_insert / internal_insert_node')


def d5_bucket_count_pow2(facts, rep):
    """Split ordering: bucket b of a table with B buckets starts at the dummy node with the bit-reversed order key of b, and
    `hash % B` selects the bucket whose dummy precedes every element with that hash - which holds only when B is a power of
    two (then hash % B is the low bits of the hash and every bucket's parent is b with its top bit cleared).  With any other B
    lookups start behind the element: present keys are not found, duplicates are accepted, traversals visit keys twice.
    Rule: every value written to my_bucket_count (store, exchange, desired value of a compare-exchange, constructor
    initialiser) is a power of two by construction.  Abstract domain, one bit: POW2 values are constants that are powers of two,
    results of round_up_to_power_of_two, values read from a my_bucket_count (of this or another container - the invariant),
    POW2 * 2^k, POW2 << k, and variables all of whose reaching definitions are POW2 (a compound <<= / *= 2 keeps the class; the
    `expected` argument of a compare-exchange on my_bucket_count is refreshed from it)."""
    def is_pow2_const(c):
        return c is not None and c > 0 and (c & (c - 1)) == 0

    def bounded_above(fn, pos, vid):
        """some edge that dominates pos bounds variable vid from above (vid < X / vid <= X true, mirrored, or the negations false)"""
        def atom(a, truth):
            an = fn.n(fn.strip(a))
            if an.get('k') != 'binop' or an['op'] not in ('<', '<=', '>', '>='):
                return False
            l, r = fn.n(fn.strip(an['l'])), fn.n(fn.strip(an['r']))
            op = an['op'] if truth else {'<': '>=', '<=': '>', '>': '<=', '>=': '<'}[an['op']]
            if l.get('k') == 'var' and l.get('v') == vid and op in ('<', '<='):
                return True
            if r.get('k') == 'var' and r.get('v') == vid and op in ('>', '>='):
                return True
            return False
        return pos is not None and dominated_by_edges(fn, pos, edges_where(fn, atom))[0]

    def doubled_var(fn, x):
        xn = fn.n(fn.strip(x))
        return xn.get('v') if xn.get('k') == 'var' else None

    def pow2(fn, defs, x, depth=0, assume=()):
        if depth > 8 or x is None or x < 0:
            return False
        c = fn.cv(x)
        x = fn.strip(x)
        n = fn.n(x)
        k = n.get('k')
        if c is None:
            c = fn.cv(x)
        if c is not None:
            return is_pow2_const(c)
        if k == 'var' and n.get('v') in assume:
            return True
        if k in ('cast', 'rd', 'paren'):
            return pow2(fn, defs, n['sub'], depth + 1, assume)
        if k == 'ctor' and len(n.get('a', [])) == 1:
            return pow2(fn, defs, n['a'][0], depth + 1, assume)
        if k == 'call':
            d = fn.callee(x) or {}
            if d.get('n') == 'round_up_to_power_of_two':
                return True
            op = atomic_op(fn, x)
            if op and op['kind'] == 'load' and last_member(fn, op['obj']) == 'my_bucket_count':
                return True
            return False
        if k == 'binop':
            if n['op'] in ('*', '<<'):
                # doubling keeps the class only while it cannot wrap: the doubled variable is bounded from above on a dominating edge
                ok_cls = (pow2(fn, defs, n['l'], depth + 1, assume) and pow2(fn, defs, n['r'], depth + 1, assume)) if n['op'] == '*' \
                    else pow2(fn, defs, n['l'], depth + 1, assume)
                if not ok_cls:
                    return False
                dv = doubled_var(fn, n['l']) if doubled_var(fn, n['l']) is not None else doubled_var(fn, n['r'])
                if dv is None:
                    return fn.cv(n['l']) is not None and fn.cv(n['r']) is not None
                if not bounded_above(fn, fn.pos_of(x), dv):
                    unguarded.append('%s at line %s can wrap to 0' % (fn.path(x), n.get('ln')))
                    return False
                return True
            return False
        if k == 'var':
            pos = fn.pos_of(x)
            ds = defs.reaching(pos, n['v']) if pos is not None else None
            if not ds:
                return False
            for dn in ds:
                if dn == -1:
                    return False                      # a parameter: anything
                val = defs.value_of.get((n['v'], dn))
                if val is not None:
                    if not pow2(fn, defs, val, depth + 1, assume):
                        return False
                    continue
                dnode = fn.nodes[dn]
                if dnode.get('k') == 'binop' and dnode.get('op') in ('<<=',):
                    if not bounded_above(fn, fn.pos_of(dn), n['v']):
                        unguarded.append('%s <<= ... at line %s can wrap to 0' % (n.get('n'), dnode.get('ln')))
                        return False
                    continue
                if dnode.get('k') == 'binop' and dnode.get('op') == '*=' and is_pow2_const(fn.cv(dnode['r'])):
                    continue
                opd = atomic_op(fn, dn) if dnode.get('k') == 'call' else None
                if opd and last_member(fn, opd['obj']) == 'my_bucket_count':
                    continue                           # compare-exchange refreshes its `expected` argument from the counter
                return False
            return True
        return False
    n = 0
    unguarded = []
    for fn in facts.fns.values():
        if not (fn.cls or '').startswith(D2N + 'concurrent_unordered_base'):
            continue
        defs = None
        for pos, o in atomic_ops(fn):
            if o['kind'] not in ('store', 'rmw', 'cas') or last_member(fn, o['obj']) != 'my_bucket_count':
                continue
            defs = defs or Defs(fn)
            val = o.get('val', -1)
            n += 1
            assume = ()
            if o['kind'] == 'cas' and o.get('expected', -1) >= 0:
                # the desired value is installed only if the counter equals `expected`: inside the desired expression the
                # expected variable stands for the current (power-of-two) bucket count
                en = fn.n(fn.strip(o['expected']))
                if en.get('k') == 'var':
                    assume = (en['v'],)
            rep.ob('D5', 'K10', fn, 'the bucket count written at line %s is a power of two by construction' % o['ln'], pow2(fn, defs, val, 0, assume),
                   'value written: %s %s- with a bucket count that is not a power of two `hash %% count` selects a bucket whose dummy node lies '
                   'behind the element: present keys are not found, a second insert of the key succeeds, traversals see it twice'
                   % (fn.path(val), ('(' + '; '.join(unguarded[-1:]) + ') ') if unguarded else ''), ln=o['ln'], key_extra='pow2|%s|%s' % (fn.p, o['ln']))
        # constructor initialisers of the member
        for b, i, e in fn.iter_elems():
            if isinstance(e, dict) and e.get('i') == 'my_bucket_count' and e.get('s', -1) >= 0:
                defs = defs or Defs(fn)
                n += 1
                rep.ob('D5', 'K10', fn, 'the bucket count a container is constructed with is a power of two (line %s)' % e.get('ln'),
                       pow2(fn, defs, e['s']), 'initialiser: %s' % fn.path(e['s']), ln=e.get('ln'), key_extra='pow2init|%s|%s' % (fn.p, e.get('ln')))
    if n < 6:
        raise AnalysisBroken('writes of my_bucket_count not found (%d)' % n)
    rep.floor('D5', 6, 'bucket count writers')


def d6_functors(facts, rep):
    """The position of every element is computed with the container's own functor object: the skip list is searched with
    my_compare, the split-ordered list is keyed by my_hash_compare(key).  Functors may carry state (direction flag, collation,
    seed), so whenever a container takes elements over from another one:
      (a) ordered containers re-insert element by element (internal_copy -> insert): in a function that replaces my_compare, no
          element is linked (internal_insert_node reachable) before the replacement - otherwise the elements are ordered by the
          OLD comparator while find/insert/iteration afterwards use the new one (keys not found, inserted twice, wrong order);
      (b) unordered containers copy the nodes together with their order keys (internal_copy / internal_move read order_key of
          the source): every function that does so has taken my_hash_compare from the same source on every path to that call
          (constructor initialiser or assignment) - otherwise the copied order keys do not belong to the hash function in use."""
    summ = Summaries(facts, max_depth=10)
    S = sl(facts)
    U = ub(facts)

    def links(fn, pos, e):
        return isinstance(e, int) and fn.nodes[e].get('k') == 'call' and ((fn.callee(e) or {}).get('n') == 'internal_insert_node')
    na = 0
    for fn in sorted((f for f in facts.fns.values() if f.p.startswith(S) and not f.d.get('lparent')), key=lambda f: f.q):
        ws = [(pos, s) for pos, s, n, kind in member_accesses(fn, ('my_compare',))
              if fn.n(fn.strip(n.get('base', -1))).get('k') == 'this' and (kind == 'write' or kind == 'call:operator=')]
        if not ws:
            continue
        early = []
        for b, i, e in fn.iter_elems():
            if not isinstance(e, int) or fn.nodes[e].get('k') not in ('call', 'ctor'):
                continue
            if not summ.elem_may(fn, (b, i), e, 'links-element', links):
                continue
            if any(fn.can_reach((b, i), w[0]) for w in ws):
                early.append('%s (line %s)' % ((fn.callee(e) or {}).get('n'), fn.nodes[e].get('ln')))
        na += 1
        rep.ob('D6', 'K4', fn, 'no element is linked before the comparator object is replaced', not early,
               'elements are inserted through %s and only then my_compare is replaced: with a comparator that carries state the list is '
               'ordered by the old comparator while every later search uses the new one - keys are not found, are inserted a second time, '
               'iteration is not in comparator order' % ', '.join(early), key_extra='cmp-first')
    nb = 0
    ufns = sorted((f for f in facts.fns.values() if f.p.startswith(U) and not f.d.get('lparent')), key=lambda f: f.q)

    def from_param(fn, root):
        return root is not None and root >= 0 and any(fn.nodes[x].get('k') == 'var' and 'param' in fn.nodes[x] for x in fn.subtree(root))

    def takes(fn):
        """positions where my_hash_compare of *this receives a value computed from a parameter (the source container)"""
        inits = set((b, i) for b, i, e in fn.iter_elems() if isinstance(e, dict) and e.get('i') == 'my_hash_compare' and from_param(fn, e.get('s')))
        ws = set()
        for pos, s_, l, r in assignments(fn):
            ln_ = fn.n(fn.strip(l))
            if ln_.get('k') == 'member' and ln_.get('n') == 'my_hash_compare' and fn.n(fn.strip(ln_.get('base', -1))).get('k') == 'this' \
                    and from_param(fn, r):
                ws.add(pos)
        return inits | ws
    # helpers that copy without touching the functor and are called from inside the class (internal_move_assign,
    # internal_move_construct_with_allocator, ... - by primary name: tag-dispatched overloads have callers in other
    # instantiations only) pass the obligation on to their callers
    copiers = set([U + 'internal_copy', U + 'internal_move'])
    changed = True
    while changed:
        changed = False
        for fn in ufns:
            if fn.p in copiers or takes(fn) or fn.kind != 'method' or fn.p.split('::')[-1].startswith('operator'):
                continue          # constructors and assignment operators are where the functor is taken: never lifted
            inl = [g for g in (facts.fns.get(n_.get('fn')) for _, _, n_ in fn.stmt_elems(('lambda',))) if g is not None]
            if any((d or {}).get('p') in copiers for f_ in [fn] + inl for pos, s, node, d in calls(f_)) and \
                    any(c[0].p.startswith(U) for c in facts.callers_p(fn.p)):
                copiers.add(fn.p)
                changed = True
    for fn in ufns:
        if fn.p in copiers:
            continue
        cps = [(pos, s, node, d) for pos, s, node, d in calls(fn) if (d or {}).get('p') in copiers]
        # a lambda handed to try_call runs where it is written: its copier calls are sites of the enclosing function
        for pos, s, node in fn.stmt_elems(('lambda',)):
            g = facts.fns.get(node.get('fn'))
            if g is not None:
                for p2, s2, n2, d2 in calls(g):
                    if (d2 or {}).get('p') in copiers:
                        cps.append((pos, s, n2, d2))
        if not cps:
            continue
        took = takes(fn)
        for pos, s, node, d in cps:
            nb += 1
            ok, wit = every_path_passes(fn, 'entry', lambda p_, e: p_ in took, end=pos)
            rep.ob('D6', 'K1', fn, 'the hash/equality functor is taken from the source before its nodes (with their order keys) are copied', ok,
                   'order keys of the source are copied but my_hash_compare stays as it was (%s): with a hasher that carries state the '
                   'copied keys are not found and can be inserted twice' % wit, ln=node.get('ln'), key_extra='hash|%s' % d.get('n'))
    if na < 2 or nb < 4:
        raise AnalysisBroken('functor take-over sites: %d comparator replacements, %d structural copies (expected >= 2 / >= 4)' % (na, nb))
    rep.floor('D6', 5, 'functor take-over sites')


def d7_range_empty(facts, rep):
    """"a traversal sees every element that was present before it began exactly once": the parallel algorithms skip a root range
    whose empty() is true and never ask again.  For the range types of the containers (classes with begin(), end(), empty() and
    is_divisible()) empty() therefore means exactly begin() == end(): the value it returns is the equality of the two members
    that begin() and end() hand out (possibly of the same sub-member of both), with nothing dereferenced in between.  A test
    on the SUCCESSOR of begin (a "has at most one element" test) makes parallel_for over a one-element container visit
    nothing."""
    n = 0
    for cls_p, cs in sorted(facts.classes.items()):
        if not cls_p.startswith(D2N) or not (cls_p.endswith('range_type') or cls_p.endswith('_range')):
            continue
        m = {}
        for name in ('begin', 'end', 'empty', 'is_divisible'):
            m[name] = facts.by_p.get(cls_p + '::' + name, [])
        if not all(m.values()):
            continue

        def returned_member(g):
            out = set()
            for pos, s, nd in g.stmt_elems(('return',)):
                if 'sub' not in nd:
                    continue
                ms = [g.nodes[x].get('n') for x in g.subtree(nd['sub']) if g.nodes[x].get('k') == 'member' and 'fn' not in g.nodes[x] and
                      g.n(g.strip(g.nodes[x].get('base', -1))).get('k') == 'this']
                out |= set(ms)
            return out
        bm = set().union(*[returned_member(g) for g in m['begin']])
        em = set().union(*[returned_member(g) for g in m['end']])
        if len(bm) != 1 or len(em) != 1:
            continue
        bmn, emn = list(bm)[0], list(em)[0]
        for fn in m['empty']:
            n += 1
            ok = True
            why = ''
            rets = [(pos, nd) for pos, s, nd in fn.stmt_elems(('return',)) if 'sub' in nd]
            for pos, nd in rets:
                x = fn.n(fn.strip(nd['sub']))
                if fn.cv(nd['sub']) is not None:
                    ok, why = False, 'constant result'
                    continue
                if x.get('k') == 'call' and x.get('op') in ('==', '!='):
                    sides = list(x.get('a', [])) + ([x['obj']] if x.get('obj', -1) >= 0 else [])
                elif x.get('k') == 'binop' and x['op'] in ('==', '!='):
                    sides = [x['l'], x['r']]
                elif x.get('k') == 'unop' and x['op'] == '!':
                    y = fn.n(fn.strip(x['sub']))
                    sides = [y.get('l'), y.get('r')] if y.get('k') == 'binop' else ([y.get('obj')] + list(y.get('a', [])) if y.get('k') == 'call' else [])
                else:
                    ok, why = False, 'the result is not a comparison of begin and end (%s)' % fn.path(nd['sub'])
                    continue
                roots = []
                deref = False
                for sd in sides:
                    if sd is None or sd < 0:
                        continue
                    sub = fn.subtree(sd)
                    roots.append(set(fn.nodes[y].get('n') for y in sub if fn.nodes[y].get('k') == 'member' and 'fn' not in fn.nodes[y] and
                                     fn.n(fn.strip(fn.nodes[y].get('base', -1))).get('k') == 'this'))
                    if any(fn.nodes[y].get('k') == 'call' and not atomic_op(fn, y) and fn.nodes[y].get('op') not in ('==', '!=') for y in sub):
                        deref = True
                if len(roots) != 2 or not ((bmn in roots[0] and emn in roots[1]) or (bmn in roots[1] and emn in roots[0])) or deref:
                    ok, why = False, 'compares %s' % fn.path(nd['sub'])
            if len(rets) > 1 and ok:
                pass
            rep.ob('D7', 'K10', fn, 'empty() of a container range means begin() == end()', ok and bool(rets),
                   '%s: a root range that holds elements reports empty() and the parallel algorithm skips it - a traversal of a '
                   'one-element container visits nothing' % why, key_extra='range-empty')
    if n < 2:
        raise AnalysisBroken('container range types with begin/end/empty/is_divisible: %d (expected the ordered and the unordered one)' % n)


def d8_size_follows_the_links(facts, rep):
    """"final contents are exactly the union of successful inserts": size() / empty() of the unordered containers are a counter
    kept beside the list, so the counter has to move with the links.  The unsafe (non-concurrent) operations take nodes out with
    unlink_node: on every path from such a call to the end of the operation (the function exit, or the next unlink in a loop) the
    size of the container the node was taken from drops by exactly one - unless the node is linked back (merge: the insertion
    into the destination lost against an equivalent key), in which case it does not drop at all.  Counted path-sensitively;
    size changes inside unlink_node itself are included."""
    U = ub(facts)
    n = 0

    def size_delta_elem(g, e):
        """change of my_size by one element of g: -1 / +1 / 0"""
        if not isinstance(e, int):
            return 0
        o = atomic_op(g, e)
        if not o or last_member(g, o['obj']) != 'my_size':
            return 0
        if o['kind'] == 'rmw':
            if o['name'] in ('fetch_sub', 'operator--', 'operator-='):
                return -1
            if o['name'] in ('fetch_add', 'operator++', 'operator+='):
                return 1
        if o['kind'] == 'store' and o.get('val', -1) >= 0:
            x = g.n(g.strip(o['val']))
            if x.get('k') == 'binop' and x['op'] in ('-', '+') and g.cv(x['r']) == 1 and \
                    any((atomic_op(g, y) or {}).get('kind') == 'load' and last_member(g, atomic_op(g, y)['obj']) == 'my_size' for y in g.subtree(x['l'])):
                return -1 if x['op'] == '-' else 1
        return 0
    unlink_fns = [f for f in facts.fns.values() if f.p == U + 'unlink_node']
    if not unlink_fns:
        raise AnalysisBroken('concurrent_unordered_base::unlink_node not found')
    inner = {}
    for f in unlink_fns:
        d = 0
        for b, i, e in f.iter_elems():
            d += size_delta_elem(f, e)
        inner[f.u] = d
    for fn in sorted(facts.fns.values(), key=lambda f: f.q):
        if not fn.p.startswith(U) or fn.p == U + 'unlink_node':
            continue
        us = [(pos, s, node) for pos, s, node, d in calls(fn) if (d or {}).get('p') == U + 'unlink_node']
        if not us:
            continue
        upos = set(p for p, _, _ in us)
        for pos, s, node in us:
            n += 1
            args = node.get('a', [])
            victim = fn.n(fn.strip(args[1])).get('v') if len(args) > 1 else None

            def tr(st, p_, e, victim=victim):
                links, size = st
                if isinstance(e, int):
                    nd = fn.nodes[e]
                    if nd.get('k') == 'call' and (fn.callee(e) or {}).get('n') == 'set_next' and victim is not None and \
                            any(fn.nodes[x].get('k') == 'var' and fn.nodes[x].get('v') == victim for a in nd.get('a', []) for x in fn.subtree(a)):
                        links += 1           # the node is linked back behind its predecessor
                    size += size_delta_elem(fn, e)
                if abs(links) > 3 or abs(size) > 3:
                    return None
                return (links, size)
            # stop a path when it reaches another unlink: treat as end of this operation
            ends = set()

            def tr2(st, p_, e):
                if p_ in upos:               # the next unlink (of the next loop iteration too): this operation is over
                    ends.add(st)
                    return None
                return tr(st, p_, e)
            visits, exits = product_walk_from(fn, pos, (-1, inner.get(node.get('fn'), 0)), tr2)
            finals = set(exits) | ends
            bad = sorted(st for st in finals if st[0] != st[1])
            rep.ob('D8', 'K3', fn, 'after a node was taken out with unlink_node the size drops by one - unless the node is linked back', not bad and bool(finals),
                   'paths on which the list and the counter disagree (links, size): %s - size()/empty() of the source no longer say what '
                   'the container holds (a merge that lost the race for a key leaves the key in the source but counts it out)' % bad,
                   ln=node.get('ln'), key_extra='unlink|%s' % fn.p)
    if n < 2:
        raise AnalysisBroken('callers of unlink_node: %d (expected internal_extract and internal_merge)' % n)
