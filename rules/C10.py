"""C10 - concurrent_hash_map is a linearizable map with per-element reader/writer locks.  (DESIGN.md section 4, C10)"""
from engine.facts import AnalysisBroken, atomic_op, atomic_ops, has_acquire, has_release
from engine.rules import (calls, calls_named, every_path_passes, last_member, is_call_to, Defs, resolve_cond_source, oname,
                          edges_where, dominated_by_edges, member_accesses, root_of, assignments, value_root, atomics_on,
                          local_objects, auto_dtor_positions, dataflow_must)
from engine import witness

UNITS = ['drivers/containers.cpp']
D2 = 'tbb::detail::d2::'
CHM = D2 + 'concurrent_hash_map::'

EXPLANATION = (
    'Decides: D1 a bucket chain is mutated (node_list stored, prev->next written, insert_new_node) only while the bucket accessor '
    'is known to hold the bucket lock as a writer (constructed with writer=true, or on the true edge of is_writer() / '
    'upgrade_to_writer(), not after downgrade/release), and after an upgrade that had to release the lock the chain is searched '
    'again before it is used; D2 growth re-check: insertion and the not-found result are taken only after check_mask_race() '
    'returned false in the same attempt, and a new bucket is marked rehashed before its parent bucket is locked; D3 an element '
    'is destroyed only after its own lock was taken exclusively and outside the bucket lock scope; D4 accessor typing: '
    'const_accessor yields const elements, accessors are neither copyable nor convertible reader->writer (compile-fail '
    'witnesses), and lookup() acquires the element lock with write == is_write_access_needed(accessor); D5 success is reported '
    'only on the path that linked / unlinked the node.  Linearizability and absence of loss across lazy rehash for all hash '
    'functions are NOT decided.')
EXPLANATION += ' Added after the seeded-change rounds: ' + 'D1 also: after a bucket-lock upgrade that released the lock, every pointer the chain mutation uses (node, predecessor) is recomputed on every path before the mutation.'
EXPLANATION += ' Added in the third session (round-3 seeds and the findings they led to): ' + 'D3 also: the element lock is waited for outside the bucket lock scope (anchored on the acquisition) and, class-wide, no blocking element-lock acquisition happens while a bucket lock is held.'
EXPLANATION += ' Added in the fifth seeding round: ' + 'D4 also: every operation that receives an accessor releases it before lookup() acquires an element lock through it (in the operation or in the helper the accessor is forwarded to; sibling agreement over all find / insert / emplace overloads) - otherwise the element the accessor held stays locked for ever.'
EXPLANATION += ' D5 also: between insert_new_node and the return (within the attempt that linked the node) no call that may allocate stands outside a try block - the thread that inserted gets to report it.'
EXPLANATION += ' Added in the sixth (partial) seeding round: ' + 'D2 also: every value stored into an accessor\'s my_hash is a whole hash code (functor result, parameter, another accessor\'s my_hash, through locals) - never the result of masking or other arithmetic: erase(accessor) recomputes the bucket under the mask in force later.'
EXPLANATION += ' D2 also: in rehash_bucket every operation of the user\'s hash_compare that runs after the new bucket was marked rehashed stands inside a try block whose handler takes the mark back (stores to the new bucket\'s node_list).'
ASSUMPTIONS = ['instantiations: concurrent_hash_map<int,int> and <string,string> (explicit instantiation)', 'rw scoped lock model']
ND = ['linearizability of the map operations', 'no loss across lazy rehash for all hash functions / growth schedules']


def run(facts, rep):
    d1_writer(facts, rep)
    d2_growth(facts, rep)
    d3_destroy(facts, rep)
    d4_typing(facts, rep)
    d5_success(facts, rep)
    d4_accessor_released_before_reuse(facts, rep)
    d5_no_failure_after_the_insertion(facts, rep)
    d2_accessor_keeps_the_full_hash(facts, rep)
    d2_user_hash_after_the_rehash_mark(facts, rep)


def witnesses(rep, tier):
    witness.check_file(rep, 'D4', 'witness/chm.cpp', floor=7)
    if tier == 'thorough':
        witness.check_file(rep, 'D4', 'witness/chm.cpp', std='-std=c++11', floor=7)


def accessor_vars(fn):
    return [(pos, vid, v, init) for pos, vid, v, init in local_objects(fn, lambda c: c.endswith('bucket_accessor'))]


def var_call(fn, e, vids, names):
    if not isinstance(e, int):
        return None
    n = fn.nodes[e]
    if n.get('k') != 'call' or n.get('obj', -1) < 0:
        return None
    o = fn.n(fn.strip(n['obj']))
    if o.get('k') != 'var' or o.get('v') not in vids:
        return None
    d = fn.callee(e)
    if d and d['n'] in names:
        return o['v']
    return None


def writer_state(fn):
    """must-dataflow: set of accessor var ids known to hold their bucket as a writer"""
    accs = accessor_vars(fn)
    vids = set(a[1] for a in accs)
    if not vids:
        return None, vids

    def tr(st, pos, e):
        if isinstance(e, int):
            n = fn.nodes[e]
            if n.get('k') == 'decl':
                for v in n['vars']:
                    if v['v'] in vids:
                        ctor = fn.n(v.get('init', -1))
                        a = ctor.get('a', [])
                        if len(a) >= 3 and fn.cv(a[2]) == 1:
                            st = st | {v['v']}
                        else:
                            st = st - {v['v']}
                return st
            k = var_call(fn, e, vids, ('downgrade_to_reader', 'release', 'acquire'))
            if k is not None:
                return st - {k}
            return st
        if isinstance(e, dict) and e.get('d') == 'auto' and e.get('v') in vids:
            return st - {e['v']}
        return st

    def tre(st, b, si):
        for (s, truth) in fn.edge_conds(b, si):
            k = var_call(fn, fn.strip(s), vids, ('is_writer', 'upgrade_to_writer'))
            if k is not None and truth:
                st = st | {k}
        return st
    before, _ = dataflow_must(fn, tr, tre)
    return before, vids


def accessor_of(fn, s, vids):
    """accessor variable whose operator() result is dereferenced in expression s (b()->node_list)"""
    for x in fn.subtree(s):
        n = fn.nodes[x]
        if n.get('k') == 'call' and n.get('op') == '()' and n.get('obj', -1) >= 0:
            o = fn.n(fn.strip(n['obj']))
            if o.get('k') == 'var' and o.get('v') in vids:
                return o['v']
    return None


def mutation_sites(fn, vids):
    """[(pos, what, line, accessor var or None)] chain mutations in fn"""
    out = []
    for pos, op in atomics_on(fn, 'node_list', kinds=('store', 'rmw', 'cas')):
        acc = accessor_of(fn, op['obj'], vids)
        if acc is None:
            continue          # a bucket reached through a parameter (the new bucket in rehash_bucket) is locked by the caller
        out.append((pos, 'node_list.store', op['ln'], acc))
    for pos, s, l, r in assignments(fn):
        if last_member(fn, l) == 'next' and fn.n(fn.strip(l)).get('k') == 'member':
            out.append((pos, 'prev->next = ...', fn.n(s).get('ln'), None))
    for pos, s, node, d in calls_named(fn, ('insert_new_node',)):
        out.append((pos, 'insert_new_node', node['ln'], accessor_of(fn, node['a'][0], vids) if node.get('a') else None))
    return out


def d1_writer(facts, rep):
    n = 0
    for name in ('exclude', 'internal_erase', 'rehash_bucket', 'lookup'):
        for fn in facts.get(CHM + name):
            before, vids = writer_state(fn)
            if before is None:
                raise AnalysisBroken('%s: no bucket_accessor found' % name)
            sites = mutation_sites(fn, vids)
            if name != 'lookup' and not sites:
                raise AnalysisBroken('%s: no chain mutation found' % name)
            for pos, what, ln, acc in sites:
                st = before.get(pos, frozenset())
                ok = (acc in st) if acc is not None else bool(st)
                n += 1
                rep.ob('D1', 'K5', fn, '%s at line %s happens with the bucket held as writer' % (what, ln), ok,
                       'the bucket chain is modified while the bucket may be held only as a reader: concurrent readers traverse a '
                       'chain that changes under them / two writers interleave', ln=ln, key_extra='%s%s' % (what, ln))
            # re-search after an upgrade that released the lock
            up = set(s for p, s, nd, d in calls_named(fn, ('upgrade_to_writer',)) if var_call(fn, s, vids, ('upgrade_to_writer',)) is not None)
            failed = edges_where(fn, lambda a, truth: (not truth) and fn.strip(a) in up)
            spos = set(s[0] for s in sites)
            for (b, si) in failed:
                tgt = fn.blocks[b]['succ'][si]

                def research(p, e):
                    if is_call_to(fn, e, shortnames=('search_bucket',)):
                        return True
                    op = atomic_op(fn, e) if isinstance(e, int) else None
                    return bool(op) and op['kind'] == 'load' and last_member(fn, op['obj']) == 'node_list'
                reached, ex, par = fn.walk((tgt, -1), stop_elem=research)
                bad = [q for q in reached if q in spos and not research(q, fn.elems(q[0])[q[1]])]
                rep.ob('D1', 'K4', fn, 'after an upgrade that released the bucket lock the chain is searched again before it is changed', not bad,
                       'a node pointer obtained before the lock was dropped is used after it (it may have been erased meanwhile)',
                       key_extra='re%d.%d' % (b, si))
                # ... and the re-search starts from scratch: every local the chain mutation reads (the node, its predecessor) is
                # defined again on every path from the failed upgrade to the mutation - a predecessor remembered from the first
                # search may have been unlinked and freed while the lock was released
                defs = Defs(fn)
                stale = []
                for spos_, ssx in [(x[0], fn.elems(x[0][0])[x[0][1]]) for x in sites]:
                    if not isinstance(ssx, int):
                        continue
                    if not fn.can_reach((tgt, 0), spos_):
                        continue
                    used = set()
                    for x in fn.subtree(ssx):
                        nd = fn.nodes[x]
                        if nd.get('k') == 'var' and nd.get('local') and nd.get('ty', '').rstrip().endswith('*'):
                            used.add((nd['v'], nd['n']))
                    # the branch that selects the mutation (prev == nullptr ?) reads the predecessor as well
                    for bb, blk in fn.blocks.items():
                        t = blk.get('term')
                        if t and 'c' in t and any(dominated_by_edges(fn, spos_, {(bb, k)})[0] for k in (0, 1)) and fn.can_reach((tgt, 0), (bb, 0)):
                            for x in fn.subtree(t['c']):
                                nd = fn.nodes[x]
                                if nd.get('k') == 'var' and nd.get('local') and nd.get('ty', '').rstrip().endswith('*'):
                                    used.add((nd['v'], nd['n']))
                    for vid, vname in used:
                        dpos = set(fn.positions()[dn] for (v, dn) in defs.value_of if v == vid and dn in fn.positions())
                        ok_v, wit_v = every_path_passes(fn, (tgt, -1), lambda p_, e_: p_ in dpos, end=spos_)
                        if not ok_v:
                            stale.append('%s (%s)' % (vname, wit_v))
                rep.ob('D1', 'K4', fn, 'the search after a released lock recomputes every pointer the chain mutation uses', not stale,
                       'stale across the retry: %s - it can name a node that was unlinked and freed while the bucket lock was released; '
                       'the erased node then stays linked (key resurrected, second erase succeeds, accessor to a destroyed element)'
                       % '; '.join(sorted(set(stale))[:2]), key_extra='fresh%d.%d' % (b, si))
    rep.floor('D1', 9, 'chain mutation sites')


def d2_growth(facts, rep):
    for fn in facts.get(CHM + 'lookup'):
        cmr = set(s for p, s, nd, d in calls_named(fn, ('check_mask_race',)))
        ok_edges = edges_where(fn, lambda a, truth: (not truth) and fn.strip(a) in cmr)
        ins = calls_named(fn, ('insert_new_node',))
        for pos, s, node, d in ins:
            ok, wit = dominated_by_edges(fn, pos, ok_edges)
            rep.ob('D2', 'K4', fn, 'a node is inserted only after check_mask_race() returned false in this attempt', ok,
                   'the table grew since the mask was read: the node lands in a bucket where later lookups (using the new mask) do '
                   'not search: ' + wit, ln=node['ln'])
        if not ins:
            for pos, s, node in fn.stmt_elems(('return',)):
                if fn.cv(node.get('sub', -1)) == 0:
                    ok, wit = dominated_by_edges(fn, pos, ok_edges)
                    rep.ob('D2', 'K4', fn, '"not found" is reported only after check_mask_race() returned false', ok,
                           'find/count miss an element that was moved by a concurrent growth: ' + wit, ln=node['ln'])
    for name in ('internal_erase', 'exclude'):
        for fn in facts.get(CHM + name):
            cmr = set(s for p, s, nd, d in calls_named(fn, ('check_mask_race',)))
            ok_edges = edges_where(fn, lambda a, truth: (not truth) and fn.strip(a) in cmr)
            for pos, s, node in fn.stmt_elems(('return',)):
                if fn.cv(node.get('sub', -1)) == 0:
                    ok, wit = dominated_by_edges(fn, pos, ok_edges)
                    rep.ob('D2', 'K4', fn, 'erase reports "absent" only after check_mask_race() returned false', ok, wit, ln=node['ln'])
    for fn in facts.get(CHM + 'rehash_bucket'):
        mark = [p for p, o in atomics_on(fn, 'node_list', kinds=('store',)) if fn.n(root_of(fn, o['obj'])).get('param') is not None]
        accs = accessor_vars(fn)
        ok = bool(mark) and bool(accs) and all(every_path_passes(fn, 'entry', lambda p, e: p in set(mark), end=a[0])[0] for a in accs)
        rep.ob('D2', 'K4', fn, 'the new bucket is marked rehashed before the parent bucket is taken', ok, 'recursive rehash order changed')
    rep.floor('D2', 5, 'growth re-checks')


def d3_destroy(facts, rep):
    for fn in facts.get(CHM + 'internal_erase'):
        dels = calls_named(fn, ('delete_node',))
        lockers = [x for x in local_objects(fn, lambda c: c.endswith('rw_scoped_lock') or c.endswith('scoped_lock') or c.endswith('scoped_type'))
                   if x[2]['n'] != 'b']
        lockers = [x for x in lockers if fn.n(x[3]).get('a') and last_member(fn, fn.n(x[3])['a'][0]) == 'mutex']
        accs = accessor_vars(fn)
        if not dels:
            raise AnalysisBroken('internal_erase: delete_node not found')
        for pos, s, node, d in dels:
            ok = bool(lockers)
            for lp, vid, v, init in lockers:
                a = fn.n(init).get('a', [])
                ok = ok and len(a) >= 2 and fn.cv(a[1]) == 1
                ok = ok and every_path_passes(fn, 'entry', lambda p, e: p == lp, end=pos)[0]
                dt = set(auto_dtor_positions(fn, vid))
                ok = ok and every_path_passes(fn, 'entry', lambda p, e: p in dt, end=pos)[0]
            rep.ob('D3', 'K4', fn, 'the erased element is destroyed only after its own lock was taken (and released) exclusively', ok,
                   'a thread still holding an accessor to the element would use freed memory', ln=node['ln'])
            bd = set()
            for ap, avid, av, ainit in accs:
                bd |= set(auto_dtor_positions(fn, avid))
            # anchored on the ACQUISITION of the element lock (the blocking constructor), not on the destruction of the element
            ok2 = bool(bd) and bool(lockers) and all(every_path_passes(fn, 'entry', lambda p, e: p in bd, end=lp)[0]
                                                     for lp, vid, v, init in lockers)
            rep.ob('D3', 'K4', fn, 'the element lock is waited for outside the bucket lock scope', ok2,
                   'waiting for the element lock while holding the bucket lock can deadlock with an accessor holder that needs the bucket',
                   ln=node['ln'], key_extra='scope')
    for fn in facts.get(CHM + 'exclude'):
        dels = calls_named(fn, ('delete_node',))
        rel = [c for c in calls_named(fn, ('release',)) if fn.n(fn.strip(c[2].get('obj', -1))).get('param') is not None]
        up = [c for c in calls_named(fn, ('upgrade_to_writer', 'is_writer')) if fn.n(fn.strip(c[2].get('obj', -1))).get('param') is not None]
        upc = set(c[1] for c in up)
        wr = edges_where(fn, lambda a, truth: truth and fn.strip(a) in upc and fn.callee(fn.strip(a))['n'] == 'is_writer')
        for pos, s, node, d in dels:
            ok = bool(rel) and every_path_passes(fn, 'entry', lambda p, e: p in set(r[0] for r in rel), end=pos)[0]
            upg = [c[0] for c in up if c[3]['n'] == 'upgrade_to_writer']
            ok2, _ = dominated_by_edges(fn, pos, wr, extra_elem=lambda p, e: p in set(upg))
            rep.ob('D3', 'K4', fn, 'erase-by-accessor upgrades to the exclusive element lock and releases it before destroying the element',
                   ok and ok2, 'other const_accessor holders may still read the element when it is destroyed', ln=node['ln'])
    # lock order, whole class: a bucket lock (bucket_accessor) protects the chain for the moment; an element lock is held by the
    # user for as long as an accessor lives.  Under a bucket lock an element lock may only be TRIED (lookup backs off and
    # releases the bucket when the element is busy); a blocking acquisition there makes every operation on that bucket wait for
    # a user-held accessor, and deadlocks when the accessor's owner is the one that needs the bucket.
    from engine.rules import lockset
    nblk = 0
    for fn in facts.fns.values():
        if not (fn.cls or '').startswith(D2 + 'concurrent_hash_map'):
            continue
        before, info = lockset(fn, lambda c: c.endswith('bucket_accessor'))
        if not info:
            continue
        for pos, s, node, d in calls(fn, kinds=('ctor', 'call')):
            nm = (d or {}).get('n')
            blocking = (node.get('k') == 'ctor' and ((d or {}).get('cls') or '').endswith(('scoped_lock', 'scoped_type')) and node.get('a')) or \
                (node.get('k') == 'call' and nm in ('acquire', 'lock', 'lock_shared'))
            if not blocking or not node.get('a'):
                continue
            if last_member(fn, node['a'][0]) != 'mutex' or 'bucket' in fn.path(node['a'][0]):
                continue
            if (((d or {}).get('cls')) or '').endswith('bucket_accessor'):
                continue
            nblk += 1
            held = before.get(pos, frozenset())
            rep.ob('D3', 'K5', fn, 'a blocking acquisition of an element lock happens outside every bucket lock (line %s)' % node['ln'], not held,
                   'bucket lock(s) %s held while waiting for an accessor to be released: all operations on the bucket stall behind a user-held '
                   'accessor, deadlock if its owner needs the bucket' % sorted(info[v]['var'] for v in held), ln=node['ln'],
                   key_extra='order|%s' % node['ln'])
    if nblk < 1:
        raise AnalysisBroken('concurrent_hash_map: no blocking element-lock acquisition found (internal_erase item_locker)')
    rep.floor('D3', 4, 'destroy sites + lock order')


def d4_typing(facts, rep):
    n = 0
    for fn in facts.fns.values():
        if not fn.p.startswith(CHM):
            continue
        for pos, s, node, d in calls_named(fn, ('lookup',)):
            a = node.get('a', [])
            if len(a) < 4:
                continue
            res = fn.n(value_root(fn, a[2]))
            if res.get('null'):
                continue
            w = fn.n(value_root(fn, a[3]))
            if w.get('k') == 'call' and (fn.callee(w['s']) or {}).get('n') == 'is_write_access_needed':
                ok = True
                how = 'is_write_access_needed(result)'
            else:
                v = fn.cv(a[3])
                ptypes = ' '.join(p['ty'] for p in fn.d.get('params', []))
                want = 0 if 'const_accessor' in ptypes else (1 if 'accessor' in ptypes else None)
                ok = v is not None and want is not None and int(v) == want
                how = 'constant %s for parameter types (%s)' % (v, ptypes[:80])
            n += 1
            rep.ob('D4', 'K10', fn, 'lookup() locks the element for write exactly when the caller passed an accessor', ok,
                   'element lock mode %s does not match the accessor kind: a const_accessor would block readers, or an accessor would '
                   'share the element with readers' % how, ln=node['ln'], key_extra=str(node['ln']))
    for fn in facts.get(D2 + 'is_write_access_needed'):
        ptypes = ' '.join(p['ty'] for p in fn.d.get('params', []))
        want = 1 if ('accessor' in ptypes and 'const_accessor' not in ptypes and 'not_used' not in ptypes) else 0
        rets = [fn.cv(nd.get('sub', -1)) for p, s, nd in fn.stmt_elems(('return',))]
        rep.ob('D4', 'K10', fn, 'is_write_access_needed(%s) == %s' % ('accessor' if want else 'const_accessor / none', bool(want)),
               rets == [want], 'returns %s' % rets, key_extra=ptypes[-40:])
    for fn in facts.get(CHM + 'lookup'):
        ta = [c for c in calls_named(fn, ('try_acquire',)) if c[2].get('a') and last_member(fn, c[2]['a'][0]) == 'mutex']
        mode = set(p['v'] for p in fn.d.get('params', []) if p['ty'] == 'bool')       # the `write` parameter of lookup()
        ok = bool(ta) and all(len(c[2]['a']) >= 2 and fn.n(fn.strip(c[2]['a'][1])).get('k') == 'var' and
                              fn.n(fn.strip(c[2]['a'][1])).get('v') in mode for c in ta)
        rep.ob('D4', 'K10', fn, 'the element lock is acquired with the requested mode', ok, 'try_acquire(n->mutex, ...) ignores `write`')
    rep.floor('D4', 12, 'accessor typing')


def d5_success(facts, rep):
    for fn in facts.get(CHM + 'lookup'):
        ins = calls_named(fn, ('insert_new_node',))
        if not ins:
            continue
        ip = set(c[0] for c in ins)
        from engine.rules import returned_vars
        rv = returned_vars(fn)       # the result flag is the variable that lookup() returns
        for pos, s, l, r in assignments(fn):
            ln_ = fn.n(fn.strip(l))
            if ln_.get('k') == 'var' and ln_.get('v') in rv and fn.cv(r) == 1:
                ok, wit = every_path_passes(fn, 'entry', lambda p, e: p in ip, end=pos)
                rep.ob('D5', 'K4', fn, 'insert reports success only on the path that linked the new node', ok,
                       'two concurrent inserts of one key can both return true: ' + wit, ln=fn.n(s).get('ln'))
    for name in ('internal_erase', 'exclude'):
        for fn in facts.get(CHM + name):
            dec = [p for p, o in atomics_on(fn, 'my_size', kinds=('rmw',))]
            for pos, s, node in fn.stmt_elems(('return',)):
                if fn.cv(node.get('sub', -1)) == 1:
                    ok, wit = every_path_passes(fn, 'entry', lambda p, e: p in set(dec), end=pos)
                    rep.ob('D5', 'K4', fn, 'erase reports success only on the path that unlinked the node', ok, wit, ln=node['ln'])
    rep.floor('D5', 3, 'success reporting')


def d4_accessor_released_before_reuse(facts, rep):
    """An accessor is a scoped lock on one element.  Every operation that hands its result out through an accessor
    (find / insert / emplace with an accessor argument) first lets go of whatever the accessor still holds: lookup() acquires the
    element lock with try_acquire on that scoped lock, and an accessor that still owns another element's mutex simply forgets it
    - the old element stays locked for ever although no accessor points to it (every later find / insert / erase of that key
    hangs).  Rule (sibling agreement over all overloads): on every path from the entry of a function that receives an accessor to
    its call of lookup(), the accessor is released - in the function itself or in the helper it forwards the accessor to."""
    memo = {}

    def acc_params(f):
        return [p for p in f.d.get('params', []) if 'accessor' in (p.get('ty') or '') and 'not_used' not in (p.get('ty') or '')]

    def ok_for(f, pv, depth=0):
        key = (f.u, pv)
        if key in memo:
            return memo[key]
        memo[key] = (True, 0)
        rel = set(pos for pos, s, node, d in calls_named(f, ('release',)) if f.n(f.strip(node.get('obj', -1))).get('v') == pv)
        sites = 0
        good = True
        for pos, s, node, d in calls(f):
            nm = (d or {}).get('n')
            args = node.get('a', [])
            fwd = [i for i, a in enumerate(args) if any(f.nodes[x].get('k') == 'var' and f.nodes[x].get('v') == pv for x in f.subtree(a))]
            if not fwd:
                continue
            if nm in ('release', 'is_write_access_needed', 'forward', 'move', 'accessor_location') or nm is None:
                continue
            g = facts.fns.get(node.get('fn'))
            covered = every_path_passes(f, 'entry', lambda q, e: q in rel, end=pos)[0]
            if nm == 'lookup':
                sites += 1
                good = good and covered
            elif g is not None and (g.cls or '') == CHM[:-2] and depth < 3:
                ps = g.d.get('params', [])
                sub_ok, sub_sites = (True, 0)
                for i in fwd:
                    if i < len(ps):
                        r = ok_for(g, ps[i]['v'], depth + 1)
                        sub_ok, sub_sites = sub_ok and r[0], sub_sites + r[1]
                if sub_sites:
                    sites += sub_sites
                    good = good and (covered or sub_ok)
        memo[key] = (good, sites)
        return memo[key]
    n = 0
    for fn in sorted(facts.fns.values(), key=lambda f: f.q):
        if (fn.cls or '') != CHM[:-2] or fn.kind != 'method':
            continue
        if facts.callers(fn.u) and any((c[0].cls or '') == CHM[:-2] for c in facts.callers(fn.u)):
            continue                    # helpers are judged through their callers
        for p in acc_params(fn):
            good, sites = ok_for(fn, p['v'])
            if not sites:
                continue
            n += 1
            rep.ob('D4', 'K3', fn, 'an accessor handed to %s is released before lookup() acquires through it' % fn.p.split('::')[-1], good,
                   'a path reaches lookup() with the accessor still holding its previous element: the element lock acquired through the '
                   'accessor replaces the old one, which stays locked for ever - later find / insert / erase of that key hang',
                   key_extra='acc-release|%s|%s' % (fn.p.split('::')[-1], 'const' if 'const_accessor' in p['ty'] else 'rw'))
    if n < 6:
        raise AnalysisBroken('concurrent_hash_map: public operations with an accessor argument that reach lookup(): %d (expected >= 6)' % n)


def d5_no_failure_after_the_insertion(facts, rep):
    """"of several concurrent inserts of an absent key exactly one returns true": the thread whose node was linked is that one -
    it must get to report it.  In lookup<insert> an allocation after insert_new_node (the deferred growth: enable_segment
    allocates a bucket array) that fails turns the successful insertion into an exception: the key is in the map, my_size
    counts it, nobody was told `true`, a retry returns false, and the node that lost a race (tmp_n) leaks.  Rule (K9): between
    insert_new_node and the return - within the attempt that linked the node, i.e. up to the next bucket acquisition - no call
    that may allocate (transitively: allocator allocate / allocate_memory / a non-placement new) stands outside a try block."""
    from engine.rules import Summaries
    summ = Summaries(facts, max_depth=4)

    def allocates(g, pos, e):
        if not isinstance(e, int):
            return False
        nd = g.nodes[e]
        if nd.get('k') == 'new':
            return not nd.get('pl')
        return nd.get('k') == 'call' and (g.callee(e) or {}).get('n') in ('allocate', 'allocate_memory', 'cache_aligned_allocate')
    n = 0
    for fn in facts.get(CHM + 'lookup'):
        ins = calls_named(fn, ('insert_new_node',))
        if not ins:
            continue
        # a new attempt starts where the bucket is acquired again
        attempt = set(pos for pos, s, nd in fn.stmt_elems(('ctor', 'call')) if (nd.get('cls') or '').endswith('bucket_accessor') or
                      ((fn.callee(s) or {}).get('n') == 'acquire' and ((fn.callee(s) or {}).get('cls') or '').endswith('bucket_accessor')))
        if not attempt:
            raise AnalysisBroken('concurrent_hash_map::lookup: bucket acquisition not found')
        bad = []
        for pos, sx, node, d in ins:
            reached, ex, par = fn.walk(pos, stop_elem=lambda q, e: q in attempt)
            for q in reached:
                if q == pos or q in attempt:
                    continue
                e = fn.elems(q[0])[q[1]]
                if not isinstance(e, int) or fn.nodes[e].get('k') not in ('call', 'ctor', 'new'):
                    continue
                nd = fn.nodes[e]
                if nd.get('tr') is not None:
                    continue
                g = facts.fns.get(nd.get('fn'))
                if allocates(fn, q, e) or (g is not None and summ.may(g, 'allocates', allocates)):
                    bad.append('%s at line %s' % ((fn.callee(e) or {}).get('n') or nd.get('k'), nd.get('ln')))
        n += 1
        rep.ob('D5', 'K9', fn, 'no allocation stands unguarded between linking the new node and reporting the insertion', not bad,
               '%s can throw bad_alloc after insert_new_node: insert()/emplace() leave by exception although the key is in the map and counted - '
               'no insert of that key ever returns true, a retry returns false, and a node that lost the race leaks' % ', '.join(sorted(set(bad))),
               key_extra='post-insert-throw')
    if n < 1:
        raise AnalysisBroken('concurrent_hash_map::lookup<insert> not instantiated')


def d2_accessor_keeps_the_full_hash(facts, rep):
    """erase(accessor) (exclude) finds the element's bucket again from the hash code the accessor remembered - under the mask in
    force at THAT time.  The table may have grown since the accessor was obtained and lazy rehashing may have moved the node into
    the bucket selected by a hash bit that did not count before; only the full hash code finds it.  A remembered value that was
    already reduced by the mask of the lookup makes exclude() search the old parent bucket, find nothing and report "someone else
    erased it" - of two concurrent erases of a present key none returns true and the key stays.  Rule: every value stored into an
    accessor's my_hash is a whole hash code - the result of the hash functor, a parameter, or another accessor's my_hash, directly
    or through locals - never the result of arithmetic (masking, shifting, modulo)."""
    n = 0
    for fn in sorted(facts.fns.values(), key=lambda f: f.q):
        if not fn.p.startswith(CHM):
            continue
        defs = None
        for pos, s, l, r in assignments(fn):
            ln_ = fn.n(fn.strip(l))
            if ln_.get('k') != 'member' or ln_.get('n') != 'my_hash':
                continue
            defs = defs or Defs(fn)
            bad = []

            def whole(x, depth=0):
                x = fn.strip(x)
                nd = fn.n(x)
                k = nd.get('k')
                if k in ('binop', 'unop'):
                    bad.append('`%s` at line %s' % (fn.path(x), nd.get('ln')))
                    return
                if k == 'var' and depth < 4 and 'param' not in nd:
                    for d_, v in (defs.values(x) or []):
                        if v is not None:
                            whole(v, depth + 1)
            whole(r)
            n += 1
            rep.ob('D2', 'K14', fn, 'the accessor remembers the whole hash code of its element', not bad,
                   'my_hash is given %s: after the table has grown exclude() computes the bucket from a value that lacks the newly significant '
                   'bits, misses the (lazily rehashed) node and returns false - no erase of the present key returns true' % ', '.join(bad),
                   ln=fn.n(s).get('ln'), key_extra='acc-hash|' + fn.p.split('::')[-1])
    if n < 1:
        raise AnalysisBroken('concurrent_hash_map: no assignment to an accessor\'s my_hash found')


def d2_user_hash_after_the_rehash_mark(facts, rep):
    """"no key is lost ... while buckets are rehashed lazily ... for all custom hash functions": rehash_bucket marks the new
    bucket as rehashed FIRST (it must - D2: before the parent bucket is locked) and then calls the user's hash functor on every
    node of the parent bucket to decide which ones move.  If that call throws, the new bucket stays marked although its nodes
    are still in the parent bucket: every later lookup of those keys searches the (empty) new bucket - the keys are lost although
    size() counts them.  Rule (K9): between the mark and the end of rehash_bucket no operation of the user's hash_compare runs
    outside a try block whose handler takes the mark back (stores to the new bucket's node_list)."""
    n = 0
    for fn in facts.get(CHM + 'rehash_bucket'):
        marks = [pos for pos, o in atomics_on(fn, 'node_list', kinds=('store',))]
        if not marks:
            raise AnalysisBroken('concurrent_hash_map::rehash_bucket: the rehashed mark was not found')
        first = min(marks, key=lambda p: (fn.nodes[fn.elems(p[0])[p[1]]].get('ln') or 0))
        reached, ex, par = fn.walk(first)
        bad = []
        for q in reached:
            e = fn.elems(q[0])[q[1]]
            if not isinstance(e, int):
                continue
            nd = fn.nodes[e]
            if nd.get('k') == 'call' and nd.get('tp') and last_member(fn, nd.get('obj', -1)) == 'my_hash_compare':
                if nd.get('tr') is None:
                    bad.append(nd.get('ln'))
                    continue
                # guarded: the handler of that try takes the mark back (a store to node_list inside the handler)
                catches = [c for c in fn.nodes if c and c.get('k') == 'catch' and c.get('try') == nd['tr']]
                undone = any(o['kind'] == 'store' and last_member(fn, o['obj']) == 'node_list' and fn.nodes[o['s']].get('ca') in set(c['s'] for c in catches)
                             for _, o in atomic_ops(fn))
                if not undone:
                    bad.append(nd.get('ln'))
        n += 1
        rep.ob('D2', 'K9', fn, 'no operation of the user\'s hash_compare runs unguarded after the new bucket was marked rehashed', not bad,
               'my_hash_compare.hash() at line(s) %s runs after the mark: if it throws, the new bucket stays marked rehashed while its nodes are still '
               'in the parent bucket - those keys are never found again (size() still counts them)' % sorted(set(bad)), key_extra='rehash-user-hash')
    if n < 1:
        raise AnalysisBroken('concurrent_hash_map::rehash_bucket not instantiated')
