"""C06 - parallel_reduce/scan/sort equal the sequential result.  NARROW CLAIM (DESIGN.md section 4, C06)"""
from engine.facts import AnalysisBroken, atomic_op, has_acquire
from engine.rules import (calls, calls_named, every_path_passes, last_member, is_call_to, Defs, resolve_cond_source,
                          edges_where, dominated_by_edges, member_accesses, root_of, assignments, value_root, atomics_on)
from engine import witness

UNITS = ['drivers/algorithms.cpp']
D1 = 'tbb::detail::d1::'

EXPLANATION = (
    'Narrow claim.  Decides: D1 operand order is left (+) right: Body::join is invoked on the body the split was taken from with '
    'the split-off body as argument, the tree node\'s left_body is bound to the splitting task\'s body, lambda_reduce_body passes '
    '(my_value, rhs.my_value) in that order and feeds its running value through the range functor; D2 the lazy split of '
    'parallel_reduce happens only for a right child whose left sibling is still running (acquire load == 2) ; D3 '
    'parallel_deterministic_reduce rejects auto/affinity partitioners at compile time (witnesses) and its tree node splits the '
    'body eagerly and unconditionally; D4 parallel_scan applies the final pass exactly once per leaf and never both tags to one '
    'leaf; D5 parallel_sort touches elements only through the comparator, std::iter_swap and std::sort (a permutation).  '
    'Equality with the sequential fold, bit-identical floating point, sortedness and scan prefix values are NOT decided.')
EXPLANATION += ' Added after the seeded-change rounds: ' + 'D4 also: a right child of parallel_scan gets a body of its own depending on the steal status AND on the identity parent->left_sum == own body; D6: every public overload of parallel_reduce / parallel_deterministic_reduce / parallel_scan / parallel_sort dispatches to the same task class as its siblings and passes every argument on.'
EXPLANATION += ' Added in the third session (round-3 seeds and the findings they led to): ' + 'D3 also: the partition types parallel_deterministic_reduce is instantiated with do not consult the number of threads (violated by static_partitioner: known finding); D4 also: a scan leaf publishes its summary slot only after its body ran over the leaf.'
EXPLANATION += ' Added in the fourth round of seeded changes: ' + 'D7: the range pool ring rule of C05-D7 (the reduction shares the pool).'
EXPLANATION += ' Added in the fifth round: ' + 'D2 also: the zombie pairing of C03-D4 (shared); the lazy-split guard follows the split into a helper of the tree node.'
ASSUMPTIONS = ['clang and g++ agree on overload resolution for the witness programs', 'std::iter_swap / std::sort permute']
ND = ['equality with the sequential fold', 'bit-identical floating-point results', 'sortedness of the output',
      'pre-sortedness probe pair coverage', 'scan prefix values']


def run(facts, rep):
    d1_order(facts, rep)
    d2_lazy(facts, rep)
    d3_det(facts, rep)
    d4_scan(facts, rep)
    d5_sort(facts, rep)
    d6_overloads(facts, rep)
    # the range pool of auto / affinity partitioner decides which sub-ranges reach the reduction bodies (shared with C05-D7)
    from rules.C05 import d7_range_pool_ring
    d7_range_pool_ring(facts, rep, clause='D7')


def d6_overloads(facts, rep):
    from rules.common import api_family_agreement
    n = 0
    for fam, what in ((D1 + 'parallel_reduce', 'join tree follows the steals'),
                      (D1 + 'parallel_deterministic_reduce', 'split/join tree depends only on range and grain size'),
                      (D1 + 'parallel_scan', 'two-pass scan'), (D1 + 'parallel_sort', 'quick sort')):
        g, unc = api_family_agreement(facts, rep, 'D6', fam, what)
        n += g
        if unc:
            rep.note('D6: %d overload(s) of %s are not instantiated by the drivers and were not analysed' % (unc, fam))
    rep.floor('D6', 30, 'public overloads of reduce / deterministic_reduce / scan / sort')


def witnesses(rep, tier):
    witness.check_file(rep, 'D3', 'witness/reduce.cpp', floor=6)
    if tier == 'thorough':
        witness.check_file(rep, 'D3', 'witness/reduce.cpp', std='-std=c++14', floor=6)


def mentions_member(fn, s, name):
    return any(fn.nodes[x].get('k') == 'member' and fn.nodes[x]['n'] == name for x in fn.subtree(s))


def d1_order(facts, rep):
    for cls, rhs in (('reduction_tree_node', 'zombie_space'), ('deterministic_reduction_tree_node', 'right_body')):
        for fn in facts.get(D1 + cls + '::join'):
            js = [c for c in calls_named(fn, ('join',)) if c[3]['u'] != fn.u]
            if not js:
                raise AnalysisBroken('%s::join: no Body::join call' % cls)
            for pos, s, node, d in js:
                ok = last_member(fn, node.get('obj', -1)) == 'left_body' and node.get('a') and mentions_member(fn, node['a'][0], rhs)
                rep.ob('D1', 'K10', fn, 'left_body.join(right) - the receiver is the body the split was taken from', ok,
                       'join is invoked as %s.join(%s): operands of a non-commutative reduction are swapped' %
                       (fn.path(node.get('obj', -1)), fn.path(node['a'][0]) if node.get('a') else '?'), ln=node['ln'])
        for fn in facts.get(D1 + cls + '::(ctor)'):
            inits = dict((e['i'], e) for b, i, e in fn.iter_elems() if isinstance(e, dict) and 'i' in e)
            ok = 'left_body' in inits and fn.n(value_root(fn, inits['left_body']['s'])).get('k') == 'var' and \
                'param' in fn.n(value_root(fn, inits['left_body']['s']))
            rep.ob('D1', 'K10', fn, 'left_body is bound to the body passed by the splitting task', ok, 'left_body initialiser changed')
    for cls in ('start_reduce', 'start_deterministic_reduce'):
        for fn in facts.get(D1 + cls + '::offer_work_impl'):
            for pos, s, node, d in calls_named(fn, ('new_object',)):
                if 'reduction_tree_node' not in d['q'].split('<', 2)[1 if '<' in d['q'] else 0] and 'reduction_tree_node' not in d['ret']:
                    continue
                ok = any(mentions_member(fn, a, 'my_body') and fn.n(root_of(fn, value_root(fn, a))).get('k') in ('this', 'member')
                         for a in node.get('a', []))
                rep.ob('D1', 'K10', fn, 'the join node is created with the splitting task\'s own body as the left operand', ok,
                       'tree node left body argument is not this->my_body', ln=node['ln'])
    for fn in facts.get(D1 + 'lambda_reduce_body::join'):
        inv = [c for c in calls(fn) if c[3]['n'] in ('invoke', 'operator()')]
        ok = False
        detail = 'no reduction call'
        for pos, s, node, d in inv:
            args = list(node.get('a', []))
            mine = [i for i, a in enumerate(args) if mentions_member(fn, a, 'my_value') and fn.n(root_of(fn, value_root(fn, a))).get('k') == 'this']
            theirs = [i for i, a in enumerate(args) if mentions_member(fn, a, 'my_value') and fn.n(root_of(fn, value_root(fn, a))).get('k') == 'var']
            if mine and theirs:
                ok = max(mine) < min(theirs)
                detail = 'argument positions: own value %s, rhs value %s' % (mine, theirs)
        asg = [x for x in assignments(fn) if last_member(fn, x[2]) == 'my_value']
        rep.ob('D1', 'K10', fn, 'lambda_reduce_body::join computes reduction(my_value, rhs.my_value) into my_value', ok and bool(asg), detail)
    for fn in facts.get(D1 + 'lambda_reduce_body::operator()'):
        inv = [c for c in calls(fn) if c[3]['n'] in ('invoke', 'operator()') and c[3]['u'] != fn.u]
        ok = any(any(mentions_member(fn, a, 'my_value') for a in c[2].get('a', [])) for c in inv) and \
            any(last_member(fn, x[2]) == 'my_value' for x in assignments(fn))
        rep.ob('D1', 'K10', fn, 'the range functor receives the running value and its result becomes the running value', ok,
               'my_value is not threaded through the range functor')
    rep.floor('D1', 6, 'join operand roles')


def d2_lazy(facts, rep):
    # the split site: the placement new into the node's zombie_space inside start_reduce::execute, or the call (in execute) of a
    # helper that constructs there
    ctor_fns = {}
    for g in facts.fns.values():
        if not g.q.startswith(D1):
            continue
        ns = [(p, s_, nd) for p, s_, nd in g.stmt_elems(('new',)) if nd.get('pl') and
              any(g.nodes[x].get('k') == 'member' and g.nodes[x].get('n') == 'zombie_space' for a in nd['pl'] for x in g.subtree(a))]
        if ns:
            ctor_fns[g.u] = (g, ns)
    if not ctor_fns:
        raise AnalysisBroken('no placement new into reduction_tree_node::zombie_space found (the lazy body split)')
    for fn in facts.get(D1 + 'start_reduce::execute'):
        sites = []          # (position in execute, constructing function, new node)
        if fn.u in ctor_fns:
            for p, s_, nd in ctor_fns[fn.u][1]:
                sites.append((p, fn, nd))
        for pos, s_, node, d in calls(fn):
            if node.get('fn') in ctor_fns:
                g, ns = ctor_fns[node['fn']]
                for p2, s2, nd2 in ns:
                    sites.append((pos, g, nd2))
        if not sites:
            raise AnalysisBroken('start_reduce::execute: the lazy split of the body (placement new / helper call) not found')
        e_right = edges_where(fn, lambda a, truth: truth and fn.n(fn.strip(a)).get('k') == 'member' and fn.n(fn.strip(a))['n'] == 'is_right_child')

        def ref2(a, truth):
            n = fn.n(fn.strip(a))
            if n.get('k') != 'binop' or n['op'] != '==' or not truth:
                return False
            sides = (n['l'], n['r'])
            has2 = any(fn.cv(x) == 2 for x in sides)
            ld = any(atomic_op(fn, fn.strip(x)) and last_member(fn, atomic_op(fn, fn.strip(x))['obj']) == 'm_ref_count' and
                     has_acquire(atomic_op(fn, fn.strip(x))['order'] or 0) for x in sides)
            return has2 and ld
        e_ref = edges_where(fn, ref2)
        for p, g, nd in sites:
            ok1, w1 = dominated_by_edges(fn, p, e_right)
            ok2, w2 = dominated_by_edges(fn, p, e_ref)
            rep.ob('D2', 'K4', fn, 'the body is split lazily only by a right child whose sibling still runs (acquire load == 2)', ok1 and ok2,
                   'a body can be split although the left sibling already finished, or by the left child: partial results are joined '
                   'in the wrong order / to the wrong body: ' + (w1 or w2), ln=nd['ln'])
            ca = g.n(nd.get('init', -1)).get('a', [])
            ok3 = len(ca) >= 1 and (mentions_member(g, ca[0], 'my_body') or mentions_member(g, ca[0], 'left_body'))
            rep.ob('D2', 'K10', fn, 'the new right body is split from the task\'s current (left) body', ok3, 'split source is not *my_body / the left body of the node')
    from rules.C03 import zombie_pairing
    zombie_pairing(facts, rep, 'D2')
    rep.floor('D2', 2, 'lazy split guard')


def d3_det(facts, rep):
    for fn in facts.get(D1 + 'deterministic_reduction_tree_node::(ctor)'):
        inits = [(b, i, e) for b, i, e in fn.iter_elems() if isinstance(e, dict) and e.get('i') == 'right_body']
        ok = bool(inits)
        if ok:
            b, i, e = inits[0]
            ok = every_path_passes(fn, 'entry', lambda p, el: p == (b, i))[0]
            ctor = fn.n(value_root(fn, e['s']))
            c2 = fn.n(fn.strip(e['s']))
            args = c2.get('a', []) if c2.get('k') in ('ctor', 'initlist') else []
            ok = ok and len(args) == 2
        rep.ob('D3', 'K4', fn, 'the deterministic tree node splits the body eagerly and unconditionally', ok,
               'right_body is no longer split-constructed on every path of the node constructor')
    # the split / join tree of parallel_deterministic_reduce may depend on the range and the grain size only.  Every partition type
    # that start_deterministic_reduce is instantiated with (the overloads accept simple_partitioner and static_partitioner; the
    # compile-fail witnesses above keep auto / affinity out) is searched, with its base classes, for a use of the arena's
    # concurrency or of the executing thread's slot: such a partition type shapes the tree by the number of threads.
    from rules.common import class_scope
    CONC = ('get_initial_auto_partitioner_divisor', 'max_concurrency', 'execution_slot', 'current_thread_index')
    pcls = {}
    for fn in facts.fns.values():
        if not fn.p.startswith(D1 + 'start_deterministic_reduce::'):
            continue
        for b, i, e in fn.iter_elems():
            if isinstance(e, int) and fn.nodes[e].get('k') == 'ctor' and (fn.nodes[e].get('cls') or '').endswith('_partition_type'):
                pcls.setdefault(fn.nodes[e]['cls'], fn)
    if len(pcls) < 1:
        raise AnalysisBroken('start_deterministic_reduce: partition types not found')
    for cls_p, user in sorted(pcls.items()):
        scope = class_scope(facts, cls_p)
        uses = []
        anchor = None
        for g in facts.fns.values():
            if g.cls in scope:
                for c in calls_named(g, CONC):
                    uses.append('%s (line %s)' % (c[3].get('n'), c[2].get('ln')))
                    anchor = anchor or g
        rep.ob('D3', 'K11', anchor or user, 'the %s used by parallel_deterministic_reduce shapes its tree without consulting the number of threads'
               % cls_p.split('::')[-1], not uses,
               'the partition type reads the arena concurrency / the thread slot: %s - the split tree, and with it a floating-point result, '
               'differs between arenas of different concurrency' % ', '.join(sorted(set(uses))[:4]), key_extra='tree|%s' % cls_p)
    rep.floor('D3', 9, 'witnesses + eager split + partition types')


def d4_scan(facts, rep):
    def tag_calls(fn, tag):
        out = []
        for pos, s, node, d in calls(fn):
            if node.get('op') != '()' and d['n'] != 'operator()':
                continue
            for a in node.get('a', []):
                an = fn.n(value_root(fn, a))
                if (an.get('cls') or an.get('ty') or '').endswith(tag) or (an.get('k') == 'ctor' and (an.get('cls') or '').endswith(tag)):
                    out.append((pos, s, node))
        return out
    for fn in facts.get(D1 + 'final_sum::execute'):
        fc = tag_calls(fn, 'final_scan_tag')
        ok = len(fc) == 1 and every_path_passes(fn, 'entry', lambda p, e: p == fc[0][0])[0] and not fn.can_reach(fc[0][0], fc[0][0])
        rep.ob('D4', 'K3', fn, 'final_sum applies the body with final_scan_tag exactly once', ok, '%d final-scan call(s)' % len(fc))
    for fn in facts.get(D1 + 'start_scan::execute'):
        fc = tag_calls(fn, 'final_scan_tag')
        pc = tag_calls(fn, 'pre_scan_tag')
        ok = len(fc) == 1 and len(pc) == 1 and not fn.can_reach(fc[0][0], pc[0][0]) and not fn.can_reach(pc[0][0], fc[0][0])
        rep.ob('D4', 'K3', fn, 'a leaf gets the final pass or the pre-scan pass, never both', ok,
               'final: %d call(s), pre-scan: %d call(s), or one can follow the other' % (len(fc), len(pc)))
        fin_edges = edges_where(fn, lambda a, truth: truth and fn.n(fn.strip(a)).get('k') == 'member' and fn.n(fn.strip(a))['n'] == 'm_is_final')
        ok2 = bool(fc) and dominated_by_edges(fn, fc[0][0], fin_edges)[0]
        rep.ob('D4', 'K4', fn, 'the final pass is applied in pass 1 only when the prefix is already final (m_is_final)', ok2,
               'final_scan_tag applied without m_is_final')
        # A right child continues on the body it inherited only if that body is the one holding its left sibling's partial
        # sum; a right child that was stolen, OR that its own thread picked up while the left sibling is still incomplete
        # ("virtual steal"), must get a body of its own.  The decision that guards the creation of that private body
        # (new final_sum) therefore depends on the steal status AND on the identity parent->left_sum == own body.
        defs = Defs(fn)
        zs = [c for c in calls_named(fn, ('new_object',)) if 'new_object<tbb::detail::d1::final_sum<' in (c[3].get('q') or '')]
        if not zs:
            raise AnalysisBroken('start_scan::execute: creation of the private body (final_sum) not found')
        for pos, sx, node, d in zs:
            deps_ok = False
            for b, blk in fn.blocks.items():
                for si in (0, 1):
                    conds = fn.edge_conds(b, si)
                    if not conds or not dominated_by_edges(fn, pos, {(b, si)})[0]:
                        continue
                    for a, truth in conds:
                        src = resolve_cond_source(fn, defs, a)
                        sub = fn.subtree(src)
                        has_steal = any(fn.nodes[x].get('k') == 'call' and (fn.callee(x) or {}).get('n') == 'is_stolen' for x in sub)
                        has_left = any(fn.nodes[x].get('k') == 'member' and fn.nodes[x].get('n') == 'm_left_sum' for x in sub)
                        if has_steal and has_left:
                            deps_ok = True
            rep.ob('D4', 'K4', fn, 'a right child gets a body of its own when it was stolen or when its left sibling has not delivered its sum yet', deps_ok,
                   'the decision depends on the steal status only: a right child that the same thread starts while the left sibling is '
                   'suspended in a nested wait runs the final pass on the shared body with an incomplete prefix', ln=node['ln'])
        # a leaf publishes its summary (the address of its body) in the parent's slot; the right sibling compares that slot with
        # its own body to decide whether the left half is complete.  The slot may therefore be written only AFTER the body ran
        # over the leaf's range: no body invocation is reachable from the publication.
        from engine.rules import assignments
        pubs = []
        for pos, sx, l, r in assignments(fn):
            ln_ = fn.n(fn.strip(l))
            if ln_.get('k') == 'unop' and ln_.get('op') == '*' and last_member(fn, ln_['sub']) == 'm_sum_slot':
                pubs.append((pos, sx))
        if not pubs:
            raise AnalysisBroken('start_scan::execute: publication *m_sum_slot = ... not found')
        runs = fc + pc
        late = [fn.n(sx).get('ln') for pos, sx in pubs if any(fn.can_reach(pos, c[0]) for c in runs)]
        early = [fn.n(sx).get('ln') for pos, sx in pubs if not any(fn.can_reach(c[0], pos) for c in runs)]
        rep.ob('D4', 'K4', fn, 'a leaf publishes its summary slot only after its body ran over the leaf', not late and not early,
               'the slot is written (line %s) before / without the body invocation: a right sibling started by the same thread while the leaf '
               'is suspended inside its body (nested wait) sees m_left_sum == its body, concludes the left half is complete and runs the '
               'final pass on the shared body with an incomplete prefix' % (late or early), key_extra='publish-after-run')
    rep.floor('D4', 5, 'scan passes')


def d5_sort(facts, rep):
    n = 0
    fns = [f for f in facts.fns.values() if f.file.endswith('parallel_sort.h') and
           ('quick_sort' in f.p) and f.kind in ('method', 'ctor', 'function')]
    if len(fns) < 5:
        raise AnalysisBroken('parallel_sort internals not found (%d functions)' % len(fns))
    pm_cache = {}
    for fn in fns:
        pm = fn.parent_map()
        per_line = {}
        for pos, s, node in fn.stmt_elems(('call', 'unop', 'index')):
            deref = False
            if node.get('k') == 'call' and node.get('op') in ('*', '[]') and node.get('obj', -1) >= 0:
                deref = True
            elif node.get('k') == 'unop' and node['op'] == '*':
                deref = True
            elif node.get('k') == 'index':
                deref = True
            if not deref:
                continue
            # `*static_cast<T*>(this)`-like derefs of non-iterators: only look at iterator-ish operands
            base = node.get('obj', node.get('sub', node.get('base', -1)))
            bt = fn.n(root_of(fn, base))
            if bt.get('k') == 'this':
                continue
            # consumer
            cur = s
            par = pm.get(cur)
            while par is not None and fn.nodes[par].get('k') in ('rd', 'cast'):
                cur = par
                par = pm.get(cur)
            pn = fn.nodes[par] if par is not None else {}
            ok = pn.get('k') == 'call' and cur in pn.get('a', []) and \
                (last_member(fn, pn.get('obj', -1)) == 'comp' or fn.n(fn.strip(pn.get('obj', -1))).get('n') == 'comp')
            n += 1
            per_line[node.get('ln')] = per_line.get(node.get('ln'), 0) + 1
            rep.ob('D5', 'K11', fn, 'element access #%d at line %s is only an operand of the comparator' % (per_line[node.get('ln')], node.get('ln')), ok,
                   'an element of the sequence is read/written directly (%s): the output need not be a permutation of the input' %
                   fn.path(par if par is not None else s), ln=node.get('ln'), key_extra=str(node.get('ln')) + '.' + str(per_line[node.get('ln')]))
    rep.floor('D5', 12, 'element accesses in the quick sort code')
