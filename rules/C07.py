"""C07 - parallel_pipeline: ordered serial stages, bounded tokens, each item exactly once.  (DESIGN.md section 4, C07)"""
from engine.facts import AnalysisBroken, atomic_op, atomic_ops, has_acquire, has_release
from engine.rules import (Summaries, calls, calls_named, every_path_passes, last_member, is_call_to, Defs, resolve_cond_source,
                          edges_where, dominated_by_edges, member_accesses, root_of, assignments, value_root, atomics_on, lockset)
from rules.common import k7_task_class

UNITS = ['src/tbb/parallel_pipeline.cpp', 'drivers/algorithms.cpp']
R1 = 'tbb::detail::r1::'

EXPLANATION = (
    'Decides: D1 the token buffer of a serial filter (array, array_size, low_token, high_token) is touched only under '
    'array_mutex (grow() requires the lock at its call sites; recorded exceptions: constructor/destructor and '
    'get_ordered_token, which only the serial input stage calls, one invocation at a time); D2 serial-stage hand-off: after a '
    'serial non-input filter ran, try_to_spawn_task_for_next_token is reached on every path; a task enters a serial filter only '
    'through try_put_token and parks (returns false with my_filter cleared) when the token was buffered; the buffered slot is '
    'invalidated under the lock and the wake-up is spawned outside it only for a valid slot; D3 token accounting: a new '
    'input-stage task is created only in parallel_pipeline() and on the fetch_sub(1) > 1 edge, the task is recycled as an input '
    'task only when fetch_add(1) returned 0 and the input has not ended, input_tokens has no other writers; D4 every stage task '
    'reserves the pipeline\'s wait context in both constructors, releases it in the destructor after finalising a pending item, '
    'and execute() returns this or finalises.  The global in-order property across all stage delays and the ring rehash '
    'arithmetic of grow() are NOT decided.')
EXPLANATION += ' Added after the seeded-change rounds: ' + "D5: a parked item is stored into the token ring only when token - low_token < array_size is known (branch edge, or grow(m) with m >= distance + 1; grow's post-condition array_size >= m is checked); D6: an item's token is assigned only while it has none (my_token_ready false / brand new item)."
EXPLANATION += ' Added in the third session (round-3 seeds and the findings they led to): ' + "D1 also: the unlocked teardown walk of the parked ring is called from the pipeline destructor only; D3 rewritten independent of helper extraction (the token guard is recognised through helper return values and variables, obligations are lifted to call sites) and extended: the ordered token is assigned before the item's pipeline token is taken / the next input task is started."
EXPLANATION += ' Added later in the fourth round: ' + "D6 also: the thread-local end-of-input mark of a parallel input filter with nullable items is lowered wherever it was observed as raised (inside the observing function on every path that saw it raised, or after the observer's call)."
ASSUMPTIONS = ['spin_mutex::scoped_lock RAII model', 'the serial input stage is invoked by one task at a time (token protocol D3)']
ND = ['global in-order property of serial_in_order stages across all delays', 'ring rehash arithmetic in grow()',
      '"returns only after the last item left" beyond D4']

BUF_FIELDS = ('array', 'array_size', 'low_token', 'high_token')
LOCKCLS = lambda c: c.endswith('scoped_lock')   # noqa: E731
EXEMPT = {
    R1 + 'input_buffer::(ctor)': 'construction, not shared yet',
    R1 + 'input_buffer::(dtor)': 'destruction, no concurrent users',
    R1 + 'input_buffer::get_ordered_token': 'called only by the serial input stage; the token protocol admits one input-stage '
                                            'invocation of a serial first filter at a time',
    R1 + 'input_buffer::grow': 'requires the lock at its call sites (checked there)',
    R1 + 'input_buffer::finalize_parked_items': 'teardown: called only from pipeline::~pipeline(), when no task of the pipeline can '
                                                'run any more (who-may-call checked in D1)',
}


def run(facts, rep):
    d1_lock(facts, rep)
    d2_handoff(facts, rep)
    d3_tokens(facts, rep)
    d4_wait(facts, rep)
    d5_ring(facts, rep)
    d6_token_once(facts, rep)
    d6_end_of_input_mark(facts, rep)


def d1_lock(facts, rep):
    n = 0
    # the teardown exemption holds only while the function is reachable from the pipeline destructor alone
    for g in facts.by_p.get(R1 + 'input_buffer::finalize_parked_items', []):
        callers = sorted(set(c[0].p for c in facts.callers(g.u)))
        rep.ob('D1', 'K11', g, 'finalize_parked_items (walks the ring without the lock) is called only from the pipeline destructor',
               callers == [R1 + 'pipeline::(dtor)'], 'called from %s: the unlocked walk races with try_put_token / the next-token hand-off' % callers)
    for fn in facts.find(r'^tbb::detail::r1::input_buffer::'):
        acc = [x for x in member_accesses(fn, BUF_FIELDS) if x[2].get('cls', '').endswith('input_buffer')]
        if not acc:
            continue
        if fn.p in EXEMPT:
            rep.note('D1 exempt %s: %s' % (fn.p, EXEMPT[fn.p]))
            continue
        before, info = lockset(fn, LOCKCLS)
        locks = set(v for v, i in info.items() if i['mutex'] == 'array_mutex')
        for pos, s, node, kind in acc:
            n += 1
            rep.ob('D1', 'K5', fn, '%s is accessed under array_mutex (line %s)' % (node['n'], node['ln']), bool(before.get(pos, frozenset()) & locks),
                   'input_buffer::%s is %s outside array_mutex: concurrent try_put_token / next-token hand-off race on the ring' %
                   (node['n'], kind), ln=node['ln'], key_extra='%s.%s' % (node['ln'], node['n']))
    # grow() call sites
    for fn in facts.fns.values():
        for pos, s, node, d in calls_named(fn, ('grow',)):
            if d.get('cls') != R1 + 'input_buffer':
                continue
            if fn.p == R1 + 'input_buffer::(ctor)':
                continue
            before, info = lockset(fn, LOCKCLS)
            locks = set(v for v, i in info.items() if i['mutex'] == 'array_mutex')
            rep.ob('D1', 'K5', fn, 'grow() is called with array_mutex held', bool(before.get(pos, frozenset()) & locks),
                   'the ring is reallocated without the lock', ln=node['ln'])
    rep.floor('D1', 8, 'buffer field accesses')


def d2_handoff(facts, rep):
    for fn in facts.get(R1 + 'stage_task::execute_filter'):
        defs = Defs(fn)
        nx = calls_named(fn, ('try_to_spawn_task_for_next_token',))
        if not nx:
            raise AnalysisBroken('execute_filter: try_to_spawn_task_for_next_token not found')
        ser = [(p, s) for p, s, nd, d in calls_named(fn, ('is_serial',))]
        for pos, s, node, d in nx:
            # the is_serial() whose true edge dominates the call
            doms = []
            for sp, ss in ser:
                e = edges_where(fn, lambda a, truth, ss=ss: truth and fn.strip(a) == ss)
                if e and dominated_by_edges(fn, pos, e)[0]:
                    doms.append((ss, e))
            ok = bool(doms)
            for ss, e in doms[-1:]:
                for (b, si) in e:
                    ok = ok and every_path_passes(fn, (fn.blocks[b]['succ'][si], -1), lambda p, el: p == pos)[0]
            rep.ob('D2', 'K4', fn, 'after a serial filter processed an item the next token is released on every path', ok,
                   'a serial stage can finish an item without handing the stage to the next buffered token: the pipeline stalls',
                   ln=node['ln'])
        tp = calls_named(fn, ('try_put_token',))
        if not tp:
            raise AnalysisBroken('execute_filter: try_put_token not found')
        tpn = set(s for _, s, _, _ in tp)
        buffered = edges_where(fn, lambda a, truth: truth and fn.strip(a) in tpn)
        clr = [p for p, s, l, r in assignments(fn) if last_member(fn, l) == 'my_filter' and fn.n(value_root(fn, r)).get('null')]
        for (b, si) in buffered:
            tgt = fn.blocks[b]['succ'][si]
            reached, ex, par = fn.walk((tgt, -1))
            rets = [fn.elems(q[0])[q[1]] for q in reached if isinstance(fn.elems(q[0])[q[1]], int) and fn.nodes[fn.elems(q[0])[q[1]]].get('k') == 'return']
            ok = bool(rets) and all(fn.cv(fn.nodes[r].get('sub', -1)) == 0 for r in rets) and \
                every_path_passes(fn, (tgt, -1), lambda p, e: p in set(clr))[0]
            rep.ob('D2', 'K4', fn, 'a task whose token was buffered parks: returns false and gives up its item', ok,
                   'the task continues into the serial filter although its token is not the lowest one (two invocations of a serial '
                   'filter / out-of-order processing) or keeps the item it stored in the buffer (double processing)', key_extra='park')
        # entering a serial filter always goes through try_put_token: the is_serial() after `my_filter = next`
        adv = [p for p, s, l, r in assignments(fn) if last_member(fn, l) == 'my_filter' and
               any(fn.nodes[x].get('k') == 'member' and fn.nodes[x]['n'] == 'next_filter_in_pipeline' for x in fn.subtree(r))]
        ok = False
        for sp, ss in ser:
            if adv and every_path_passes(fn, 'entry', lambda p, e: p in set(adv), end=sp)[0]:
                e = edges_where(fn, lambda a, truth, ss=ss: truth and fn.strip(a) == ss)
                ok = bool(e) and all(every_path_passes(fn, (fn.blocks[b]['succ'][si], -1), lambda p, el: p in set(x[0] for x in tp))[0] for b, si in e)
        rep.ob('D2', 'K4', fn, 'a task enters a serial filter only through try_put_token', ok,
               'the next serial filter can be entered without taking a token')
    for fn in facts.get(R1 + 'input_buffer::try_to_spawn_task_for_next_token'):
        before, info = lockset(fn, LOCKCLS)
        locks = set(v for v, i in info.items() if i['mutex'] == 'array_mutex')
        inv = [(p, s) for p, s, l, r in assignments(fn) if last_member(fn, l) == 'is_valid' and fn.cv(r) == 0]
        sp = calls_named(fn, ('spawn_stage_task',))
        ok = bool(inv) and all(before.get(p, frozenset()) & locks for p, _ in inv)
        rep.ob('D2', 'K5', fn, 'the woken slot is invalidated under the lock', ok, 'slot invalidated outside array_mutex or not at all')
        val = edges_where(fn, lambda a, truth: truth and fn.n(fn.strip(a)).get('k') == 'member' and fn.n(fn.strip(a))['n'] == 'is_valid')
        ok2 = bool(sp) and all(dominated_by_edges(fn, c[0], val)[0] and not (before.get(c[0], frozenset()) & locks) for c in sp)
        rep.ob('D2', 'K4', fn, 'a successor task is spawned only for a valid buffered item, outside the lock', ok2,
               'spawn of an invalid slot / under the lock')
    rep.floor('D2', 5, 'serial hand-off')


def d3_tokens(facts, rep):
    # (1) a new input-stage task is created only by a thread that has just taken a token and saw that at least one is left
    # (fetch_sub(1) > 1).  Robust against helper functions: the guard may be the comparison itself, a call to a function whose
    # every return is that comparison, or a variable holding either; an unguarded creation site inside a helper lifts the
    # obligation to every call site of the helper (depth 3).
    st_fns = [f for f in facts.fns.values() if (f.cls or '') == R1 + 'stage_task']
    if not st_fns:
        raise AnalysisBroken('stage_task methods not found')

    def token_left_expr(f, x, depth=0):
        """x is (or resolves to) `input_tokens.fetch_sub(..) > 1` (>= 2), directly or through a helper that returns it"""
        if depth > 3:
            return False
        defs = Defs(f)
        x = resolve_cond_source(f, defs, x)
        n = f.n(f.strip(x))
        if n.get('k') == 'binop' and n['op'] in ('>', '>='):
            has_sub = any((atomic_op(f, y) or {}).get('name') == 'fetch_sub' and last_member(f, atomic_op(f, y)['obj']) == 'input_tokens'
                          for y in f.subtree(n['l']) if f.nodes[y].get('k') == 'call')
            v = f.cv(n['r'])
            return has_sub and v is not None and ((n['op'] == '>' and v >= 1) or (n['op'] == '>=' and v >= 2))
        if n.get('k') == 'call':
            g = facts.fns.get(n.get('fn'))
            if g is not None and g.u != f.u:
                rets = [nd for pos, sx, nd in g.stmt_elems(('return',)) if 'sub' in nd]
                return bool(rets) and all(token_left_expr(g, nd['sub'], depth + 1) for nd in rets)
        return False

    def guarded(f, pos):
        e = edges_where(f, lambda a, truth: truth and token_left_expr(f, a))
        return dominated_by_edges(f, pos, e)

    def obligation(f, pos, depth, trail):
        ok, wit = guarded(f, pos)
        if ok:
            return True, ''
        if depth >= 3:
            return False, wit
        cs = facts.callers(f.u)
        cs = [c for c in cs if (c[0].cls or '') == R1 + 'stage_task']
        if not cs or f.p.endswith('stage_task::(ctor)'):
            return False, wit
        for (g, cpos, csx) in cs:
            ok2, w2 = obligation(g, cpos, depth + 1, trail + [g.p])
            if not ok2:
                return False, 'unguarded call chain %s: %s' % (' <- '.join([f.p.split('::')[-1]] + [t.split('::')[-1] for t in trail + [g.p]]), w2)
        return True, ''
    nsites = 0
    for fn in st_fns:
        for c in calls_named(fn, ('new_object',)):
            if 'stage_task' not in (c[3].get('q') or ''):
                continue
            # the first-stage constructor takes (pipeline, allocator); the clone of a parked item takes (pipeline, filter, info, allocator)
            nargs = len(c[2].get('a', []))
            if nargs > 3:
                continue
            nsites += 1
            ok, wit = obligation(fn, c[0], 0, [])
            rep.ob('D3', 'K4', fn, 'a new input-stage task is created only when a token was left (fetch_sub(1) > 1)', ok,
                   'more than max_number_of_live_tokens items can be in flight: ' + wit, ln=c[2]['ln'], key_extra='create|%s' % fn.p)
    if nsites < 1:
        raise AnalysisBroken('creation of a first-stage stage_task (new_object<stage_task>(ed, pipeline, alloc)) not found in stage_task')
    # (2) an ordered first filter stamps the item with its token BEFORE anything lets another input-stage invocation start: no
    # call that takes a pipeline token (fetch_sub on input_tokens, directly or in a helper) or creates an input-stage task can
    # precede get_ordered_token() on a path through execute_filter.  Otherwise the task that returns the last token recycles
    # itself as the next input task, reads item i+1 and stamps it before item i got its stamp: every later serial_in_order
    # filter sees them in the wrong order.
    summ = Summaries(facts, max_depth=3)

    def enabler(f, pos, e):
        if not isinstance(e, int) or f.nodes[e].get('k') != 'call':
            return False
        op = atomic_op(f, e)
        if op and op['kind'] == 'rmw' and op['name'] == 'fetch_sub' and last_member(f, op['obj']) == 'input_tokens':
            return True
        d = f.callee(e) or {}
        return d.get('n') == 'new_object' and 'stage_task' in (d.get('q') or '')
    for fn in facts.get(R1 + 'stage_task::execute_filter'):
        gs = calls_named(fn, ('get_ordered_token',))
        if not gs:
            raise AnalysisBroken('execute_filter: get_ordered_token call not found')
        ens = [(b, i) for b, i, e in fn.iter_elems() if summ.elem_may(fn, (b, i), e, 'enabler', enabler)]
        for gp, gsx, gnode, gd in gs:
            before = [q for q in ens if q != gp and fn.can_reach(q, gp)]
            rep.ob('D3', 'K4', fn, 'the ordered token is assigned before the item\'s pipeline token is taken / the next input task is started', not before,
                   'a call at line(s) %s that takes a pipeline token or starts an input task precedes get_ordered_token(): another input-stage '
                   'invocation can stamp a later item first' % sorted(set(fn.nodes[fn.elems(q[0])[q[1]]].get('ln') for q in before)),
                   ln=gnode['ln'], key_extra='stamp-first')
    for fn in facts.get(R1 + 'stage_task::execute_filter'):
        defs = Defs(fn)
        fa = [(p, o) for p, o in atomics_on(fn, 'input_tokens') if o['kind'] == 'rmw' and o['name'] == 'fetch_add']
        rs = [c for c in calls_named(fn, ('reset',)) if c[3].get('cls', '').endswith('stage_task')]
        if not fa:
            raise AnalysisBroken('execute_filter: input_tokens.fetch_add not found')
        fan = set(o['s'] for _, o in fa)

        def zero_tokens(a, truth):
            n = fn.n(fn.strip(a))
            if n.get('k') == 'binop' and n['op'] in ('>', '!=') and fn.cv(n['r']) == 0:
                src = resolve_cond_source(fn, defs, n['l'])
                return (not truth) and bool(fn.subtree(src) & fan)
            return False

        def not_eoi(a, truth):
            op = atomic_op(fn, fn.strip(a))
            return (not truth) and op is not None and op['kind'] == 'load' and last_member(fn, op['obj']) == 'end_of_input'
        e0 = edges_where(fn, zero_tokens)
        e1 = edges_where(fn, not_eoi)
        # the recycling reset is the one reachable after the fetch_add
        rec = [c for c in rs if any(fn.can_reach(p, c[0]) for p, _ in fa)]
        ok = bool(rec) and bool(e0) and bool(e1)
        for c in rec:
            ok = ok and dominated_by_edges(fn, c[0], e0)[0] and dominated_by_edges(fn, c[0], e1)[0]
        rep.ob('D3', 'K4', fn, 'the task is recycled as an input task only if it returned the last token and input has not ended', ok,
               'recycle not guarded by fetch_add(1)==0 && !end_of_input: token count and live items diverge')
    writers = []
    for fn in facts.fns.values():
        if '/src/tbb/' not in fn.file:
            continue
        for p, o in atomics_on(fn, 'input_tokens', kinds=('store', 'rmw', 'cas')):
            writers.append((fn, o))
    # by kind of operation and owner class, not by function name (helpers may be extracted): only stage_task takes / returns
    # tokens, and only by an atomic add / subtract
    for fn, o in writers:
        ok = (fn.cls or '') == R1 + 'stage_task' and o['kind'] == 'rmw' and o['name'] in ('fetch_sub', 'fetch_add', 'operator++', 'operator--')
        rep.ob('D3', 'K1', fn, 'input_tokens is modified only by the token RMWs of stage_task', ok,
               '%s does %s on input_tokens' % (fn.p, o['name']), ln=o['ln'], key_extra=str(o['ln']))
    # who creates input-stage tasks
    for fn in facts.fns.values():
        if '/src/tbb/' not in fn.file:
            continue
        for c in calls_named(fn, ('new_object',)):
            if 'stage_task' not in c[3]['q'].split('new_object', 1)[-1]:
                continue
            nargs = len(c[2].get('a', []))
            q = c[3]['q']
            input_stage = 'task_info' not in q and 'base_filter' not in q
            if input_stage:
                ok = fn.p == R1 + 'parallel_pipeline' or (fn.cls or '') == R1 + 'stage_task'
                rep.ob('D3', 'K11', fn, 'input-stage tasks are created only by parallel_pipeline() and by stage_task itself (under the token guard)', ok,
                       '%s creates an input-stage task outside the token protocol' % fn.p, ln=c[2]['ln'], key_extra=str(c[2]['ln']))
    rep.floor('D3', 5, 'token accounting')


def d4_wait(facts, rep):
    ctors = facts.get(R1 + 'stage_task::(ctor)')
    for fn in ctors:
        rs = calls_named(fn, ('reserve',))
        ok = bool(rs) and every_path_passes(fn, 'entry', lambda p, e: p in set(x[0] for x in rs))[0]
        rep.ob('D4', 'K3', fn, 'stage_task constructor reserves the pipeline wait context', ok, 'no reserve()', key_extra=str(fn.l0))
    if len(ctors) < 2:
        raise AnalysisBroken('expected two stage_task constructors, found %d' % len(ctors))
    for fn in facts.get(R1 + 'stage_task::(dtor)'):
        rl = calls_named(fn, ('release',))
        fz = [c for c in calls_named(fn, ('finalize',))]
        ok = bool(rl) and every_path_passes(fn, 'entry', lambda p, e: p in set(x[0] for x in rl))[0]
        rep.ob('D4', 'K3', fn, 'stage_task destructor releases the wait context on every path', ok, 'release() missing')
        ok2 = bool(fz) and all(not fn.can_reach(r[0], f[0]) for r in rl for f in fz)
        rep.ob('D4', 'K4', fn, 'a pending item is finalised before the wait reference is dropped', ok2, 'filter finalize after release / missing')
    k7_task_class(facts, rep, 'D4', R1 + 'stage_task', {})
    rep.floor('D4', 5, 'wait accounting')



# ---------------------------------------------------------------------------------------------------------------
def d5_ring(facts, rep):
    """The parked-token ring: an item with token t is stored at array[t & (array_size-1)] while low_token..low_token+
    array_size-1 are the tokens the ring can hold.  Necessary: on every path to the store, t - low_token < array_size is
    known -- from the branch that tested it, or because grow(m) was called with m >= t - low_token + 1 (grow guarantees
    array_size >= m, checked on grow itself).  A ring that is one slot short parks the item in the slot of another live
    token: an item is lost and the pipeline stops early."""
    from engine.rules import expr_key, sym_bound, dataflow_must
    IB = R1 + 'input_buffer::'
    n = 0
    for fn in facts.get(IB + 'try_put_token'):
        writes = []
        for pos, s, l, r in assignments(fn):
            ln = fn.n(fn.strip(l))
            if ln.get('k') != 'index':
                continue
            ix = fn.n(fn.strip(ln['idx']))
            if ix.get('k') != 'binop' or ix['op'] != '&':
                continue
            sides = [ix['l'], ix['r']]
            mask = [x for x in sides if any(fn.nodes[y].get('k') == 'member' and fn.nodes[y].get('n') == 'array_size' for y in fn.subtree(x))]
            tok = [x for x in sides if x not in mask]
            if len(mask) == 1 and len(tok) == 1:
                writes.append((pos, s, expr_key(fn, tok[0])))
        if not writes:
            raise AnalysisBroken('try_put_token: no store into array[token & (array_size-1)] found')
        for pos, s, tk in writes:
            def is_dist(x):
                k = expr_key(fn, x)
                return k[0] == 'b' and k[1] == '-' and k[2] == tk and k[3][0] == 'm' and k[3][1] == 'low_token'

            def is_cap(x):
                k = expr_key(fn, x)
                return k[0] == 'm' and k[1] == 'array_size'

            def guard(a, truth):
                nd = fn.n(fn.strip(a))
                if nd.get('k') != 'binop' or nd['op'] not in ('<', '>='):
                    return False
                return is_dist(nd['l']) and is_cap(nd['r']) and ((nd['op'] == '<') == truth)
            ge = edges_where(fn, guard)

            def tr_elem(st, p, e):
                if isinstance(e, int) and fn.nodes[e].get('k') == 'call' and (fn.callee(e) or {}).get('n') == 'grow':
                    a = fn.nodes[e].get('a', [])
                    if a:
                        an = fn.n(fn.strip(a[0]))
                        # grow(dist + c), c >= 1
                        if an.get('k') == 'binop' and an['op'] == '+' and is_dist(an['l']) and (fn.cv(an['r']) or 0) >= 1:
                            return st | {'B'}
                    return st - {'B'}
                return st

            def tr_edge(st, b, si):
                return st | {'B'} if (b, si) in ge else st
            before, _ = dataflow_must(fn, tr_elem, tr_edge)
            n += 1
            rep.ob('D5', 'K4', fn, 'a parked item is stored only when its token is known to lie inside the ring (line %s)' % fn.nodes[s].get('ln'),
                   'B' in before.get(pos, frozenset()),
                   'on some path neither `token - low_token < array_size` was established nor the ring grown to at least '
                   'token - low_token + 1 slots: the item overwrites / is later mistaken for another token\'s slot', ln=fn.nodes[s].get('ln'))
    for fn in facts.get(IB + 'grow'):
        # post-condition used above: array_size >= minimum_size
        psize = [p['v'] for p in fn.d.get('params', [])]
        st = [(pos, s, r) for pos, s, l, r in assignments(fn) if last_member(fn, l) == 'array_size']
        ok = bool(st)
        for pos, s, r in st:
            rv = fn.n(fn.strip(r))
            if rv.get('k') != 'var':
                ok = False
                continue

            def big_enough(a, truth, rv=rv):
                nd = fn.n(fn.strip(a))
                if nd.get('k') != 'binop' or nd['op'] not in ('<', '>='):
                    return False
                l, r2 = fn.n(fn.strip(nd['l'])), fn.n(fn.strip(nd['r']))
                return l.get('k') == 'var' and l.get('v') == rv['v'] and r2.get('k') == 'var' and r2.get('v') in psize and \
                    ((nd['op'] == '>=') == truth)
            ok = ok and dominated_by_edges(fn, pos, edges_where(fn, big_enough))[0]
        n += 1
        rep.ob('D5', 'K4', fn, 'grow(m) leaves array_size >= m', ok, 'the new size is not forced up to the requested minimum before it becomes array_size')
    rep.floor('D5', 2, 'ring store + grow post-condition')



# ---------------------------------------------------------------------------------------------------------------
def d6_token_once(facts, rep):
    """All serial_in_order filters use one common order: the token an item received at the first ordered filter.  So the
    token of an item is assigned once: every store to task_info::my_token is dominated by an edge on which the item is known
    to have no token yet (`my_token_ready` false) or to be brand new (`my_at_start` true), or it is the reset to the
    no-token state together with my_token_ready = false."""
    n = 0
    for fn in facts.fns.values():
        if 'parallel_pipeline.cpp' not in fn.file:
            continue
        if fn.kind == 'ctor' or fn.p.endswith('::operator='):
            continue        # memberwise copies move an item together with its token
        stores = [(pos, sx, l, r) for pos, sx, l, r in assignments(fn) if last_member(fn, l) == 'my_token']
        if not stores:
            continue

        def fresh(a, truth):
            nd = fn.n(fn.strip(a))
            if nd.get('k') == 'member' and nd.get('n') == 'my_token_ready':
                return not truth
            if nd.get('k') == 'member' and nd.get('n') == 'my_at_start':
                return truth
            return False
        fe = edges_where(fn, fresh)
        for pos, sx, l, r in stores:
            n += 1
            if fn.cv(r) == 0:
                # reset: must also clear the ready flag in the same function
                clr = [1 for p2, s2, l2, r2 in assignments(fn) if last_member(fn, l2) == 'my_token_ready' and fn.cv(r2) == 0]
                rep.ob('D6', 'K4', fn, 'clearing my_token goes together with my_token_ready = false', bool(clr),
                       'token cleared but still marked ready', ln=fn.nodes[sx].get('ln'), key_extra='clr%s' % fn.nodes[sx].get('ln'))
                continue
            ok, wit = dominated_by_edges(fn, pos, fe)
            rep.ob('D6', 'K4', fn, 'an item\'s token is assigned only while it has none (line %s)' % fn.nodes[sx].get('ln'), ok,
                   'a token that the item already carries (its position at the first serial_in_order filter) can be overwritten: later '
                   'serial_in_order filters then process the items in a different order than the first one: ' + wit,
                   ln=fn.nodes[sx].get('ln'), key_extra=str(fn.nodes[sx].get('ln')))
    rep.floor('D6', 3, 'stores to task_info::my_token')


def d6_end_of_input_mark(facts, rep):
    """A parallel input filter whose items may be null (int 0, a null pointer) tells "end of input" from a legitimate null item by
    a THREAD-LOCAL mark that flow_control::stop() raises (input_buffer::end_of_input_tls).  The body of the filter may wait for
    nested work, and the same thread can then run the NEXT invocation of the input filter inside that wait; if that one stops
    the pipeline, the mark is on the thread when the outer invocation returns its legitimate null item - which is then taken for
    the end-of-input signal and dropped ("every item produced by the first filter passes through every later filter").  A
    per-thread mark is only sound if the observation that acts on it also takes it off the thread.  Rule: the mark is lowered
    (set(nullptr)) on every path on which it was observed as raised - inside the observing function or after its call."""
    IB = R1 + 'input_buffer'
    raisers, lowerers, observers = [], [], []
    for fn in facts.fns.values():
        if (fn.cls or '') != IB and not fn.q.startswith(R1 + 'stage_task') and fn.q != R1 + 'set_end_of_input':
            continue
        for pos, s, node, d in calls(fn):
            if last_member(fn, node.get('obj', -1)) != 'end_of_input_tls':
                continue
            nm = (d or {}).get('n')
            if nm == 'set':
                a = node.get('a', [])
                if a and (fn.cv(a[0]) == 0 or fn.n(fn.strip(a[0])).get('null')):
                    lowerers.append((fn, pos))
                else:
                    raisers.append((fn, pos))
            elif nm == 'get':
                observers.append((fn, pos, s))
    if not raisers or not observers:
        raise AnalysisBroken('input_buffer::end_of_input_tls: raise / observation of the thread-local end-of-input mark not found')
    lower_fns = set(f.u for f, _ in lowerers)

    def lowers(g, pos, e):
        if not isinstance(e, int) or g.nodes[e].get('k') != 'call':
            return False
        if any(f is g and p_ == pos for f, p_ in lowerers):
            return True
        return g.nodes[e].get('fn') in lower_fns
    for ofn, opos, os_ in observers:
        # the observing function lowers the mark itself on every path on which it saw it raised ...
        defs = Defs(ofn)
        seen_raised = edges_where(ofn, lambda a, truth: _observes(ofn, defs, a, os_) is not None and truth == _observes(ofn, defs, a, os_))
        inside = bool(seen_raised) and all(every_path_passes(ofn, (ofn.blocks[b]['succ'][si], -1), lambda p_, e: lowers(ofn, p_, e))[0]
                                           for b, si in seen_raised)
        ok = inside
        where = []
        if not inside:
            # ... or every caller does so on the edges where the observer reported "raised"
            cs = facts.callers(ofn.u)
            ok = bool(cs)
            for g, cpos, cs_ in cs:
                e_true = edges_where(g, lambda a, truth, g=g, cs_=cs_: truth and cs_ in g.subtree(a))
                if not e_true:
                    ok = False
                    where.append('%s: the result is not tested' % g.p.split('::')[-1])
                    continue
                for b, si in e_true:
                    # (may, not must: the observation sits in a compound condition whose other atoms - "may the item be null at
                    # all" - are typically tested again around the lowering; such correlated tests are not tracked here)
                    reached, _, _ = g.walk((g.blocks[b]['succ'][si], -1))
                    if not any(lowers(g, q, g.blocks[q[0]]['e'][q[1]]) for q in reached):
                        ok = False
                        where.append('%s (line %s)' % (g.p.split('::')[-2] + '::' + g.p.split('::')[-1], g.nodes[cs_].get('ln')))
        rep.ob('D6', 'K3', ofn, 'the thread-local end-of-input mark is lowered wherever it was observed as raised', ok,
               'the mark raised by flow_control::stop() stays on the thread (%s): a nested invocation of the input filter that stops the '
               'pipeline makes the legitimate null item of the outer invocation look like the end-of-input signal - the item is dropped'
               % (', '.join(sorted(set(where))) or 'nothing ever lowers it'), key_extra='eoi-mark')


def _observes(fn, defs, a, obs_node):
    """does condition atom a test the value read by obs_node?  returns the truth value that means "raised" (non-null) or None"""
    n = fn.n(fn.strip(a))
    if fn.strip(a) == obs_node or obs_node in fn.subtree(fn.strip(a)):
        if n.get('k') == 'binop' and n['op'] in ('!=', '=='):
            other = n['r'] if obs_node in fn.subtree(n['l']) else n['l']
            if fn.cv(other) == 0 or fn.n(fn.strip(other)).get('null'):
                return n['op'] == '!='
            return None
        return True
    return None
