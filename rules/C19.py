"""C19 - call_once and thread-specific storage: one winner, one element per thread.  (DESIGN.md section 4, C19)"""
from engine.facts import AnalysisBroken, atomic_op, atomic_ops, has_acquire, has_release
from engine.rules import (calls, calls_named, every_path_passes, last_member, is_call_to, Defs, resolve_cond_source, oname,
                          edges_where, dominated_by_edges, member_accesses, root_of, assignments, value_root, atomics_on,
                          local_objects, auto_dtor_positions)
from engine import witness
from rules.C03 import try_call_sites

UNITS = ['drivers/algorithms.cpp']
D1N = 'tbb::detail::d1::'
FLAG = D1N + 'collaborative_once_flag::'
RUN = D1N + 'collaborative_once_runner::'

EXPLANATION = (
    'Decides: D1 the once-flag word changes only by atomic RMW (winner CAS uninitialized->runner, helper CAS +1 guarded by '
    'expected > done, fetch_sub(1), completion CAS); D2 helper lifetime order: the lifetime guard (runner reference) is taken '
    'before the helper drops its flag reference and before it assists; the runner destructor waits (acquire) for the reference '
    'count to reach zero; assist() waits for m_is_ready before it touches the runner storage and m_is_ready is stored with '
    'release after the storage was constructed; D3 an exception resets the flag, success completes it: the functor runs under '
    'try_call(...).on_exception(set_completion_state(uninitialized)) and set_completion_state(done) is reached only after the '
    'functor returned; helpers never see the exception (assist is noexcept); D4 pointer tagging is sound (alignment / mask '
    'witnesses); D5 enumerable_thread_specific: a slot is claimed only by CAS on its key, the element pointer is written only on '
    'the claim-success edge, the root table is replaced only by CAS (a superfluous array is freed), create_local() is called only '
    'when no level of the table holds the thread\'s key, plain stores to my_root / my_count occur only in the non-concurrent '
    'functions.  One element per thread over all interleavings and combine/iteration coverage are NOT decided.')
EXPLANATION += ' Added after the seeded-change rounds: ' + "D1 also: a caller leaves do_collaborative_call_once only as the winner or after it observed the state done; D5 also: a new ETS hash array is sized from the caller's own ticket; no user operation runs between appending an element to my_locals and marking it built (violated on the pinned tree: known findings)."
EXPLANATION += ' Added in the third session (round-3 seeds and the findings they led to): ' + "D5 also: emptying the table of a per-instance-key container destroys and re-creates the native key (the only way to drop every thread's cached pointer); nothing can fail between the creation of a thread's element and the claim of its slot (violated: known finding)."
EXPLANATION += ' Added later in the fourth round: ' + 'D5 also: a function of ets_base that gives table slots to keys accounts for them in my_count (increment, or a store whose value comes from the source container / a count); the result of creating the per-instance TLS key is examined.'
EXPLANATION += ' Added in the fifth seeding round: ' + 'D5 also: ets_base::table_swap of every specialisation exchanges every data member its own methods use (derived from the accesses through this: the root, the count, and with ets_key_per_instance the native TLS key) with the same member of the other instance - a table that changes hands without its key leaves the threads cached slot pointers aimed into the other container.'
EXPLANATION += ' Added in the sixth (partial) seeding round: ' + 'D5 also: at every CAS that publishes a hash array on my_root the expected variable holds the value last stored into new_array->next (tracked through copies; a failed CAS overwrites its expected argument) - the published array links exactly the array it replaces.'
ASSUMPTIONS = ['instantiations of drivers/algorithms.cpp (once flag with and without arguments, ETS with both key policies)']
ND = ['one element per thread over all interleavings of first accesses and table growth', 'combine / iteration coverage']


def run(facts, rep):
    d1_flag(facts, rep)
    d2_lifetime(facts, rep)
    d3_exception(facts, rep)
    d5_ets(facts, rep)
    d5_key_count(facts, rep)
    d5_tls_key_creation_checked(facts, rep)
    d5_swap_moves_the_whole_state(facts, rep)
    d5_published_array_links_what_it_replaces(facts, rep)


def witnesses(rep, tier):
    witness.check_file(rep, 'D4', 'witness/once.cpp', floor=4)


def ops_on(fn, member, kinds=None):
    return [(p, o) for p, o in atomic_ops(fn) if o['kind'] != 'fence' and last_member(fn, o['obj']) == member and (kinds is None or o['kind'] in kinds)]


def d1_flag(facts, rep):
    n = 0
    for fn in facts.fns.values():
        if not fn.p.startswith(D1N + 'collaborative_once_flag') and fn.p != D1N + 'collaborative_call_once':
            if not (fn.kind == 'lambda' and 'collaborative_once_flag' in fn.p):
                continue
        ws = ops_on(fn, 'm_state', ('store', 'rmw', 'cas'))
        if not ws:
            continue
        if fn.kind == 'dtor':
            continue     # the assert-only destructor marks the flag dead
        n += 1
        rep.ob('D1', 'K1', fn, 'the once-flag word is changed only by atomic read-modify-write', all(o['kind'] in ('rmw', 'cas') for _, o in ws),
               'm_state written by %s: a concurrent helper reference or a second winner is lost' % ', '.join(o['name'] for _, o in ws))
    for fn in facts.get(FLAG + 'do_collaborative_call_once'):
        defs = Defs(fn)
        cas = [(p, o) for p, o in ops_on(fn, 'm_state', ('cas',))]
        helper = []
        for p, o in cas:
            v = fn.n(fn.strip(o['val']))
            if v.get('k') == 'binop' and v['op'] == '+':
                helper.append((p, o))

        exp_v = set(fn.n(fn.strip(o['expected'])).get('v') for _, o in cas)      # the CAS's expected argument

        def above_done(a, truth):
            n = fn.n(fn.strip(a))
            return truth and n.get('k') == 'binop' and n['op'] == '>' and fn.n(fn.strip(n['l'])).get('v') in exp_v and fn.cv(n['r']) == 1
        ge = edges_where(fn, above_done)
        ok = bool(helper) and all(dominated_by_edges(fn, p, ge)[0] for p, _ in helper)
        rep.ob('D1', 'K4', fn, 'a helper adds its reference only while a runner is installed (expected > done)', ok,
               'the +1 can be applied to the uninitialized/done value: the flag is corrupted')
        winner = [(p, o) for p, o in cas if (p, o) not in helper]

        def uninit(a, truth):
            n = fn.n(fn.strip(a))
            return truth and n.get('k') == 'binop' and n['op'] == '==' and fn.n(fn.strip(n['l'])).get('v') in exp_v and fn.cv(n['r']) == 0
        ue = edges_where(fn, uninit)
        ok2 = bool(winner) and all(dominated_by_edges(fn, p, ue)[0] for p, _ in winner)
        rep.ob('D1', 'K4', fn, 'the winner CAS is attempted only from the uninitialized state', ok2, 'a done / running flag can be overwritten by a new winner')
        # a caller leaves only as the winner (after run_once) or after it has observed the value `done` itself:
        # every path to the normal exit passes run_once() or an edge on which expected == done is known
        ro = set(c[0] for c in calls_named(fn, ('run_once',)))

        def saw_done(a, truth):
            n = fn.n(fn.strip(a))
            if n.get('k') != 'binop' or n['op'] not in ('==', '!='):
                return False
            return fn.n(fn.strip(n['l'])).get('v') in exp_v and fn.cv(n['r']) == 1 and ((n['op'] == '==') == truth)
        de = edges_where(fn, saw_done)
        ok3, wit3 = every_path_passes(fn, 'entry', lambda p, e: p in ro, stop_edge=lambda b, si: (b, si) in de)
        rep.ob('D1', 'K4', fn, 'a caller returns only as the winner or after it observed the state done', bool(ro) and bool(de) and ok3,
               'a waiter / helper can return although no attempt has completed (e.g. after the winner\'s functor threw and the flag went '
               'back to uninitialized): it neither sees the effects nor retries: ' + wit3)
    rep.floor('D1', 5, 'flag writers + exit condition')


def d2_lifetime(facts, rep):
    for fn in facts.get(FLAG + 'do_collaborative_call_once'):
        guards = local_objects(fn, lambda c: c.endswith('lifetime_guard'))
        fs = [(p, o) for p, o in ops_on(fn, 'm_state', ('rmw',)) if o['name'] in ('fetch_sub', 'operator--', 'operator-=')]
        asst = calls_named(fn, ('assist',))
        ok = bool(guards) and bool(fs) and bool(asst)
        if ok:
            gp = guards[0][0]
            ok = all(every_path_passes(fn, 'entry', lambda p, e: p == gp, end=q)[0] for q, _ in fs) and \
                all(every_path_passes(fn, 'entry', lambda p, e: p in set(q for q, _ in fs), end=c[0])[0] for c in asst)
            dt = auto_dtor_positions(fn, guards[0][1])
            ok = ok and bool(dt) and all(any(fn.can_reach(c[0], d) for d in dt) for c in asst)
        rep.ob('D2', 'K4', fn, 'helper: runner reference taken, then flag reference dropped, then assist; the runner reference outlives assist()', ok,
               'between dropping the flag reference and taking the runner reference the winner may finish and destroy the runner '
               '(use after free)')
    for fn in facts.get(RUN + 'lifetime_guard::(ctor)'):
        rep.ob('D2', 'K1', fn, 'lifetime_guard takes a runner reference by atomic increment', bool(ops_on(fn, 'm_ref_count', ('rmw',))), 'no increment')
    for fn in facts.get(RUN + 'lifetime_guard::(dtor)'):
        rep.ob('D2', 'K1', fn, 'lifetime_guard drops its reference by atomic decrement', bool(ops_on(fn, 'm_ref_count', ('rmw',))), 'no decrement')
    for fn in facts.get(RUN + '(dtor)'):
        w = [c for c in calls_named(fn, ('spin_wait_until_eq',)) if c[2].get('a') and last_member(fn, c[2]['a'][0]) == 'm_ref_count']
        ok = bool(w) and all(fn.cv(c[2]['a'][1]) == 0 and (len(c[2]['a']) < 3 or fn.cv(c[2]['a'][2]) in (2, 4, 5)) for c in w) and \
            every_path_passes(fn, 'entry', lambda p, e: p in set(c[0] for c in w))[0]
        rep.ob('D2', 'K4', fn, 'the runner is destroyed only after all helper references are gone (acquire wait for zero)', ok,
               'runner storage destroyed while a helper still uses it')
    for fn in facts.get(RUN + 'assist'):
        w = [c for c in calls_named(fn, ('spin_wait_while_eq',)) if c[2].get('a') and last_member(fn, c[2]['a'][0]) == 'm_is_ready']
        st = [x for x in member_accesses(fn, ('m_storage',))]
        ok = bool(w) and bool(st) and all(every_path_passes(fn, 'entry', lambda p, e: p in set(c[0] for c in w), end=x[0])[0] for x in st)
        rep.ob('D2', 'K4', fn, 'a helper waits for m_is_ready before touching the runner storage', ok, 'arena/wait_context used before the winner constructed them')
        rep.ob('D2', 'K12', fn, 'assist() is noexcept (helpers never see the functor\'s exception)', bool(fn.d.get('ne')), 'assist not noexcept')
    for fn in facts.get(RUN + 'run_once'):
        news = [(p, s, nd) for p, s, nd in fn.stmt_elems(('new',)) if nd.get('pl')]
        lam = [g for g in facts.fns.values() if g.kind == 'lambda' and RUN + 'run_once' in g.p]
        st = []
        for g in lam:
            st += [(g, p, o) for p, o in ops_on(g, 'm_is_ready', ('store',))]
        ok = bool(news) and bool(st) and all(has_release(o['order'] or 0) for _, _, o in st)
        # the lambdas run inside arena.execute, which is called after the placement new
        ex = calls_named(fn, ('execute',))
        ok = ok and bool(ex) and all(every_path_passes(fn, 'entry', lambda p, e: p in set(x[0] for x in news), end=c[0])[0] for c in ex)
        rep.ob('D2', 'K4', fn, 'm_is_ready is published (release) only after the storage was constructed', ok,
               'helpers can see m_is_ready before arena/wait_context exist')
    rep.floor('D2', 6, 'helper lifetime')


def d3_exception(facts, rep):
    for fn in facts.get(FLAG + 'do_collaborative_call_once'):
        lam = [g for g in facts.fns.values() if g.kind == 'lambda' and g.d.get('lparent') == fn.u]
        found = False
        for g in lam:
            sites = try_call_sites(facts, g)
            for pos, kind, bodies, hs, node in sites:
                if kind != 'on_exception':
                    continue
                resets = [c for h in hs for c in calls_named(h, ('set_completion_state',)) if h.cv(c[2]['a'][1]) == 0]
                if not resets:
                    continue
                found = True
                done = [c for c in calls_named(g, ('set_completion_state',)) if g.cv(c[2]['a'][1]) == 1]
                ok = bool(done) and all(every_path_passes(g, 'entry', lambda p, e: p == pos, end=c[0])[0] for c in done)
                rep.ob('D3', 'K3', fn, 'the flag is completed only after the functor returned normally; an exception resets it', ok,
                       'set_completion_state(done) can run although the functor threw (or before it ran)')
        rep.ob('D3', 'K9', fn, 'the functor runs under an exception handler that resets the flag to uninitialized', found,
               'a throwing functor leaves the flag pointing to a dead runner: every later call hangs')
    for fn in facts.get(FLAG + 'set_completion_state'):
        cas = ops_on(fn, 'm_state', ('cas',))
        w = calls_named(fn, ('spin_wait_until_eq',))
        rep.ob('D3', 'K1', fn, 'completion waits until all helper references are dropped and then swaps the state by CAS', bool(cas) and bool(w),
               'completion state stored while helpers still hold references')
    rep.floor('D3', 3, 'exception / completion')


def d5_ets(facts, rep):
    E = D1N + 'ets_base::'
    for fn in facts.get(E + 'slot::claim'):
        ws = ops_on(fn, 'key', ('store', 'rmw', 'cas'))
        rep.ob('D5', 'K1', fn, 'a slot is claimed by compare-exchange on its key', bool(ws) and all(o['kind'] == 'cas' for _, o in ws),
               'slot key %s: two threads can share one slot (one element for two threads)' % ', '.join(o['name'] for _, o in ws))
    nlook = 0
    for fn in facts.get(E + 'table_lookup'):
        if calls_named(fn, ('get_tls',)):
            continue      # the native-TLS specialisation only caches the result of the hashed lookup below
        nlook += 1
        defs = Defs(fn)
        cl = set(c[1] for c in calls_named(fn, ('claim',)))
        ce = edges_where(fn, lambda a, truth: truth and fn.strip(a) in cl)
        pw = [(p, s) for p, s, l, r in assignments(fn) if last_member(fn, l) == 'ptr']
        ok = bool(pw) and bool(ce) and all(dominated_by_edges(fn, p, ce)[0] for p, _ in pw)
        rep.ob('D5', 'K4', fn, 'the element pointer is stored into a slot only after the slot was claimed', ok,
               'ptr of a slot owned by another thread is overwritten', key_extra=fn.q[-30:])
        ws = ops_on(fn, 'my_root', ('store', 'rmw', 'cas'))
        ok = bool(ws) and all(o['kind'] == 'cas' for _, o in ws)
        rep.ob('D5', 'K1', fn, 'the root table is replaced only by compare-exchange', ok, ', '.join(o['name'] for _, o in ws), key_extra=fn.q[-30:])
        casn = set(o['s'] for _, o in ws if o['kind'] == 'cas')
        lose = edges_where(fn, lambda a, truth: (not truth) and fn.strip(a) in casn)
        de = calls_named(fn, ('deallocate',))
        ok = bool(de) and all(dominated_by_edges(fn, c[0], lose)[0] for c in de)
        rep.ob('D5', 'K3', fn, 'a superfluous array is freed only by the thread that lost the root CAS', ok, 'published array freed / loser leaked',
               key_extra=fn.q[-30:])
        cr = calls_named(fn, ('create_local',))
        mt = set(c[1] for c in calls_named(fn, ('match',)))
        hit = edges_where(fn, lambda a, truth: truth and fn.strip(a) in mt)
        ok = bool(cr)
        for (b, si) in hit:
            reached, ex, par = fn.walk((fn.blocks[b]['succ'][si], -1))
            ok = ok and not any(q in set(c[0] for c in cr) for q in reached)
        rep.ob('D5', 'K4', fn, 'a new element is created only when no table level holds the thread\'s key', ok and bool(hit),
               'a thread that already has an element gets a second one', key_extra=fn.q[-30:])
        # the size of a new array is computed from the thread's own ticket (the value it obtained from ++my_count): several
        # first-time callers can read the same root inside the ++my_count .. CAS window; an array sized from the root they saw
        # ("double it") is then too small for all of them and a probe loop never finds an empty slot.  K10: the argument of
        # allocate() is a variable that is compared with the ticket on a branch that dominates the allocation.
        from engine.rules import vars_initialised_from
        tick_nodes = [o['s'] for _, o in ops_on(fn, 'my_count', ('rmw',))]
        tick_vars = vars_initialised_from(fn, tick_nodes)
        for pos2, sx2, node2, d2 in calls_named(fn, ('allocate',)):
            a2 = node2.get('a', [])
            sv = fn.n(fn.strip(a2[0])).get('v') if a2 else None
            okk = False
            if sv is not None and tick_vars:
                for b2, blk2 in fn.blocks.items():
                    t2 = blk2.get('term')
                    if not t2 or 'c' not in t2:
                        continue
                    vs = set(fn.nodes[x].get('v') for x in fn.subtree(t2['c']) if fn.nodes[x].get('k') == 'var')
                    if sv in vs and (vs & tick_vars) and any(dominated_by_edges(fn, pos2, {(b2, k)})[0] for k in (0, 1)):
                        okk = True
            rep.ob('D5', 'K10', fn, 'a new hash array is sized from the caller\'s own ticket (++my_count), not from the array it replaces', okk,
                   'the size passed to allocate() is never compared with the ticket: concurrent first accesses that saw the same root all '
                   'allocate the same too small array; one of them probes a full array forever (a thread never gets its element)',
                   ln=node2['ln'], key_extra='size' + fn.q[-30:])
        cnt = ops_on(fn, 'my_count', ('store', 'rmw', 'cas'))
        rep.ob('D5', 'K1', fn, 'the element count is raised atomically', bool(cnt) and all(o['kind'] == 'rmw' for _, o in cnt), ', '.join(o['name'] for _, o in cnt),
               key_extra=fn.q[-30:])
    if not nlook:
        raise AnalysisBroken('ets_base::table_lookup (hashed) not instantiated')
    # An element becomes visible to size(), iteration, combine() and combine_each() when it is appended to my_locals.  The
    # user's initialiser / copy / move runs after that append.  If it throws, the appended slot stays (a concurrent_vector
    # cannot shrink concurrently), is visited although it was never constructed, and the thread's retry creates a second slot.
    # Rule (K9): in the create_local* functions no user operation follows the append (grow_by) outside a try block.
    from rules.common import MayThrow, user_op
    mt = MayThrow(facts, external_may_throw=False)
    ncl = 0
    seen_cl = set()
    for fn in facts.fns.values():
        if 'enumerable_thread_specific::create_local' not in fn.p:
            continue
        gb = calls_named(fn, ('grow_by',))
        if not gb:
            continue
        bad = []
        for pos, sx, node, d in gb:
            reached, ex, par = fn.walk(pos)
            for q in reached:
                if q == pos:
                    continue
                e = fn.elems(q[0])[q[1]]
                if not isinstance(e, int) or fn.nodes[e].get('k') not in ('call', 'ctor', 'new'):
                    continue
                nd = fn.nodes[e]
                if nd.get('tr') is not None:
                    continue
                throws = mt.node(fn, e)
                if not throws and nd.get('k') == 'call' and nd.get('virt'):
                    u = nd.get('fn')
                    throws = any(mt.fn(o) for o in facts.overriders(u))
                if throws:
                    bad.append(nd.get('ln'))
        key = fn.p
        ent = (fn, bad)
        if key in seen_cl:
            continue
        seen_cl.add(key)
        ncl += 1
        rep.ob('D5', 'K9', fn, 'no user operation runs between appending the element to my_locals and marking it built (%s)' % fn.p.split('::')[-1], not bad,
               'the initialiser / copy at line(s) %s runs after the slot was appended and is not guarded: if it throws, the never-constructed '
               'slot stays visible to size(), iteration and combine(), and the thread\'s next access appends a second slot' % sorted(set(bad)),
               key_extra=fn.p)
    if ncl < 2:
        raise AnalysisBroken('enumerable_thread_specific::create_local*: %d functions found' % ncl)
    # plain stores to my_root/my_count only in non-concurrent functions
    allowed = ('table_clear', 'table_elementwise_copy', 'table_swap', '(ctor)', '(dtor)', 'swap_atomics_relaxed')
    for fn in facts.fns.values():
        if 'ets_base' not in fn.p:
            continue
        st = ops_on(fn, 'my_root', ('store',)) + ops_on(fn, 'my_count', ('store',))
        if not st:
            continue
        short = fn.p.split('::')[-1]
        rep.ob('D5', 'K11', fn, 'plain stores to my_root / my_count occur only in the non-concurrent table functions', short in allowed,
               '%s stores my_root/my_count plainly on a concurrent path' % fn.p, key_extra=fn.p)
    # the element of a thread is created (create_local: appended to my_locals and initialised) BEFORE a slot is claimed for it.  Until
    # the claim nothing may fail: if the allocation of a bigger hash array throws in between, the exception leaves local() with the
    # element already in the container but in no slot - the thread's next access creates a second element (two initialiser
    # calls, size() counts the thread twice).
    for fn in facts.get(E + 'table_lookup'):
        cl = calls_named(fn, ('create_local',))
        if not cl:
            continue
        claims = calls_named(fn, ('claim',))
        cpos = set(c[0] for c in claims)
        reached, ex, par = fn.walk(cl[0][0], stop_elem=lambda p_, e_: p_ in cpos)
        bad = []
        for q in reached:
            e_ = fn.elems(q[0])[q[1]]
            if q == cl[0][0] or not isinstance(e_, int) or fn.nodes[e_].get('k') not in ('call', 'new'):
                continue
            d_ = fn.callee(e_) or {}
            if fn.nodes[e_].get('k') == 'new' and not fn.nodes[e_].get('pl'):
                bad.append('new at line %s' % fn.nodes[e_].get('ln'))
            if d_.get('n') in ('allocate', 'create_array'):
                bad.append('%s at line %s' % (d_.get('n'), fn.nodes[e_].get('ln')))
        rep.ob('D5', 'K9', fn, 'nothing can fail between the creation of a thread\'s element and the claim of its slot (table_lookup)', not bad,
               'an allocation that may throw (%s) stands between create_local() and the slot claim: on bad_alloc the new element stays in '
               'the container without a key and the thread\'s next access creates another one' % ', '.join(sorted(set(bad))), key_extra='create-then-claim')
    # the per-instance-key specialisation caches each thread's element pointer in a native TLS slot.  set_tls() reaches the calling
    # thread only; the one way to drop EVERY thread's cached pointer is to destroy the key.  So whenever the hashed table is
    # emptied (table_clear: clear(), assignment) the key is destroyed and created afresh - otherwise another thread's next
    # local() returns the address of its destroyed element with exists == true (no initialiser call, two threads share an
    # element, size()/combine() miss the thread).
    ncache = 0
    for fn in facts.get(E + 'table_clear'):
        if not (calls_named(fn, ('table_clear',)) and fn.d.get('params') is not None):
            continue
        sup = [c for c in calls_named(fn, ('table_clear',))]
        if not sup:
            continue                      # the plain hashed table: nothing cached
        ncache += 1
        dk = calls_named(fn, ('destroy_key',))
        ck = calls_named(fn, ('create_key',))
        ok = bool(dk) and bool(ck) and every_path_passes(fn, 'entry', lambda p, e: p in set(c[0] for c in dk))[0] and \
            all(every_path_passes(fn, 'entry', lambda p, e: p in set(c[0] for c in dk), end=c[0])[0] for c in ck) and \
            every_path_passes(fn, 'entry', lambda p, e: p in set(c[0] for c in ck))[0]
        rep.ob('D5', 'K4', fn, 'emptying the table of a per-instance-key container invalidates every thread\'s cached element pointer (key destroyed and re-created)',
               ok, 'the native key survives table_clear(): other threads keep the address of their destroyed element in their TLS slot; their next '
               'local() returns it as an existing element', key_extra='tls-cache')
    if ncache < 1:
        raise AnalysisBroken('ets_base<ets_key_per_instance>::table_clear not instantiated')
    rep.floor('D5', 9, 'ETS table')


def d5_key_count(facts, rep):
    """The hash table of enumerable_thread_specific has no "full" test of its own: table_lookup relies on my_count - the number
    of keys ever given a slot - to double the table before its density exceeds one half, which is what guarantees that the probe
    loop finds an empty slot and ends.  Every function that gives slots to keys therefore accounts for them in my_count: by an
    increment of its own, or (copying a whole table) by a store whose value is computed from the SOURCE container's counter or
    from a count of the copied keys.  A copy that keeps its own (zero) counter ends up with a table that later fills up
    completely; the next new thread probes it for ever."""
    from engine.rules import Defs
    n = 0
    for fn in sorted(facts.fns.values(), key=lambda f: f.q):
        if (fn.cls or '') != D1N + 'ets_base' or fn.kind not in ('method',):
            continue
        claims = [(pos, o) for pos, o in atomic_ops(fn) if o['kind'] in ('store', 'cas') and last_member(fn, o['obj']) == 'key' and
                  not (o['kind'] == 'store' and fn.cv(o.get('val', -1)) == 0)]
        claims += [(pos, {'ln': node.get('ln')}) for pos, s, node, d in calls_named(fn, ('claim',)) if 'slot' in ((d or {}).get('q') or '')]
        if not claims:
            continue
        n += 1
        params = set(p['v'] for p in fn.d.get('params', []))
        ups = [(pos, o) for pos, o in atomic_ops(fn) if last_member(fn, o['obj']) == 'my_count' and o['kind'] in ('store', 'rmw', 'cas') and
               fn.n(fn.strip(fn.n(fn.strip(o['obj'])).get('base', -1))).get('k') == 'this']
        good = []
        for pos, o in ups:
            if o['kind'] == 'rmw' and o['name'] in ('operator++', 'fetch_add', 'operator+='):
                good.append(o)
            elif o['kind'] == 'store' and o.get('val', -1) >= 0:
                vs = [fn.nodes[x] for x in fn.subtree(o['val']) if fn.nodes[x].get('k') == 'var']
                if any(v.get('v') in params for v in vs) or any(v.get('local') and v.get('v') not in params for v in vs):
                    good.append(o)
        rep.ob('D5', 'K10', fn, 'a function that gives table slots to keys accounts for them in my_count', bool(good),
               'keys are written into slots (line %s) but my_count is %s: the table is not doubled in time, fills up completely, and the probe '
               'loop of the next new thread never finds an empty slot' %
               (claims[0][1].get('ln'), 'stored from this container\'s own counter' if ups else 'not touched'), key_extra='key-count')
    if n < 2:
        raise AnalysisBroken('ets_base: functions that claim table slots: %d (expected table_lookup and table_elementwise_copy)' % n)


def d5_tls_key_creation_checked(facts, rep):
    """With ets_key_per_instance every container owns a native TLS key that caches the thread's element.  Native keys are a
    small per-process resource (1024 on Linux); when pthread_key_create fails the key variable is not written, and from then on
    the container reads and writes the slot of whatever key its uninitialised member happens to name - another container's
    element is handed out ("each thread exactly one element, created by exactly one initialiser call" - here an element of a
    different container, possibly of a different type).  Rule: the result of every key-creation call in the container's code is
    examined (it reaches a branch condition, directly or through a variable), never discarded."""
    n = 0
    for fn in sorted(facts.fns.values(), key=lambda f: f.q):
        if not fn.q.startswith('tbb::detail::d1::ets_base'):
            continue
        pm = None
        for pos, s, node, d in calls_named(fn, ('pthread_key_create',)):
            pm = pm or fn.parent_map()
            n += 1
            cur = s
            used = False
            for _ in range(8):
                par = pm.get(cur)
                if par is None:
                    break
                pn = fn.nodes[par]
                if pn.get('k') == 'cast' and pn.get('ck') == 'ToVoid':
                    break
                if pn.get('k') in ('binop', 'unop', 'decl', 'return', 'call', 'cond'):
                    used = True
                    break
                cur = par
            if not used:
                # the call may itself be the condition of a branch
                used = any(blk.get('term') and blk['term'].get('c') is not None and s in fn.subtree(blk['term']['c']) for blk in fn.blocks.values())
            rep.ob('D5', 'K13', fn, 'the result of creating the TLS key of the container is examined', used,
                   'pthread_key_create can fail (the process has a fixed number of keys); the result is discarded and the key member '
                   'stays uninitialised: the container then uses the TLS slot of some other key and hands out an element of another container',
                   ln=node.get('ln'), key_extra='key-create')
    if n < 1:
        raise AnalysisBroken('ets_base<ets_key_per_instance>: no pthread_key_create call found (the driver no longer instantiates it?)')


def d5_swap_moves_the_whole_state(facts, rep):
    """Move construction / assignment / swap of an enumerable_thread_specific exchange the slot tables of two containers through
    ets_base::table_swap.  Everything that interprets a table travels with it: the element count, and - with
    ets_key_per_instance - the native TLS key whose per-thread value points INTO that table (the cached slot of the calling
    thread).  A table that changes hands without its key leaves every thread's cached pointer aimed at an element that now
    belongs to the other container: local() of the target returns an element of the source ("each thread exactly one element"
    - here two containers hand out the same one).  Rule (derived, no field list): the fields of an ets_base specialisation are
    the members its own methods access through `this`; its table_swap exchanges every one of them with the same member of the
    other instance (one call receiving both, or both being assigned)."""
    n = 0
    by_class = {}
    for fn in facts.fns.values():
        if fn.p.startswith(D1N + 'ets_base::') and fn.kind in ('method', 'ctor', 'dtor'):
            by_class.setdefault(fn.q.rsplit('::', 1)[0], []).append(fn)
    for cq, fns in sorted(by_class.items()):
        swaps = [f for f in fns if f.p == D1N + 'ets_base::table_swap']
        if not swaps:
            continue
        fields = set()
        for f in fns:
            for nd in f.nodes:
                if nd.get('k') == 'member' and not nd.get('fn') and nd.get('base', -1) >= 0 and f.n(f.strip(nd['base'])).get('k') == 'this' \
                   and (nd.get('cls') or '') == D1N + 'ets_base':
                    fields.add(nd['n'])
        if not fields:
            raise AnalysisBroken('%s: no data members found' % cq)
        for fn in swaps:
            others = set(p['v'] for p in fn.d.get('params', []))

            def side(x):
                nd = fn.n(fn.strip(x))
                if nd.get('k') != 'member' or nd.get('base', -1) < 0:
                    return None
                b = fn.n(fn.strip(nd['base']))
                if b.get('k') == 'this':
                    return ('this', nd['n'])
                if b.get('k') == 'var' and b.get('v') in others:
                    return ('other', nd['n'])
                return None
            exchanged = set()
            for pos, s, node, d in calls(fn):
                sides = [side(a) for a in node.get('a', [])]
                for f_ in fields:
                    if ('this', f_) in sides and ('other', f_) in sides:
                        exchanged.add(f_)
            written = set(side(l) for pos, s, l, r in assignments(fn))
            for f_ in fields:
                if ('this', f_) in written and ('other', f_) in written:
                    exchanged.add(f_)
            for f_ in sorted(fields):
                n += 1
                rep.ob('D5', 'K3', fn, 'table_swap exchanges %s together with the table' % f_, f_ in exchanged,
                       'the slot table changes hands but %s stays behind: what interprets the table (element count / the TLS key whose '
                       'per-thread value points into it) now belongs to the other container - after a move or swap local() hands out an '
                       'element of the other container' % f_, key_extra='swap|%s|%s' % (cq[-40:], f_))
    if n < 3:
        raise AnalysisBroken('ets_base::table_swap: %d exchanged-field obligations (expected my_root, my_count, my_key)' % n)


def d5_published_array_links_what_it_replaces(facts, rep):
    """ets_base::table_lookup publishes a bigger hash array by a CAS on my_root; the arrays form a chain through `next`, and a
    thread finds its element by walking that chain.  The new array must point at exactly the array the successful CAS replaced:
    after a failed attempt the root has changed (another thread published an array in between, possibly already holding keys), so
    the link has to be renewed before the next attempt - otherwise the array published in between is cut out of the chain, the
    threads whose key lives only there get a second element on their next local(), and size()/iteration count them twice.
    Rule (per path): at every CAS on my_root the `expected` variable holds the value last stored into new_array->next - tracked
    through copies; a failed CAS overwrites its `expected` argument."""
    from engine.rules import product_walk_from
    n = 0
    for fn in sorted(facts.fns.values(), key=lambda f: f.q):
        if fn.p != D1N + 'ets_base::table_lookup':
            continue
        cas = {}
        for pos, o in atomic_ops(fn):
            if o['kind'] == 'cas' and last_member(fn, o['obj']) == 'my_root':
                nd = fn.n(o['s'])
                args = nd.get('a', [])
                if len(args) >= 2:
                    e, a = fn.n(fn.strip(args[0])), fn.n(fn.strip(args[1]))
                    if e.get('k') == 'var' and a.get('k') == 'var':
                        cas[pos] = (e['v'], a['v'], nd.get('ln'))
        if not cas:
            continue
        newarr = set(v[1] for v in cas.values())
        bad = {}

        def elem_tr(st, pos, e):
            if not isinstance(e, int):
                return st
            nd = fn.nodes[e]
            if pos in cas:
                ev, av, ln = cas[pos]
                if ev not in st:
                    bad[pos] = ln
                return frozenset(x for x in st if x != ev)       # a failed CAS reloads `expected`; a successful one leaves the loop
            if nd.get('k') == 'binop' and nd.get('op') == '=':
                l, r = fn.n(fn.strip(nd['l'])), fn.n(fn.strip(nd['r']))
                if l.get('k') == 'member' and l.get('n') == 'next' and fn.n(fn.strip(l.get('base', -1))).get('v') in newarr:
                    return frozenset([r['v']]) if r.get('k') == 'var' else frozenset()
                if l.get('k') == 'var':
                    if r.get('k') == 'var' and r['v'] in st:
                        return st | frozenset([l['v']])
                    return frozenset(x for x in st if x != l['v'])
            if nd.get('k') == 'decl':
                for v in nd.get('vars', []):
                    iv = fn.n(fn.strip(v['init'])) if v.get('init', -1) >= 0 else {}
                    if iv.get('k') == 'var' and iv['v'] in st:
                        st = st | frozenset([v['v']])
                    else:
                        st = frozenset(x for x in st if x != v['v'])
                return st
            return st
        product_walk_from(fn, (fn.entry, -1), frozenset(), elem_tr)
        for pos, (ev, av, ln) in sorted(cas.items()):
            n += 1
            rep.ob('D5', 'K3', fn, 'the hash array being published links the array the CAS expects to replace', pos not in bad,
                   'a path reaches the CAS on my_root at line %s with new_array->next not (re)set to the expected root: after a failed attempt '
                   'the array another thread published in between is cut out of the chain - its threads get a second element' % ln,
                   ln=ln, key_extra='root-cas-link')
    if n < 1:
        raise AnalysisBroken('ets_base::table_lookup: CAS on my_root not found')
