"""C02 - no lost wake-up; enqueued work eventually runs.  (DESIGN.md section 4, C02)"""
from engine.facts import AnalysisBroken, atomic_op, atomic_ops, is_full_fence, has_acquire, has_release, SEQ_CST, RELAXED
from engine.rules import (calls, calls_named, atomics_on, every_path_passes, last_member, oname, is_call_to, Defs,
                          resolve_cond_source, edges_where, dominated_by_edges, lockset, member_accesses, full_fence_pred,
                          access_kind, root_of, product_walk_from, bool_vars_tracker, assignments)
from rules.common import TBB_SRC

UNITS = ['src/tbb/arena.cpp', 'src/tbb/task.cpp', 'src/tbb/task_dispatcher.cpp', 'src/tbb/concurrent_bounded_queue.cpp',
         'src/tbb/address_waiter.cpp', 'src/tbb/private_server.cpp', 'src/tbb/thread_request_serializer.cpp', 'src/tbb/market.cpp',
         'src/tbb/threading_control.cpp', 'src/tbb/thread_dispatcher.cpp', 'drivers/mutexes.cpp', 'drivers/containers.cpp', 'drivers/tbb_internal.cpp']
UNITS_THOROUGH = sorted(set(UNITS + TBB_SRC + ['drivers/algorithms.cpp']))

R1 = 'tbb::detail::r1::'
D1 = 'tbb::detail::d1::'
D2 = 'tbb::detail::d2::'
MON = R1 + 'concurrent_monitor_base::'

EXPLANATION = (
    'Decides the structural necessary conditions of the sleep/wake protocols: D1 the concurrent monitor (waiter registers under '
    'the monitor mutex and then issues a full fence; every non-relaxed notifier fences before it looks at the wait set; epoch '
    'bump, dequeue and in-list flag change under the mutex; dequeued nodes reach notify(); commit_wait sleeps only on an '
    'unchanged epoch) and the layers below it (monitor mutex unlock = seq_cst exchange before reading the waiter count, futex '
    'binary semaphore changes only by exchange/CAS and wakes exactly on state 2); D2 prepare_wait is followed by commit_wait or '
    'cancel_wait on every path at every call site; D3 every relaxed address notification is preceded by a full fence on all '
    'paths; D4 release-then-notify post-dominance on every release path (mutex, rw_mutex, bounded queue, wait_context, '
    'delegated_task, arena exit monitors); D5 waiter/notifier agree on the monitor tag and the abort counter is bumped before '
    'the abort broadcast; D6 work is made visible before it is advertised, non-spawn advertisements start with a full fence, '
    'the pool-state flags change only by RMW, out_of_work clears only through the has-tasks predicates covering all task '
    'sources; D7 the worker sleep list and the request serializer state are touched only under their mutexes.  Liveness itself '
    '(eventual execution, OS semaphore fairness) is NOT decided.')
EXPLANATION += ' Added after the seeded-change rounds: ' + 'D4 also: task_arena_impl::execute notifies the exit monitor on every path from prepare_wait to the function exit unless a slot was occupied; D5 also: the bounded-queue wake-up predicate is downward closed (ticket <= notified ticket).'
EXPLANATION += ' Added in the third session (round-3 seeds and the findings they led to): ' + "D1 also: every scan of a monitor's wait set steps in the direction of its start (front/next, last/prev); D4 also: a bounded-queue consumer announces every claimed head ticket to the producers before it claims another one (invalid entries included, path-sensitive) and also when moving the item out throws; D7 also: the serializer's pending-request word holds base + delta for every value of the delta parameter and is examined in full width."
EXPLANATION += ' Added in the fourth round of seeded changes: ' + 'D7 also: with a worker soft limit of 0 the grant of the mandatory worker in market::update_allotment does not depend (backward slice) on a per-priority-level quantity.'
EXPLANATION += ' Added later in the fourth round: ' + 'D2 also: every condition that can end a wait loop through commit_wait is evaluated again between prepare_wait and commit_wait (the exit conditions are identified by the calls they test, looking through local variables).'
EXPLANATION += ' Added in the fifth round: ' + 'D4 also: rw_mutex::downgrade with no writer pending passes a wake-all notifier (which r1 notifiers wake every matching sleeper is read from their bodies).'
EXPLANATION += ' Added in the sixth (partial) seeding round: ' + 'D7 also: when the soft limit is set to 0 the serializer proxy keeps one worker whenever mandatory requests are registered - the raise of the limit and the switch of the mode are both dominated by a test of the request COUNT, not of the mode flag.'
ASSUMPTIONS = ['C++11 memory model; only seq_cst fences / seq_cst RMWs order a store before a later load',
               'futex / OS semaphore below the P/V interface are trusted', 'Linux configuration (__TBB_USE_FUTEX) is analysed']
ND = ['eventual execution (liveness) itself', 'fairness of the OS semaphore/futex', 'thread_monitor internals below P/V']

LOCKCLS = lambda c: c.endswith('scoped_lock') or c in ('std::lock_guard', 'std::unique_lock')   # noqa: E731


def run(facts, rep):
    fence = full_fence_pred(facts)
    d1_monitor(facts, rep, fence)
    d2_typestate(facts, rep)
    d2_recheck_between_prepare_and_commit(facts, rep)
    d3_relaxed_notify(facts, rep, fence)
    d4_release_notify(facts, rep)
    d5_agreement(facts, rep)
    d6_advertise(facts, rep, fence)
    d7_sleep_list(facts, rep)
    d1_scan_direction(facts, rep)


def d1_scan_direction(facts, rep, clause='D1'):
    """A notifier that looks for a waiter to wake scans the wait set, a circular doubly linked list with a sentinel.  The scan
    covers every waiter only if its start and its step agree: front() with ->next, last() with ->prev (the loop ends at end()).
    A scan that starts at one end and steps towards that same end looks at one node only: when that node belongs to another
    object (several objects share a monitor through the address hash) the waiter of the object being notified is never woken.
    Decided by data flow: every redefinition of a variable that was initialised from L.front()/L.last() takes its value from
    the next/prev link of that same variable."""
    START = {'front': 'next', 'last': 'prev'}
    n = 0
    for fn in list(facts.fns.values()):
        if not (fn.cls or '').startswith(R1 + 'concurrent_monitor_base') and not (fn.cls or '').startswith(R1 + 'circular_doubly_linked_list'):
            continue
        starts = {}
        for pos, s, node, d in calls(fn):
            if (d or {}).get('n') in START and (d or {}).get('cls', '').endswith('circular_doubly_linked_list_with_sentinel'):
                starts[s] = START[d['n']]
        if not starts:
            continue
        defs = Defs(fn)
        # induction variables: declared / assigned from a front()/last() call
        ivars = {}
        for (vid, dn), val in defs.value_of.items():
            if val is not None and fn.strip(val) in starts:
                ivars.setdefault(vid, set()).add(starts[fn.strip(val)])
        for vid, dirs in ivars.items():
            steps = []
            for (v2, dn), val in defs.value_of.items():
                if v2 != vid or val is None or fn.strip(val) in starts:
                    continue
                # follow one level of copies: n = nxt; nxt = n->prev
                cands = [val]
                vn = fn.n(fn.strip(val))
                if vn.get('k') == 'var':
                    vals = defs.values(val) or []
                    cands = [x for _, x in vals if x is not None]
                for c in cands:
                    cn = fn.n(fn.strip(c))
                    if cn.get('k') == 'member' and cn.get('n') in ('next', 'prev'):
                        base = fn.n(root_of(fn, fn.strip(c)))
                        if base.get('k') == 'var' and base.get('v') == vid:
                            steps.append((cn['n'], cn.get('ln')))
            if not steps:
                continue              # not a loop variable (e.g. a single look at the front node)
            n += 1
            want = sorted(dirs)
            ok = len(dirs) == 1 and all(st == want[0] for st, _ in steps)
            vname = next((nd.get('n') for nd in fn.nodes if nd.get('k') == 'var' and nd.get('v') == vid), '?')
            rep.ob(clause, 'K10', fn, 'the wait-set scan over `%s` steps in the direction of its start (%s)' % (vname, '/'.join(
                   'front->next' if w == 'next' else 'last->prev' for w in want)), ok,
                   'the scan starts at %s but advances through ->%s (line %s): only one node is examined; a waiter of the notified object that '
                   'is not that node sleeps forever' % ('/'.join('front()' if w == 'next' else 'last()' for w in want),
                                                      ','.join(sorted(set(st for st, _ in steps))), steps[0][1]),
                   key_extra='scan|%s' % vname)
    if n < 4:
        raise AnalysisBroken('fewer wait-set scans found than confirmed by reading (%d < 4)' % n)


def d1_monitor(facts, rep, fence):
    for fn in facts.get(MON + 'prepare_wait'):
        before, info = lockset(fn, LOCKCLS)
        mon_locks = set(v for v, i in info.items() if i['mutex'] == 'my_mutex')
        adds = [c for c in calls_named(fn, ('add',)) if last_member(fn, c[2].get('obj', -1)) == 'my_waitset']
        if not adds:
            raise AnalysisBroken('prepare_wait: my_waitset.add not found')
        for pos, s, node, d in adds:
            rep.ob('D1', 'K5', fn, 'the waiter is added to the wait set under the monitor mutex', bool(before.get(pos, frozenset()) & mon_locks),
                   'my_waitset.add outside my_mutex', ln=node['ln'])
            ok, wit = every_path_passes(fn, pos, lambda p, e: fence(fn, p, e))
            rep.ob('D1', 'K2', fn, 'a full fence follows the registration on every path out of prepare_wait', ok,
                   'the waiter can re-check its condition before its registration is visible to a notifier (lost wake-up): ' + wit,
                   ln=node['ln'])
        ep = [(p, s, n, k) for p, s, n, k in member_accesses(fn, ('my_epoch',)) if k == 'read']
        for pos, s, node, k in ep:
            rep.ob('D1', 'K5', fn, 'the epoch snapshot is taken under the monitor mutex', bool(before.get(pos, frozenset()) & mon_locks),
                   'node.my_epoch is sampled outside my_mutex', ln=node['ln'])
    for name in ('notify_one', 'notify_all', 'notify', 'abort_all'):
        for fn in facts.get(MON + name):
            rel = calls_named(fn, (name + '_relaxed',))
            if not rel:
                raise AnalysisBroken('%s does not delegate to %s_relaxed' % (name, name))
            for pos, s, node, d in rel:
                ok, wit = every_path_passes(fn, 'entry', lambda p, e: fence(fn, p, e), end=pos)
                rep.ob('D1', 'K2', fn, '%s() issues a full fence before looking at the wait set' % name, ok,
                       'the notifier can read an empty wait set although a waiter registered before checking the condition: ' + wit)
    nrel = 0
    for name in ('notify_one_relaxed', 'notify_all_relaxed', 'notify_relaxed', 'abort_all_relaxed'):
        for fn in facts.get(MON + name):
            nrel += 1
            before, info = lockset(fn, LOCKCLS)
            mon_locks = set(v for v, i in info.items() if i['mutex'] == 'my_mutex')
            if not mon_locks:
                rep.ob('D1', 'K5', fn, 'the relaxed notifier takes the monitor mutex', False, 'no scoped lock on my_mutex')
                continue
            deq = [c for c in calls_named(fn, ('remove', 'flush_to')) if last_member(fn, c[2].get('obj', -1)) == 'my_waitset']
            for pos, s, node, d in deq:
                rep.ob('D1', 'K5', fn, 'nodes are dequeued under the monitor mutex (%s)' % d['n'],
                       bool(before.get(pos, frozenset()) & mon_locks), 'my_waitset.%s outside my_mutex' % d['n'], ln=node['ln'],
                       key_extra=str(node['ln']))
            if not deq:
                rep.ob('D1', 'K5', fn, 'the relaxed notifier dequeues waiters', False, 'no remove/flush_to on my_waitset')
            for pos, op in atomics_on(fn, 'my_epoch', kinds=('store', 'rmw')):
                rep.ob('D1', 'K5', fn, 'the epoch is bumped under the monitor mutex', bool(before.get(pos, frozenset()) & mon_locks),
                       'my_epoch changed outside my_mutex', ln=op['ln'])
            if not atomics_on(fn, 'my_epoch', kinds=('store', 'rmw')):
                rep.ob('D1', 'K4', fn, 'the relaxed notifier bumps the epoch', False,
                       'a waiter between prepare_wait and commit_wait would not notice the notification')
            for pos, op in atomics_on(fn, 'my_is_in_list', kinds=('store',)):
                rep.ob('D1', 'K5', fn, 'my_is_in_list is cleared under the monitor mutex', bool(before.get(pos, frozenset()) & mon_locks),
                       'in-list flag changed outside my_mutex', ln=op['ln'], key_extra=str(op['ln']))
            # a dequeued node can reach notify(), and notify() runs outside the lock
            nts = [c for c in calls_named(fn, ('notify',)) if c[3].get('cls', '').endswith('wait_node')]
            ok = bool(nts) and all(any(fn.can_reach(dp, np_) for np_, _, _, _ in nts) for dp, _, _, _ in deq)
            rep.ob('D1', 'K4', fn, 'dequeued nodes are handed to wait_node::notify()', ok,
                   'a waiter removed from the wait set is never woken')
            for pos, s, node, d in nts:
                rep.ob('D1', 'K5', fn, 'notify() is called after the monitor mutex was released',
                       not (before.get(pos, frozenset()) & mon_locks), 'semaphore V() under my_mutex', ln=node['ln'])
    for fn in facts.get(MON + 'commit_wait'):
        defs = Defs(fn)
        ws = [c for c in calls_named(fn, ('wait',)) if c[3].get('cls', '').endswith('wait_node')]
        if not ws:
            raise AnalysisBroken('commit_wait: node.wait() not found')

        def is_epoch_eq(a, truth):
            src = fn.n(fn.strip(resolve_cond_source(fn, defs, a)))
            if src.get('k') != 'binop' or src['op'] not in ('==', '!='):
                return False
            has_epoch = any(fn.nodes[x].get('k') == 'member' and fn.nodes[x]['n'] == 'my_epoch' for x in fn.subtree(src['s']))
            return has_epoch and (truth == (src['op'] == '=='))
        eq_edges = edges_where(fn, is_epoch_eq)
        for pos, s, node, d in ws:
            ok, wit = dominated_by_edges(fn, pos, eq_edges)
            rep.ob('D1', 'K4', fn, 'the thread sleeps only if the epoch is unchanged since prepare_wait', ok,
                   'commit_wait sleeps although a notification happened after prepare_wait: ' + wit, ln=node['ln'])
    for fn in facts.get(MON + 'cancel_wait'):
        before, info = lockset(fn, LOCKCLS)
        mon_locks = set(v for v, i in info.items() if i['mutex'] == 'my_mutex')
        for pos, s, node, d in [c for c in calls_named(fn, ('remove',)) if last_member(fn, c[2].get('obj', -1)) == 'my_waitset']:
            rep.ob('D1', 'K5', fn, 'cancel_wait removes the node under the monitor mutex', bool(before.get(pos, frozenset()) & mon_locks),
                   'my_waitset.remove outside my_mutex', ln=node['ln'])
    # layer below: the monitor mutex
    for fn in facts.get(R1 + 'concurrent_monitor_mutex::unlock'):
        ops = atomic_ops(fn)
        rel = [(p, o) for p, o in ops if last_member(fn, o['obj']) == 'my_flag' and o['kind'] in ('store', 'rmw', 'cas')]
        rd = [(p, o) for p, o in ops if last_member(fn, o['obj']) == 'my_waiters' and o['kind'] == 'load']
        ok = bool(rel) and bool(rd) and all(is_full_fence(o) for _, o in rel) and \
            all(every_path_passes(fn, 'entry', lambda p, e: isinstance(e, int) and is_full_fence(atomic_op(fn, e)), end=rp)[0] for rp, _ in rd)
        rep.ob('D1', 'K2', fn, 'monitor mutex unlock: seq_cst RMW on the flag before the waiter count is read', ok,
               'unlock can miss a waiter that incremented my_waiters and then saw the flag still set: ' +
               ', '.join('%s.%s(%s)' % (o['path'], o['name'], oname(o['order'])) for _, o in ops))
        wk = calls_named(fn, ('wakeup',))
        rep.ob('D1', 'K4', fn, 'monitor mutex unlock wakes a waiter when the waiter count is non-zero', bool(wk), 'no wakeup() call')
    for fn in facts.get(R1 + 'concurrent_monitor_mutex::lock'):
        inc = [(p, o) for p, o in atomic_ops(fn) if last_member(fn, o['obj']) == 'my_waiters' and o['kind'] == 'rmw' and
               o['name'] in ('operator++', 'fetch_add')]
        wt = calls_named(fn, ('wait',))
        ok = bool(inc) and bool(wt) and all(is_full_fence(o) for _, o in inc) and \
            all(every_path_passes(fn, 'entry', lambda p, e: p in set(q for q, _ in inc), end=wp)[0] for wp, _, _, _ in wt)
        rep.ob('D1', 'K2', fn, 'monitor mutex lock: waiter count is incremented (seq_cst RMW) before sleeping', ok,
               'a locker can sleep without being counted in my_waiters')
        acq = [(p, o) for p, o in atomic_ops(fn) if last_member(fn, o['obj']) == 'my_flag' and o['kind'] in ('rmw', 'cas')]
        rep.ob('D1', 'K1', fn, 'monitor mutex is taken by an atomic RMW on the flag', bool(acq), 'no exchange/CAS on my_flag')
    for fn in facts.get(R1 + 'binary_semaphore::V'):
        ops = [(p, o) for p, o in atomic_ops(fn) if last_member(fn, o['obj']) == 'my_sem']
        ok = bool(ops) and all(o['kind'] in ('rmw', 'cas', 'load') for _, o in ops) and any(o['kind'] == 'rmw' for _, o in ops)
        rep.ob('D1', 'K1', fn, 'futex semaphore V() changes the state by exchange', ok, ', '.join(o['name'] for _, o in ops))
        defs = Defs(fn)
        wk = calls_named(fn, ('futex_wakeup_one',))
        rmw_nodes = set(o['s'] for _, o in ops if o['kind'] == 'rmw')

        def two_edge(a, truth):
            src = fn.n(fn.strip(a))
            if src.get('k') != 'binop' or src['op'] not in ('==', '!='):
                return False
            vals = (fn.cv(src['l']), fn.cv(src['r']))
            other = src['l'] if vals[1] is not None else src['r']
            if 2 not in vals or not (fn.subtree(fn.strip(resolve_cond_source(fn, defs, other))) & rmw_nodes):
                return False
            return truth == (src['op'] == '==')
        e2 = edges_where(fn, two_edge)
        ok = bool(wk) and bool(e2) and all(dominated_by_edges(fn, p, e2)[0] for p, _, _, _ in wk) and \
            all(every_path_passes(fn, (fn.blocks[b]['succ'][si], -1), lambda q, e: is_call_to(fn, e, shortnames=('futex_wakeup_one',)))[0]
                for b, si in e2)
        rep.ob('D1', 'K4', fn, 'V() wakes the sleeper exactly when the old state was "closed, possible waits"', ok,
               'futex_wakeup_one is not tied to the old value 2 of the exchange')
    for fn in facts.get(R1 + 'binary_semaphore::P'):
        ops = [(p, o) for p, o in atomic_ops(fn) if last_member(fn, o['obj']) == 'my_sem' and o['kind'] in ('store', 'rmw', 'cas')]
        ok = bool(ops) and all(o['kind'] in ('rmw', 'cas') for _, o in ops)
        rep.ob('D1', 'K1', fn, 'futex semaphore P() changes the state only by CAS/exchange', ok, ', '.join(o['name'] for _, o in ops))
    for fn in facts.get(R1 + 'sleep_node::wait'):
        rep.ob('D1', 'K4', fn, 'sleep_node::wait blocks on the semaphore', bool(calls_named(fn, ('P',))), 'no P() call')
    for fn in facts.get(R1 + 'sleep_node::notify'):
        rep.ob('D1', 'K4', fn, 'sleep_node::notify posts the semaphore', bool(calls_named(fn, ('V',))), 'no V() call')
    rep.floor('D1', 30, 'monitor protocol obligations')


def d2_typestate(facts, rep):
    sites = 0
    for fname in (MON + 'wait', R1 + 'task_arena_impl::execute'):
        for fn in facts.get(fname):
            pw = calls_named(fn, ('prepare_wait',))
            if not pw:
                raise AnalysisBroken('%s: prepare_wait call vanished' % fname)
            pwp = set(p for p, _, _, _ in pw)
            for pos, s, node, d in pw:
                sites += 1

                def stop(p, e):
                    return is_call_to(fn, e, shortnames=('commit_wait', 'cancel_wait'))
                reached, exitr, par = fn.walk(pos, stop_elem=stop)
                again = [q for q in reached if q in pwp and not stop(q, fn.elems(q[0])[q[1]])]
                ok = not exitr and not again
                rep.ob('D2', 'K3', fn, 'prepare_wait at line %s is followed by commit_wait or cancel_wait on every path' % node['ln'], ok,
                       'the thread leaves with its node still in the wait set (%s): a later notify_one wakes a thread that is not '
                       'waiting and the real waiter sleeps forever' % ('function exit reached' if exitr else 'prepare_wait repeated'),
                       ln=node['ln'], key_extra=str(node['ln']))
    for fn in facts.get(MON + 'guarded_call'):
        # exceptional path: the predicate runs under try_call(...).on_exception(cancel_wait)
        oe = calls_named(fn, ('on_exception',))
        lam_ok = False
        for pos, s, node, d in oe:
            for a in node.get('a', []):
                for x in fn.subtree(a):
                    if fn.nodes[x].get('k') == 'lambda':
                        g = facts.fns.get(fn.nodes[x].get('fn'))
                        if g is not None and calls_named(g, ('cancel_wait',)):
                            lam_ok = True
        rep.ob('D2', 'K3', fn, 'a throwing wait predicate cancels the wait', lam_ok,
               'guarded_call no longer cancels the prepared wait when the predicate throws')
    rep.floor('D2', 4, 'prepare_wait call sites')


NOTIFY_RELAXED = ('notify_by_address', 'notify_by_address_all', 'notify_by_address_one', 'notify_one_relaxed',
                  'notify_all_relaxed', 'notify_relaxed', 'abort_all_relaxed')


def d3_relaxed_notify(facts, rep, fence):
    n = 0
    for fn in list(facts.fns.values()):
        if not (fn.file.endswith('mutex.h') or fn.file.endswith('rw_mutex.h') or fn.file.endswith('_waitable_atomic.h') or
                fn.file.endswith('concurrent_queue.h') or '/src/tbb/' in fn.file):
            continue
        cs = calls_named(fn, NOTIFY_RELAXED)
        if not cs:
            continue
        # forwarding layers whose callers carry the obligation
        if fn.p.startswith(MON) or fn.p in (R1 + 'notify_by_address', R1 + 'notify_by_address_all', R1 + 'notify_by_address_one',
                                            D1 + 'waitable_atomic::notify_one_relaxed'):
            continue
        for pos, s, node, d in cs:
            n += 1
            ok, wit = every_path_passes(fn, 'entry', lambda p, e: fence(fn, p, e), end=pos)
            rep.ob('D3', 'K2', fn, 'relaxed notification %s() at line %s is preceded by a full fence' % (d['n'], node['ln']), ok,
                   'the notifier may read an empty waiter list although a waiter is about to sleep on the old state: ' + wit,
                   ln=node['ln'], key_extra=str(node['ln']))
    rep.floor('D3', 5, 'relaxed notify call sites (mutex::unlock, rw_mutex x6)')


def d4_release_notify(facts, rep):
    # mutex / rw_mutex: every release path notifies
    for fname, names in ((D1 + 'mutex::unlock', ('notify_one_relaxed',)),
                         (D1 + 'rw_mutex::unlock', ('notify_by_address', 'notify_by_address_all')),
                         (D1 + 'rw_mutex::unlock_shared', ('notify_by_address', 'notify_by_address_all'))):
        for fn in facts.get(fname):
            ok, wit = every_path_passes(fn, 'entry', lambda p, e: is_call_to(fn, e, shortnames=names))
            rep.ob('D4', 'K4', fn, 'every path through the release notifies the sleepers', ok, wit)
    rw_downgrade_wakes_all(facts, rep, 'D4')
    # bounded queue
    bq = D2 + 'concurrent_bounded_queue::'
    for name, what in (('internal_push', 'push'), ('internal_push_if_not_full', 'push')):
        for fn in facts.get(bq + name):
            pushes = [c for c in calls_named(fn, ('push',)) if c[3].get('cls', '').endswith('micro_queue')]
            if not pushes:
                raise AnalysisBroken('%s: micro_queue::push call not found' % name)
            for pos, s, node, d in pushes:
                ok, wit = every_path_passes(fn, pos, lambda p, e: is_call_to(fn, e, shortnames=('notify_bounded_queue_monitor',)))
                rep.ob('D4', 'K4', fn, 'a completed push notifies the consumers', ok, 'blocked pop() is never woken: ' + wit)
    for fn in facts.get(bq + 'internal_pop'):
        # the function exit is only reached through the notification
        ok, wit = every_path_passes(fn, 'entry', lambda p, e: is_call_to(fn, e, shortnames=('notify_bounded_queue_monitor',)))
        rep.ob('D4', 'K4', fn, 'a completed pop notifies the producers', ok, 'blocked push() is never woken: ' + wit)
    for fn in facts.get(bq + 'internal_pop_if_present'):
        defs = Defs(fn)
        nt = calls_named(fn, ('notify_bounded_queue_monitor',))
        rep.ob('D4', 'K4', fn, 'a successful try_pop notifies the producers', bool(nt), 'no notification after try_pop')
        # return of a true value must have passed the notification: every path on the `present` true edge notifies
        from engine.rules import returned_vars, is_var
        rv = returned_vars(fn)       # the success flag is the variable that the function returns
        pres = edges_where(fn, lambda a, truth: truth and is_var(fn, a, rv))
        ok = bool(pres) and all(every_path_passes(fn, (fn.blocks[b]['succ'][si], -1),
                                                  lambda q, e: is_call_to(fn, e, shortnames=('notify_bounded_queue_monitor',)))[0]
                                for b, si in pres)
        rep.ob('D4', 'K4', fn, 'the success branch of try_pop always notifies', ok, 'success path without notification')
    bounded_queue_skipped_tickets(facts, rep, 'D4')
    # delegated_task::finalize order
    for fn in facts.get(R1 + 'delegated_task::finalize'):
        rel = calls_named(fn, ('release',))
        nt = calls_named(fn, ('notify',))
        st = atomics_on(fn, 'm_completed', kinds=('store',))
        ok = bool(rel) and bool(nt) and bool(st) and \
            all(every_path_passes(fn, 'entry', lambda p, e: p in set(x[0] for x in rel), end=np_)[0] for np_, _, _, _ in nt) and \
            all(every_path_passes(fn, 'entry', lambda p, e: p in set(x[0] for x in nt), end=sp)[0] for sp, _ in st) and \
            all(has_release(o['order'] or 0) for _, o in st)
        rep.ob('D4', 'K4', fn, 'delegated_task::finalize: release, then notify, then m_completed (release store)', ok,
               'order of wait release / monitor notify / completion flag changed')
    for fn in facts.get(R1 + 'delegated_task::~delegated_task', required=False) or facts.get(R1 + 'delegated_task::(dtor)'):
        w = calls_named(fn, ('spin_wait_until_eq',))
        rep.ob('D4', 'K4', fn, 'the delegated task is not destroyed before m_completed is set', bool(w), 'destructor no longer waits')
    for fn in facts.get(R1 + 'nested_arena_context::(dtor)'):
        rel = [c for c in calls_named(fn, ('release',)) if c[3].get('cls', '').endswith('arena_slot')]
        nt = [c for c in calls_named(fn, ('notify_one',))]
        ok = bool(rel) and bool(nt) and all(any(fn.can_reach(rp, np_) for np_, _, _, _ in nt) for rp, _, _, _ in rel) and \
            all(every_path_passes(fn, rp, lambda p, e: is_call_to(fn, e, shortnames=('notify_one',)))[0] for rp, _, _, _ in rel)
        rep.ob('D4', 'K4', fn, 'leaving a nested arena releases the slot and then notifies the exit monitor', ok,
               'a thread waiting for a free slot in task_arena::execute is not woken when a slot is released')
    for fn in facts.get(R1 + 'task_arena_impl::execute'):
        # A thread that registered on the exit monitor may have been chosen by a leaving thread's notify_one() (from
        # prepare_wait on it is in the wait set).  If it leaves without having occupied a slot it must pass the wake-up on,
        # unconditionally: every path from prepare_wait to the function exit passes notify_one/notify_all, or an edge on which
        # occupy_free_slot is known to have succeeded (then leaving the nested arena notifies, see above).
        from engine.rules import vars_initialised_from, is_var
        defs = Defs(fn)
        pw = calls_named(fn, ('prepare_wait',))
        occ = [c[1] for c in calls_named(fn, ('occupy_free_slot',))]
        slot_vars = set(vars_initialised_from(fn, occ))
        # copies of the result (`index2 = slot`)
        changed = True
        while changed:
            changed = False
            for (vid, dn), val in defs.value_of.items():
                if val is not None and vid not in slot_vars and fn.n(fn.strip(val)).get('k') == 'var' and fn.n(fn.strip(val)).get('v') in slot_vars:
                    slot_vars.add(vid)
                    changed = True
        if not pw or not slot_vars:
            raise AnalysisBroken('task_arena_impl::execute: prepare_wait / occupy_free_slot result not found')

        def occupied(a, truth):
            n = fn.n(fn.strip(a))
            if n.get('k') != 'binop' or n['op'] not in ('==', '!='):
                return False
            sides = [fn.n(fn.strip(n['l'])), fn.n(fn.strip(n['r']))]
            has_slot = any(x.get('k') == 'var' and x.get('v') in slot_vars for x in sides)
            has_out = any(x.get('n') == 'out_of_arena' for x in sides)
            return has_slot and has_out and ((n['op'] == '!=') == truth)
        occ_edges = edges_where(fn, occupied)
        for pos, s, node, d in pw:
            ok, wit = every_path_passes(fn, pos, lambda p, e: is_call_to(fn, e, shortnames=('notify_one', 'notify_all')),
                                        stop_edge=lambda b, si: (b, si) in occ_edges)
            rep.ob('D4', 'K4', fn, 'execute() passes the wake-up on whenever it leaves the slot wait without a slot', ok,
                   'a registered waiter can leave without a slot and without notify_one(): a wake-up it absorbed is lost and the next '
                   'waiter sleeps although a slot is free: ' + wit, ln=node['ln'])
    rep.floor('D4', 10, 'release/notify sites')


def d5_agreement(facts, rep):
    bq = D2 + 'concurrent_bounded_queue::'

    def tags(fn, callname, argidx):
        out = []
        for pos, s, node, d in calls_named(fn, (callname,)):
            a = node.get('a', [])
            if len(a) > argidx:
                n = fn.n(fn.strip(a[argidx]))
                out.append((n.get('n') or n.get('glob') or fn.path(a[argidx]), fn.cv(a[argidx])))
        return out

    def tag_of(facts, name):
        return name
    waits, notes = {}, {}
    for name in ('internal_push', 'internal_push_if_not_full', 'internal_pop', 'internal_pop_if_present'):
        for fn in facts.get(bq + name):
            notes.setdefault(name, set()).update(t[0] for t in tags(fn, 'notify_bounded_queue_monitor', 1))
            # the wait is issued from a lambda inside try_call
            for g in facts.fns.values():
                if g.kind == 'lambda' and g.d.get('lparent') == fn.u:
                    waits.setdefault(name, set()).update(t[0] for t in tags(g, 'internal_wait', 1))
            waits.setdefault(name, set()).update(t[0] for t in tags(fn, 'internal_wait', 1))
    fnp = facts.get(bq + 'internal_push')[0]
    fnq = facts.get(bq + 'internal_pop')[0]
    rep.ob('D5', 'K10', fnp, 'push waits for slots and notifies items',
           waits.get('internal_push') == {'cbq_slots_avail_tag'} and notes.get('internal_push') == {'cbq_items_avail_tag'} and
           notes.get('internal_push_if_not_full') == {'cbq_items_avail_tag'},
           'push: waits on %s, notifies %s / %s' % (waits.get('internal_push'), notes.get('internal_push'),
                                                     notes.get('internal_push_if_not_full')))
    rep.ob('D5', 'K10', fnq, 'pop waits for items and notifies slots',
           waits.get('internal_pop') == {'cbq_items_avail_tag'} and notes.get('internal_pop') == {'cbq_slots_avail_tag'} and
           notes.get('internal_pop_if_present') == {'cbq_slots_avail_tag'},
           'pop: waits on %s, notifies %s / %s' % (waits.get('internal_pop'), notes.get('internal_pop'),
                                                    notes.get('internal_pop_if_present')))
    for fn in facts.get(bq + 'internal_abort'):
        inc = [(p, o) for p, o in atomics_on(fn, 'my_abort_counter', kinds=('rmw', 'store'))]
        ab = calls_named(fn, ('abort_bounded_queue_monitors',))
        ok = bool(inc) and bool(ab) and all(every_path_passes(fn, 'entry', lambda p, e: p in set(q for q, _ in inc), end=ap)[0]
                                            for ap, _, _, _ in ab)
        rep.ob('D5', 'K4', fn, 'abort bumps the abort counter before waking the blocked threads', ok,
               'woken threads re-check an unchanged abort counter and go back to sleep')
    for fn in facts.get(R1 + 'abort_bounded_queue_monitors'):
        ab = calls_named(fn, ('abort_all',))
        rep.ob('D5', 'K8', fn, 'abort wakes both monitors (items and slots)', len(ab) >= 2, '%d abort_all call(s)' % len(ab))
    for fn in facts.get(R1 + 'external_waiter::pause'):
        sl = calls_named(fn, ('sleep',))
        ok = bool(sl) and all(any(fn.nodes[x].get('k') == 'member' and fn.nodes[x]['n'] == 'my_wait_ctx'
                                  for x in fn.subtree(c[2]['a'][0])) for c in sl if c[2].get('a'))
        rep.ob('D5', 'K10', fn, 'the external waiter sleeps under the address of its wait context', ok,
               'sleep tag is not derived from my_wait_ctx')
    for fn in facts.get(R1 + 'notify_waiters'):
        nt = calls_named(fn, ('notify',))
        rep.ob('D5', 'K10', fn, 'notify_waiters wakes by wait-context address', bool(nt), 'no monitor notify')
    bounded_queue_predicate(facts, rep, 'D5')
    rep.floor('D5', 7, 'tag agreement + wake-up predicate')


def d6_advertise(facts, rep, fence):
    advs = facts.get(R1 + 'arena::advertise_new_work')
    kinds = set()
    for fn in advs:
        q = fn.q
        spawned = 'work_spawned' in q or q.endswith('<0>') or '(tbb::detail::r1::arena::new_work_type)0' in q
        kinds.add(q[q.find('<'):])
        ts = [c for c in calls_named(fn, ('test_and_set',)) if last_member(fn, c[2].get('obj', -1)) == 'my_pool_state']
        if not ts:
            raise AnalysisBroken('advertise_new_work: my_pool_state.test_and_set not found')
        if not spawned:
            for pos, s, node, d in ts:
                ok, wit = every_path_passes(fn, 'entry', lambda p, e: fence(fn, p, e), end=pos)
                rep.ob('D6', 'K2', fn, 'non-spawn advertisement issues a full fence before reading the pool state', ok,
                       'an enqueued/woken task can be missed by a thread that is deciding to leave: ' + wit, key_extra=q[-12:])
        rw = calls_named(fn, ('request_workers',))
        ok = bool(rw) and all(fn.cv(c[2]['a'][2]) == 1 for c in rw if len(c[2].get('a', [])) >= 3)
        rep.ob('D6', 'K4', fn, 'a successful state flip requests workers and wakes sleeping threads', ok,
               'request_workers(..., wakeup_threads=true) missing', key_extra=q[-12:])
    for fn in facts.get(R1 + 'atomic_flag::test_and_set') + facts.get(R1 + 'atomic_flag::try_clear_if'):
        ws = [(p, o) for p, o in atomic_ops(fn) if o['kind'] in ('store', 'rmw', 'cas')]
        ok = bool(ws) and all(o['kind'] in ('cas', 'rmw') for _, o in ws)
        rep.ob('D6', 'K1', fn, 'the pool-state flag changes only by atomic RMW', ok, ', '.join(o['name'] for _, o in ws))
    # work is pushed before it is advertised
    for fname, pushnames in ((R1 + 'arena::enqueue_task', ('push',)), (R1 + 'submit', ('push', 'spawn')),
                             (R1 + 'spawn_and_notify', ('spawn',)), (R1 + 'resume', ('push',))):
        for fn in facts.get(fname):
            adv = calls_named(fn, ('advertise_new_work',))
            pu = calls_named(fn, pushnames)
            if not adv or not pu:
                raise AnalysisBroken('%s: push/advertise calls not found' % fname)
            pup = set(p for p, _, _, _ in pu)
            for pos, s, node, d in adv:
                ok, wit = every_path_passes(fn, 'entry', lambda p, e: p in pup, end=pos)
                rep.ob('D6', 'K4', fn, 'the task is made visible before the work is advertised', ok,
                       'workers are woken before the task can be found; they leave again and nobody wakes them later: ' + wit,
                       ln=node['ln'], key_extra=str(node['ln']))
            for pos, s, node, d in pu:
                ok, wit = every_path_passes(fn, pos, lambda p, e: is_call_to(fn, e, shortnames=('advertise_new_work',)))
                rep.ob('D6', 'K4', fn, 'every submitted task is advertised', ok, wit, ln=node['ln'], key_extra='a' + str(node['ln']))
    for fn in facts.get(R1 + 'arena::out_of_work'):
        tc = calls_named(fn, ('try_clear_if',))
        preds = {}
        for pos, s, node, d in tc:
            flag = last_member(fn, node.get('obj', -1))
            for a in node.get('a', []):
                for x in fn.subtree(a):
                    if fn.nodes[x].get('k') == 'lambda':
                        g = facts.fns.get(fn.nodes[x].get('fn'))
                        if g is not None:
                            preds[flag] = set(c[3]['n'] for c in calls(g))
        ok = 'has_tasks' in preds.get('my_pool_state', ()) and 'has_enqueued_tasks' in preds.get('my_mandatory_concurrency', ())
        rep.ob('D6', 'K4', fn, 'out_of_work clears the flags only through the has_tasks / has_enqueued_tasks predicates', ok,
               'predicates used: %s' % preds)
        ws = [x for x in member_accesses(fn, ('my_pool_state', 'my_mandatory_concurrency')) if x[3] in ('write',)]
        rep.ob('D6', 'K1', fn, 'no plain store to the pool-state flags', not ws, 'direct assignment to a flag')
    for fn in facts.get(R1 + 'arena::has_tasks'):
        src = set()
        for pos, s, node in fn.stmt_elems(('member',)):
            src.add(node['n'])
        called = set(c[3]['n'] for c in calls(fn))
        need_members = {'my_slots', 'my_resume_task_stream'}
        ok = need_members <= src and 'has_enqueued_tasks' in called
        crit = [f for f in facts.get(R1 + 'arena::get_critical_task', required=False)]
        if crit:
            ok = ok and 'my_critical_task_stream' in src
        rep.ob('D6', 'K8', fn, 'has_tasks consults every task source (slots, fifo, resume, critical streams)', ok,
               'sources read: %s, calls: %s' % (sorted(src), sorted(called)))
    for fn in facts.get(R1 + 'arena::request_workers'):
        nt = calls_named(fn, ('notify',))
        rep.ob('D6', 'K4', fn, 'request_workers(wakeup_threads) notifies the arena\'s sleeping threads', bool(nt), 'monitor notify removed')
    rep.floor('D6', 14, 'advertise / push-before-advertise / out_of_work')


def d7_sleep_list(facts, rep):
    n = 0
    for fn in facts.find(r'^tbb::detail::r1::rml::private_server::(try_insert_in_asleep_list|wake_some)$'):
        before, info = lockset(fn, LOCKCLS)
        locks = set(v for v, i in info.items() if i['mutex'] == 'my_asleep_list_mutex')
        for pos, op in atomics_on(fn, 'my_asleep_list_root'):
            n += 1
            rep.ob('D7', 'K5', fn, 'the asleep list root is accessed under my_asleep_list_mutex (line %s)' % op['ln'],
                   bool(before.get(pos, frozenset()) & locks), 'my_asleep_list_root.%s outside the list mutex' % op['name'],
                   ln=op['ln'], key_extra=str(op['ln']))
        if fn.p.endswith('try_insert_in_asleep_list'):
            cas = [(p, o) for p, o in atomics_on(fn, 'my_slack', kinds=('cas', 'rmw'))]
            st = [(p, o) for p, o in atomics_on(fn, 'my_asleep_list_root', kinds=('store',))]
            ok = bool(cas) and bool(st) and all(before.get(p, frozenset()) & locks for p, _ in cas)
            rep.ob('D7', 'K5', fn, 'slack is contributed under the same lock scope that inserts the worker', ok,
                   'a waker can take the slack unit and find the list empty')
    for fn in facts.get(R1 + 'rml::private_worker::run'):
        lds = atomics_on(fn, 'my_state', kinds=('load',))
        ok = bool(lds) and any(o['order'] == SEQ_CST for _, o in lds)
        rep.ob('D7', 'K1', fn, 'the worker loop re-reads my_state with seq_cst', ok, ', '.join(oname(o['order']) for _, o in lds))
    # worker life-cycle word: only exchanged / compare-exchanged after construction, launch only by the CAS winner
    for fn in facts.find(r'^tbb::detail::r1::rml::private_worker::(start_shutdown|wake_or_launch|run)$'):
        ws = atomics_on(fn, 'my_state', kinds=('store', 'rmw', 'cas'))
        if fn.p.endswith('::run'):
            rep.ob('D7', 'K1', fn, 'the worker loop never writes its own life-cycle state', not ws, 'my_state written in run()')
            continue
        rep.ob('D7', 'K1', fn, 'the worker life-cycle state changes only by exchange / compare-exchange', bool(ws) and all(o['kind'] in ('rmw', 'cas') for _, o in ws),
               'my_state %s: a shutdown racing a launch can lose the quit request (worker sleeps forever) or launch twice' % ', '.join(o['name'] for _, o in ws))
        if fn.p.endswith('wake_or_launch'):
            cas = [o for _, o in ws if o['kind'] == 'cas']
            casn = set(o['s'] for o in cas)
            won = edges_where(fn, lambda a, truth: truth and fn.strip(a) in casn)
            la = calls_named(fn, ('launch',))
            ok = bool(la) and bool(won) and all(dominated_by_edges(fn, c[0], won)[0] for c in la)
            rep.ob('D7', 'K4', fn, 'a worker thread is launched only by the thread that won the init->starting CAS', ok, 'two launches of one worker')
            nt = calls_named(fn, ('notify',))
            rep.ob('D7', 'K4', fn, 'an already running worker is woken through its thread monitor', bool(nt), 'no notify for running workers')
    for fn in facts.get(R1 + 'rml::private_worker::start_shutdown'):
        nt = calls_named(fn, ('notify',))
        xs = [p for p, o in atomics_on(fn, 'my_state', kinds=('rmw',))]
        ok = bool(nt) and bool(xs) and all(every_path_passes(fn, 'entry', lambda p, e: p in set(xs), end=c[0])[0] for c in nt)
        rep.ob('D7', 'K4', fn, 'shutdown publishes st_quit before it wakes the worker', ok, 'worker woken before the quit state is visible: it goes back to sleep')
    for fname in (R1 + 'thread_request_serializer::update', R1 + 'thread_request_serializer::set_active_num_workers'):
        for fn in facts.get(fname):
            before, info = lockset(fn, LOCKCLS)
            locks = set(v for v, i in info.items() if i['mutex'] == 'my_mutex')
            for pos, s, node, k in member_accesses(fn, ('my_total_request', 'my_soft_limit')):
                if k in ('addr', 'other'):
                    continue
                n += 1
                rep.ob('D7', 'K5', fn, '%s is accessed under the serializer mutex (line %s)' % (node['n'], node['ln']),
                       bool(before.get(pos, frozenset()) & locks), '%s touched outside my_mutex' % node['n'], ln=node['ln'],
                       key_extra=str(node['ln']) + node['n'])
    serializer_request_word(facts, rep)
    market_mandatory_allotment(facts, rep)
    d7_soft_limit_zero_keeps_registered_mandatory_requests(facts, rep)
    for name in ('enable_mandatory_concurrency', 'disable_mandatory_concurrency'):
        for fn in facts.get(R1 + 'thread_request_serializer_proxy::' + name):
            up = calls_named(fn, ('upgrade_to_writer',))
            sets = calls_named(fn, ('set_active_num_workers',))
            rd = atomics_on(fn, 'my_num_mandatory_requests', kinds=('load',))
            ok = bool(up) and bool(sets) and bool(rd) and \
                all(every_path_passes(fn, 'entry', lambda p, e: p in set(x[0] for x in up), end=rp)[0] for rp, _ in rd) and \
                all(every_path_passes(fn, 'entry', lambda p, e: p in set(q for q, _ in rd), end=sp)[0] for sp, _, _, _ in sets)
            rep.ob('D7', 'K4', fn, 'mandatory concurrency is re-checked after the upgrade to writer', ok,
                   'the decision is taken on a state read before the lock was (re)acquired exclusively')
    rep.floor('D7', 10, 'sleep list / serializer')


def bounded_queue_predicate(facts, rep, clause):
    # tickets are not completed one by one: a push whose constructor throws or that is aborted consumes its ticket without a
    # notification, a pop skips invalid entries and notifies only with the last ticket.  The wake-up predicate must therefore be
    # downward closed: notify(T) wakes every sleeper whose ticket is <= T, never only the sleeper with ticket == T.
    for fn in facts.get(R1 + 'notify_bounded_queue_monitor'):
        nts = [c for c in calls_named(fn, ('notify',))]
        found = False
        for pos, sx, node, d in nts:
            for a in node.get('a', []):
                for x in fn.subtree(a):
                    nd = fn.nodes[x]
                    if nd.get('k') != 'ctor':
                        continue
                    cls = nd.get('cls')
                    for g in facts.fns.values():
                        if g.cls == cls and g.d.get('n', g.p.split('::')[-1]) in ('operator()',) or (g.cls == cls and g.p.endswith('::operator()')):
                            rets = [n_ for p_, s_, n_ in g.stmt_elems(('return',)) if 'sub' in n_]
                            for rn in rets:
                                cmpn = g.n(g.strip(rn['sub']))
                                if cmpn.get('k') == 'binop':
                                    found = True
                                    rep.ob(clause, 'K10', g, 'the bounded-queue wake-up predicate wakes all sleepers at or below the notified ticket',
                                           cmpn['op'] in ('<=', '<'),
                                           'the predicate compares with `%s`: a sleeper whose own ticket was consumed by an invalid entry (throwing '
                                           'constructor, abort) or skipped by a pop is never woken' % cmpn['op'], ln=cmpn.get('ln'))
        if not found:
            raise AnalysisBroken('notify_bounded_queue_monitor: predicate functor with a comparison not found')


def bounded_queue_skipped_tickets(facts, rep, clause):
    """A consumer that claims a head ticket vacates that slot whatever the entry holds: an entry left invalid by a push that
    threw is skipped and the consumer claims the next ticket.  A producer blocked on the skipped slot (head_counter <= its
    target) has its condition satisfied by the claim, so it must be woken for the skipped ticket as well; otherwise - when
    `capacity` consecutive entries are invalid - the consumer goes on to wait for the item of exactly that sleeping producer.
    Rule: in the blocking pop and in the try-pop implementation reached from the bounded queue, no path leads from a
    successful claim of a head ticket to the next claim attempt without announcing the ticket to the slots monitor (directly,
    or through a functor parameter for which every bounded-queue call site passes a functor that does)."""
    bq = D2 + 'concurrent_bounded_queue::'

    def announces_here(f, e):
        if not isinstance(e, int) or f.nodes[e].get('k') != 'call':
            return False
        if is_call_to(f, e, shortnames=('notify_bounded_queue_monitor',)):
            a = f.nodes[e].get('a', [])
            if len(a) > 1:
                n = f.n(f.strip(a[1]))
                return (n.get('n') or n.get('glob') or '') == 'cbq_slots_avail_tag'
        return False

    def functor_announces(f, e, callers):
        """e calls a functor parameter of f; every caller in `callers` passes a lambda that announces"""
        nd = f.nodes[e]
        callee_obj = nd.get('obj', nd.get('fx', -1))
        if callee_obj is None or callee_obj < 0:
            return False
        on = f.n(f.strip(callee_obj))
        if on.get('k') != 'var' or 'param' not in on:
            return False
        idx = on['param']
        if not callers:
            return False
        for g, cnode in callers:
            args = cnode.get('a', [])
            if idx >= len(args):
                return False
            lam = [facts.fns.get(g.nodes[x].get('fn')) for x in g.subtree(args[idx]) if g.nodes[x].get('k') == 'lambda']
            lam = [x for x in lam if x is not None]
            if not lam or not all(every_path_passes(h, 'entry', lambda p, el, h=h: announces_here(h, el))[0] for h in lam):
                return False
        return True

    targets = []          # (function, [(caller fn, call node)])
    for fn in facts.get(bq + 'internal_pop'):
        targets.append((fn, []))
    for fn in facts.get(bq + 'internal_pop_if_present'):
        targets.append((fn, []))
        for pos, s, node, d in calls(fn):
            g = facts.fns.get(node.get('fn'))
            if g is not None and atomics_on(g, 'head_counter', kinds=('rmw', 'cas')):
                targets.append((g, [(fn, node)]))
    merged = {}
    for f, cs in targets:
        merged.setdefault(f.u, [f, []])[1].extend(cs)
    n = 0
    for u, (fn, callers) in sorted(merged.items()):
        claims = atomics_on(fn, 'head_counter', kinds=('rmw', 'cas'))
        claims = [(p, o) for p, o in claims if o['name'] not in ('operator--', 'fetch_sub')]
        if not claims:
            continue
        claim_pos = set(p for p, _ in claims)

        def announce(pos, e, fn=fn, callers=callers):
            if announces_here(fn, e):
                return True
            if isinstance(e, int) and fn.nodes[e].get('k') == 'call' and fn.nodes[e].get('op') == '()':
                return functor_announces(fn, e, callers)
            return False
        for cp, co in claims:
            starts = []
            if co['kind'] == 'cas':
                # the claim succeeded on the edges where the compare-exchange is known to be true
                for (b, si) in edges_where(fn, lambda a, truth, co=co: truth and fn.strip(a) == co['s']):
                    starts.append((fn.blocks[b]['succ'][si], -1))
            else:
                starts.append(cp)
            bad = None
            # path-sensitive in the local flags (`popped`): `if (!popped) announce(); ... while (!popped)` has no feasible
            # path from the claim back to the loop head that misses the announcement
            on_elem, on_edge = bool_vars_tracker(fn)

            def elem_tr(state, pos, e):
                if announce(pos, e):
                    return None                    # announced: this path is fine, stop exploring it
                return on_elem(state, e)
            for st in starts:
                visits, exits = product_walk_from(fn, st, (), elem_tr, on_edge)
                hit = sorted(set(q for q, _ in visits if q in claim_pos))
                if hit:
                    bad = 'claim at line %s reached again from the claim at line %s' % (
                        fn.nodes[fn.elems(hit[0][0])[hit[0][1]]].get('ln'), co['ln'])
            n += 1
            rep.ob(clause, 'K3', fn, 'a claimed head ticket is announced to the producers before the next ticket is claimed (line %s)' % co['ln'],
                   bad is None and bool(starts),
                   'when the claimed entry is invalid (left by a push that threw) the consumer goes on to the next ticket without waking the '
                   'producer that waits for the vacated slot: with `capacity` consecutive invalid entries producer and consumer wait for each '
                   'other forever (path: %s)' % bad, ln=co['ln'], key_extra='skip|%s|%s' % (fn.p, co['ln']))
    if n < 2:
        raise AnalysisBroken('bounded queue: head ticket claims not found (%d)' % n)
    # exceptional path: micro_queue::pop moves the item out with the user's assignment, which may throw after the pop finalizer
    # has been armed - the slot is vacated (the entry is destroyed, head_counter advances) but the function is left by the
    # exception.  The claim must be announced on that path too: the call sits under a guard / try_call handler that announces.
    from rules.C03 import try_call_sites
    m = 0
    for u, (fn, callers) in sorted(merged.items()):
        pops = [c for c in calls_named(fn, ('pop',)) if (c[3].get('cls') or '').endswith('micro_queue')]
        for pos, sx, node, d in pops:
            m += 1
            guarded = False
            for gpos, gs, gnode, gd in calls_named(fn, ('make_raii_guard',)):
                lam = [facts.fns.get(fn.nodes[x].get('fn')) for a in gnode.get('a', []) for x in fn.subtree(a) if fn.nodes[x].get('k') == 'lambda']
                lam = [h for h in lam if h is not None]
                ann = False
                for h in lam:
                    def h_announce(p_, e_, h=h):
                        if announces_here(h, e_):
                            return True
                        # a captured functor parameter of the enclosing function (skipped_ticket) called from the guard
                        if isinstance(e_, int) and h.nodes[e_].get('k') == 'call' and h.nodes[e_].get('op') == '()':
                            cap = h.n(h.strip(h.nodes[e_].get('obj', -1))) if h.nodes[e_].get('obj', -1) >= 0 else {}
                            nm = cap.get('n')
                            for pp in fn.d.get('params', []):
                                if pp.get('n') and pp['n'] == nm:
                                    idx = fn.d['params'].index(pp)
                                    ok_all = bool(callers)
                                    for g, cnode in callers:
                                        args = cnode.get('a', [])
                                        ls = [facts.fns.get(g.nodes[x].get('fn')) for x in (g.subtree(args[idx]) if idx < len(args) else [])
                                              if g.nodes[x].get('k') == 'lambda']
                                        ls = [z for z in ls if z is not None]
                                        if not ls or not all(every_path_passes(z, 'entry', lambda p2, e2, z=z: announces_here(z, e2))[0] for z in ls):
                                            ok_all = False
                                    return ok_all
                        return False
                    if every_path_passes(h, 'entry', h_announce)[0]:
                        ann = True
                if ann and every_path_passes(fn, 'entry', lambda p_, e_: p_ == gpos, end=pos)[0]:
                    guarded = True
            rep.ob(clause, 'K9', fn, 'the claimed ticket is announced even when moving the item out throws (line %s)' % node['ln'], guarded,
                   'micro_queue::pop runs the user\'s assignment; if it throws, the slot is vacated (entry destroyed, head_counter advanced) but '
                   'nobody tells the producers: a push blocked on the full queue stays blocked although the queue holds no item, and the next '
                   'consumer waits for that producer', ln=node['ln'], key_extra='skip-exc|%s|%s' % (fn.p, node['ln']))
    if m < 2:
        raise AnalysisBroken('bounded queue: micro_queue::pop call sites not found (%d)' % m)


def serializer_request_word(facts, rep):
    """thread_request_serializer::update(delta) packs the pending worker-request deltas into the low bits of one atomic word
    (biased by a base B so that negative sums fit, masked by M when the aggregating thread takes them) and counts the pending
    updates in the bits above.  A single delta is any value of its parameter type - an arena with N slots requests N-1 workers
    at once - so the field must hold B + delta for every such value: B >= 2^(W-1) and M >= 2B-1 for a W-bit signed delta.
    A delta that does not fit carries into the update counter, the decoded request is garbage (negative), no worker is
    requested or woken and the work enqueued into that arena never runs.  Likewise the old value of the word decides who
    aggregates: it must be compared in full width."""
    for fn in facts.get(R1 + 'thread_request_serializer::update'):
        adds = [(p, o) for p, o in atomics_on(fn, 'my_pending_delta', kinds=('rmw',)) if o['name'] in ('fetch_add', 'operator+=')]
        takes = [(p, o) for p, o in atomics_on(fn, 'my_pending_delta', kinds=('rmw',)) if o['name'] == 'exchange']
        if not adds or not takes:
            raise AnalysisBroken('thread_request_serializer::update: fetch_add / exchange on my_pending_delta not found')
        params = set(nd.get('v') for nd in fn.nodes if nd.get('k') == 'var' and 'param' in nd)
        W = None
        for p_, o in adds:
            for x in fn.subtree(o.get('val', -1)):
                nd = fn.nodes[x]
                if nd.get('k') == 'cast' and nd.get('from') and fn.n(fn.strip(nd['sub'])).get('k') == 'var' and \
                        fn.n(fn.strip(nd['sub'])).get('v') in params:
                    W = nd['from'][0]
                elif nd.get('k') == 'var' and nd.get('v') in params and W is None:
                    W = 64 if 'long' in (nd.get('ty') or '') else 32
        if W is None:
            raise AnalysisBroken('thread_request_serializer::update: the delta parameter does not feed the fetch_add')
        # decode: (exchange(...) & M) - B
        pm = fn.parent_map()
        M = B = None
        for p_, o in takes:
            par = pm.get(o['s'])
            for _ in range(4):
                if par is None:
                    break
                pn = fn.nodes[par]
                if pn.get('k') == 'binop' and pn['op'] == '&' and M is None:
                    M = fn.cv(pn['r']) if fn.cv(pn['r']) is not None else fn.cv(pn['l'])
                if pn.get('k') == 'binop' and pn['op'] == '-' and B is None:
                    B = fn.cv(pn['r'])
                par = pm.get(par)
        if M is None or B is None:
            raise AnalysisBroken('thread_request_serializer::update: mask / base of the decoded delta not found')
        need = 1 << (W - 1)
        rep.ob('D7', 'K14', fn, 'the pending-request field holds base + delta for every value of the %d-bit delta parameter' % W,
               B >= need and M >= 2 * B - 1,
               'base = %d, mask = %d: a single request of more than %d workers (task_arena(n) with n > %d) overflows into the update counter, the '
               'decoded request is negative, no worker is requested and work enqueued into that arena never runs' % (B, M, B - 1, B),
               key_extra='field')
        bad = []
        for p_, o in adds:
            par = pm.get(o['s'])
            for _ in range(3):
                if par is None:
                    break
                pn = fn.nodes[par]
                if pn.get('k') == 'cast' and pn.get('from') and pn.get('to') and pn['to'][0] < pn['from'][0]:
                    bad.append('line %s: %d -> %d bits' % (pn.get('ln'), pn['from'][0], pn['to'][0]))
                par = pm.get(par)
        rep.ob('D7', 'K14', fn, 'the previous value of the request word is examined in full width', not bad,
               'the word is truncated before it is compared with the base (%s): once the update counter reaches the truncated width a thread '
               'aggregates although another one still holds the critical section' % '; '.join(bad), key_extra='prev')


def market_mandatory_allotment(facts, rep):
    """With a worker soft limit of 0 (max_allowed_parallelism == 1, or one CPU) the only worker exists to serve enqueued work:
    market::update_allotment grants it to the first client that asks for a mandatory worker (min_workers() > 0) as long as
    the *total* budget is not used up.  The share of a priority level is computed from the ordinary demand of that level, which
    says nothing about who holds a mandatory request: if the grant is bounded by (anything derived from) a per-level quantity,
    a higher level with ordinary demand but no mandatory request uses the budget up and work enqueued into an arena of a lower
    level never runs.  Rule: on the paths from the `soft limit == 0` edge to the point where the allotment is handed to the
    client, no value in the backward slice of what is read there comes from an arithmetic per-level array of the market
    (subscripted member); the running total accumulated from the allotments themselves is taken as it is."""
    for fn in facts.get(R1 + 'market::update_allotment'):
        defs = Defs(fn)
        sets = [(pos, s, node) for pos, s, node, d in calls(fn) if (d or {}).get('n') == 'set_allotment']
        grant_vars = set()
        for pos, s, node in sets:
            for a in node.get('a', []):
                an = fn.n(fn.strip(a))
                if an.get('k') == 'var' and an.get('local'):
                    grant_vars.add(an['v'])

        def soft0(a, truth):
            nd = fn.n(fn.strip(a))
            if nd.get('k') != 'binop' or nd['op'] not in ('==', '!='):
                return False
            l, r = fn.strip(nd['l']), fn.strip(nd['r'])
            for x, y in ((l, r), (r, l)):
                if last_member(fn, x) == 'my_num_workers_soft_limit' and fn.cv(y) == 0:
                    return truth == (nd['op'] == '==')
            return False
        edges = edges_where(fn, soft0)
        if not sets or not grant_vars or not edges:
            raise AnalysisBroken('market::update_allotment: set_allotment(<local>) / the `my_num_workers_soft_limit == 0` branch not found')
        stop = lambda pos, e: isinstance(e, int) and any(e == s for _, s, _ in sets)   # noqa: E731
        region = None
        for (b0, si0) in sorted(edges):
            mand, _, _ = fn.walk((fn.blocks[b0]['succ'][si0], -1), stop_elem=stop)
            other, _, _ = fn.walk((fn.blocks[b0]['succ'][1 - si0], -1), stop_elem=stop)
            reg = sorted(mand - other)
            # the branch that decides the grant: a granted variable is assigned in it
            if any(isinstance(fn.blocks[p_[0]]['e'][p_[1]], int) and
                   any(v in grant_vars for (v, dn, val) in defs.defs_at.get(fn.blocks[p_[0]]['e'][p_[1]], [])) for p_ in reg):
                if region is not None:
                    raise AnalysisBroken('market::update_allotment: more than one soft-limit-0 branch assigns the allotment')
                region = reg
        if not region:
            raise AnalysisBroken('market::update_allotment: no soft-limit-0 branch assigns the allotment')
        # running totals: locals that are only ever initialised by a constant or advanced by a granted allotment
        totals = set()
        for (vid, dn), val in defs.value_of.items():
            nd = fn.nodes[dn] if dn >= 0 else {}
            if nd.get('k') == 'binop' and nd['op'] == '+=' and fn.n(fn.strip(nd['r'])).get('v') in grant_vars:
                totals.add(vid)
        for vid in list(totals):
            for (v2, dn), val in defs.value_of.items():
                if v2 != vid:
                    continue
                nd = fn.nodes[dn] if dn >= 0 else {}
                if nd.get('k') == 'decl':
                    if val is None or fn.cv(val) is None:
                        totals.discard(vid)
                elif not (nd.get('k') == 'binop' and nd['op'] == '+=' and fn.n(fn.strip(nd['r'])).get('v') in grant_vars):
                    totals.discard(vid)
        bad = []
        seen = set()
        work = []
        for pos in region:
            e = fn.blocks[pos[0]]['e'][pos[1]]
            if isinstance(e, int):
                work.append((e, pos))
        nreads = 0
        while work:
            root, pos = work.pop()
            for x in fn.subtree(root):
                nd = fn.nodes[x]
                k = nd.get('k')
                if k == 'index':
                    base = fn.n(fn.strip(nd['base']))
                    ty = base.get('ty') or ''
                    if base.get('k') == 'member' and base.get('cls', '').endswith('market') and '[' in ty and \
                            ty.split('[')[0].strip() in ('int', 'unsigned int', 'long', 'unsigned long', 'std::size_t', 'size_t', 'unsigned'):
                        bad.append('%s[...] (line %s)' % (base.get('n'), nd.get('ln')))
                if k == 'var' and nd.get('local') and 'fn' not in nd:
                    vid = nd['v']
                    if vid in totals or vid in grant_vars:
                        continue
                    p = fn.pos_of(x) or pos
                    for dn in (defs.reaching(p, vid) or []):
                        if dn < 0 or (vid, dn) in seen:
                            continue
                        seen.add((vid, dn))
                        nreads += 1
                        dpos = fn.pos_of(dn)
                        work.append((dn, dpos or p))
        rep.ob('D7', 'K10', fn, 'the mandatory worker is granted against the total budget, not against the share of a priority level',
               not bad, 'with a soft limit of 0 the grant depends on %s: a level with ordinary demand but no mandatory request uses the budget '
               'up, and work enqueued into an arena of a lower priority level never runs' % ', '.join(sorted(set(bad))),
               key_extra='mandatory')
        if nreads == 0:
            raise AnalysisBroken('market::update_allotment: nothing is read on the soft-limit-0 branch')


def d2_recheck_between_prepare_and_commit(facts, rep, clause='D2'):
    """The two-phase wait only closes the lost-wake-up window if every condition that can make the sleep unnecessary is evaluated
    AGAIN after the thread has registered itself (prepare_wait) and before it sleeps (commit_wait): a change that happens before the
    registration is announced to nobody, so it must be seen by the re-check.  For every wait loop (a cycle through commit_wait)
    of the analysed code: each condition that can leave the loop - identified by the call it tests, looking through local
    variables - has an evaluation on every path from prepare_wait to commit_wait.  task_arena::execute on a full arena waits
    for "the delegated task finished" and for "a slot became free"; testing the slot before registering loses the notification
    of a thread that leaves in between, and the caller sleeps although a slot is free: its functor never runs."""
    sites = 0
    for fn in sorted(facts.fns.values(), key=lambda f: f.q):
        if not fn.q.startswith('tbb::detail::r1::'):
            continue
        cw = calls_named(fn, ('commit_wait',))
        pw = calls_named(fn, ('prepare_wait',))
        if not cw or not pw:
            continue
        defs = Defs(fn)
        for cpos, cs, cnode, cd in cw:
            reached, ex, par = fn.walk(cpos)
            cyc = set(q for q in reached if fn.can_reach(q, cpos))
            if not cyc:
                continue            # a single wait, no loop: the typestate rule (prepare -> commit | cancel) covers it
            cyc.add(cpos)
            cyc_blocks = set(q[0] for q in cyc)
            # conditions that can leave the loop
            exits = {}
            for b in sorted(cyc_blocks):
                blk = fn.blocks[b]
                t = blk.get('term')
                if not t or 'c' not in t or len(blk['succ']) != 2:
                    continue
                leaves = [si for si in (0, 1) if blk['succ'][si] is not None and blk['succ'][si] not in cyc_blocks]
                if not leaves:
                    continue
                for a, truth in fn.cond_atoms(t['c'], True):
                    src = fn.strip(resolve_cond_source(fn, defs, a))
                    for x in fn.subtree(src) | fn.subtree(fn.strip(a)):
                        nd = fn.nodes[x]
                        if nd.get('k') == 'call' and (fn.callee(x) or {}).get('n') not in ('prepare_wait', 'commit_wait', 'cancel_wait'):
                            d = fn.callee(x) or {}
                            if d.get('n') and not (d.get('q') or '').startswith('std::'):
                                exits.setdefault(d['n'], []).append(x)
                    # the tested variable may have been assigned from the call earlier in the iteration
                    an = fn.n(fn.strip(a))
                    for y in fn.subtree(fn.strip(a)):
                        yn = fn.nodes[y]
                        if yn.get('k') == 'var' and yn.get('local'):
                            for dn, val in (defs.values(y) or []):
                                if val is None:
                                    continue
                                for x in fn.subtree(val):
                                    nd = fn.nodes[x]
                                    if nd.get('k') == 'call':
                                        d = fn.callee(x) or {}
                                        if d.get('n') and not (d.get('q') or '').startswith('std::') and fn.pos_of(x) in cyc:
                                            exits.setdefault(d['n'], []).append(x)
            if not exits:
                continue
            sites += 1
            ppos = [p for p, _, _, _ in pw if p in cyc]
            missing = []
            for name, nodes in sorted(exits.items()):
                evals = set(fn.pos_of(x) for _, sx, nd, d in calls_named(fn, (name,)) for x in [sx])
                ok = bool(ppos) and all(every_path_passes(fn, p, lambda q, e, evals=evals: q in evals, end=cpos)[0] for p in ppos)
                if not ok:
                    missing.append(name)
            rep.ob(clause, 'K4', fn, 'every condition that can end the wait loop is re-evaluated between prepare_wait and commit_wait (line %s)'
                   % cnode['ln'], bool(ppos) and not missing,
                   '%s is tested only before the thread registers on the monitor: a change announced between that test and prepare_wait '
                   'wakes nobody - the thread sleeps although the condition holds (task_arena::execute: a slot is free, the delegated '
                   'functor never runs)' % ', '.join(missing or ['(no prepare_wait inside the loop)']), ln=cnode['ln'], key_extra='recheck|%s' % fn.p)
    if sites < 1:
        raise AnalysisBroken('no wait loop through commit_wait with an exit condition found (task_arena_impl::execute)')


def rw_downgrade_wakes_all(facts, rep, clause):
    """rw_mutex::downgrade: the writer becomes a reader, so every reader that fell asleep while the writer held the lock is
    admissible from now on (unless a writer is pending, which keeps them out anyway).  The lock stays held - nothing else will
    wake them until the holder releases - so the downgrade itself wakes ALL of them: with a notifier that wakes every matching
    sleeper (read from the bodies of the r1 notifiers: the ones built on the monitor's wake-all notification), not one."""
    wake_all = set()
    for g in facts.fns.values():
        if g.q.startswith(R1 + 'notify_by_address') and calls_named(g, ('notify_relaxed', 'notify', 'notify_all_relaxed', 'notify_all')):
            wake_all.add(g.u)
    if not wake_all:
        raise AnalysisBroken('no r1::notify_by_address* variant built on the wake-all monitor notification found')
    for fn in facts.get(D1 + 'rw_mutex::downgrade'):
        def pending(a, truth):
            x = fn.n(fn.strip(a))
            if x.get('k') == 'binop' and x['op'] == '&':
                names = [fn.nodes[y].get('n') or fn.nodes[y].get('glob') or '' for y in fn.subtree(x['s'])]
                return truth and any('WRITER_PENDING' in (nm or '') for nm in names)
            return False
        pe = edges_where(fn, pending)
        ok, wit = every_path_passes(fn, 'entry', lambda p, e: isinstance(e, int) and fn.nodes[e].get('k') == 'call' and fn.nodes[e].get('fn') in wake_all,
                                    stop_edge=lambda b, si: (b, si) in pe)
        rep.ob(clause, 'K4', fn, 'a downgrade with no writer pending wakes every sleeping reader', ok,
               'the readers that fell asleep while the writer held the lock are not all woken by the downgrade (no wake-all notification '
               'on this path: %s); the lock stays held, so they sleep until the holder releases - for ever if the holder waits for them'
               % wit, key_extra='downgrade')


def d7_soft_limit_zero_keeps_registered_mandatory_requests(facts, rep, clause='D7'):
    """"a task submitted with enqueue is eventually executed even if ... the arena momentarily has no workers": an enqueue into an
    arena without threads registers a mandatory request with the serializer proxy.  Whether that request currently needs the
    special treatment depends on the soft limit: while workers are allowed nothing is switched on.  When the limit later drops to 0
    (global_control(max_allowed_parallelism, 1) created AFTER the enqueue) the proxy is the only place that can notice that a
    registered request now needs its one worker - so on the soft_limit == 0 path it decides by the COUNT of registered requests
    (my_num_mandatory_requests), switches the mode on and asks for one worker.  A decision by the mode flag alone ignores
    requests registered while the limit was still positive: the task stays in the arena for as long as the limit lives.
    Rule: in thread_request_serializer_proxy::set_active_num_workers the raise of the requested limit (an assignment to the
    parameter) and the store of `true` into my_is_mandatory_concurrency_enabled both happen, each dominated by the edge
    my_num_mandatory_requests > 0 (a read of the counter, not of the flag)."""
    n = 0
    for fn in facts.get(R1 + 'thread_request_serializer_proxy::set_active_num_workers'):
        ps = set(p['v'] for p in fn.d.get('params', []))

        def counted(a, truth):
            nd = fn.n(fn.strip(a))
            if nd.get('k') != 'binop' or nd['op'] not in ('>', '!=', '>=', '<', '==', '<='):
                return False
            reads = any(last_member(fn, x) == 'my_num_mandatory_requests' for x in (nd['l'], nd['r'])) or \
                any((atomic_op(fn, x) or {}).get('kind') == 'load' and last_member(fn, atomic_op(fn, x)['obj']) == 'my_num_mandatory_requests'
                    for x in fn.subtree(nd['s']) if fn.nodes[x].get('k') == 'call')
            if not reads:
                return False
            lc, rc = fn.cv(nd['l']), fn.cv(nd['r'])
            op = nd['op']
            if rc is None and lc is not None:          # constant on the left: mirror
                op = {'>': '<', '<': '>', '>=': '<=', '<=': '>=', '==': '==', '!=': '!='}[op]
                rc = lc
            if rc is None:
                return False
            positive_when_true = (op == '>' and rc >= 0) or (op == '>=' and rc >= 1) or (op == '!=' and rc == 0)
            positive_when_false = (op == '<=' and rc >= 0) or (op == '<' and rc >= 1) or (op == '==' and rc == 0)
            return (truth and positive_when_true) or ((not truth) and positive_when_false)
        ce = edges_where(fn, counted)
        raises = [pos for pos, s, l, r in assignments(fn) if fn.n(fn.strip(l)).get('k') == 'var' and fn.n(fn.strip(l)).get('v') in ps and (fn.cv(r) or 0) >= 1]
        enables = [pos for pos, s, l, r in assignments(fn) if last_member(fn, l) == 'my_is_mandatory_concurrency_enabled' and fn.cv(r) == 1]
        ok = bool(ce) and bool(raises) and bool(enables) and all(dominated_by_edges(fn, p, ce)[0] for p in raises + enables)
        n += 1
        rep.ob(clause, 'K4', fn, 'a soft limit of 0 keeps one worker whenever mandatory requests are registered (decided by their count)', ok,
               'the limit is raised to 1 / the mode switched on %s: a request registered while the soft limit was still positive is ignored when the '
               'limit drops to 0 - the enqueued task is not executed while the limit lives' %
               ('only under a test of the mode flag' if (raises or enables) else 'nowhere'), key_extra='proxy-soft-limit-zero')
    if n < 1:
        raise AnalysisBroken('thread_request_serializer_proxy::set_active_num_workers not found')
