"""Shared helpers for the tbbmalloc rules (C17, C18)."""
from engine.facts import atomic_op
from engine.rules import (calls, calls_named, every_path_passes, last_member, Defs, resolve_cond_source, edges_where,
                          dominated_by_edges, assignments, value_root, root_of)

MALLOC_UNITS = ['src/tbbmalloc/frontend.cpp', 'src/tbbmalloc/backend.cpp', 'src/tbbmalloc/large_objects.cpp', 'src/tbbmalloc/backref.cpp',
                'src/tbbmalloc/tbbmalloc.cpp']


def errno_sets(fn):
    """[(pos, value)] assignments to errno (`*__errno_location() = X`)"""
    out = []
    for pos, s, l, r in assignments(fn):
        ln = fn.n(fn.strip(l))
        if ln.get('k') == 'unop' and ln['op'] == '*':
            c = fn.n(fn.strip(ln['sub']))
            if c.get('k') == 'call' and (fn.callee(c['s']) or {}).get('n') in ('__errno_location', '__error', '_errno'):
                out.append((pos, fn.cv(r)))
    return out


def var_of(fn, s):
    n = fn.n(fn.strip(s))
    return n.get('v') if n.get('k') == 'var' else None


def nonnull_edges(fn, vid, defs=None):
    """edges on which local variable vid is known non-null"""
    def atom(a, truth):
        n = fn.n(fn.strip(a))
        if n.get('k') == 'var' and n.get('v') == vid:
            return truth
        if n.get('k') == 'binop' and n['op'] in ('!=', '=='):
            l, r = fn.n(fn.strip(n['l'])), fn.n(fn.strip(n['r']))
            if l.get('k') == 'var' and l.get('v') == vid and r.get('null'):
                return truth == (n['op'] == '!=')
            if r.get('k') == 'var' and r.get('v') == vid and l.get('null'):
                return truth == (n['op'] == '!=')
        if n.get('k') == 'binop' and n['op'] == '=':
            l = fn.n(fn.strip(n['l']))
            if l.get('k') == 'var' and l.get('v') == vid:
                return truth
        return False
    return edges_where(fn, atom)


def null_edges(fn, vid):
    def atom(a, truth):
        n = fn.n(fn.strip(a))
        if n.get('k') == 'var' and n.get('v') == vid:
            return not truth
        if n.get('k') == 'binop' and n['op'] in ('!=', '=='):
            l, r = fn.n(fn.strip(n['l'])), fn.n(fn.strip(n['r']))
            if l.get('k') == 'var' and l.get('v') == vid and r.get('null'):
                return truth == (n['op'] == '==')
        return False
    return edges_where(fn, atom)
