"""C05 - parallel loops apply the body exactly once to every element, in legal chunks.  NARROW CLAIM (DESIGN.md section 4, C05)"""
from engine.facts import AnalysisBroken, atomic_op
from engine.rules import (calls, calls_named, every_path_passes, last_member, is_call_to, Defs, resolve_cond_source,
                          edges_where, dominated_by_edges, member_accesses, root_of, assignments, value_root)

UNITS = ['drivers/algorithms.cpp']
D1 = 'tbb::detail::d1::'
D2 = 'tbb::detail::d2::'

EXPLANATION = (
    'Narrow claim.  Decides: D1 "a range that is not divisible is never split": every construction of a Range with a split / '
    'proportional_split argument performed by library code is dominated by the true edge of is_divisible() on a range of that '
    'type, the obligation being lifted through constructors / new_object / offer_work(_impl) to the partitioner, and the guard '
    'is re-evaluated between two consecutive splits; D2 a split tiles the parent: blocked_range::do_split returns the very value '
    'it stores into r.my_end, the splitting constructors read r.my_end before do_split overwrites it and copy the grainsize, '
    'multi-dimensional ranges copy every dimension and split dimension X of the parent into dimension X of the child, exactly '
    'one dimension per path; D3 empty ranges start nothing and every range popped from the range pool is either offered or '
    'run; D4 per-item tasks: parallel_invoke reserves exactly as many references as it creates invokers (and the subroot task '
    'adds one reference per spawn plus itself), for_each block tasks reserve once per spawned/executed iteration task, the '
    'feeder creates and spawns exactly one task per added item.  Exactly-once coverage and disjointness for all '
    '(begin,end,grain), chunk-size bounds and the ring arithmetic of the range pool are NOT decided.')
EXPLANATION += ' Added after the seeded-change rounds: ' + 'D2 also: multi-dimensional ranges compare size/grainsize ratios by cross multiplication with mirrored operands; D5: every public overload of parallel_for / parallel_for_each (all are instantiated by the drivers) dispatches to the same task class as its siblings and passes every argument on.'
EXPLANATION += ' Added in the third session (round-3 seeds and the findings they led to): ' + 'D6: the iteration count of the stepped parallel_for and the split point of blocked_range are computed without adding two independently full-range quantities (interval evaluation, bounds linear in MAX, under the dominating guards).'
EXPLANATION += ' Added in the fourth round of seeded changes: ' + "D7: every step expression of range_vector's ring indices is evaluated on every slot number with C++ promotion semantics: push and pop steps are cyclic permutations and pop_back inverts the push step - for the default capacity and for __TBB_RANGE_POOL_CAPACITY=6."
EXPLANATION += ' Added in the fifth round: ' + 'D1 also: the grain size of a blocked_range is only compared with the size of the range, never an operand of arithmetic.'
EXPLANATION += ' D1 also: blocked_range2d / 3d / nd_range never choose a dimension that is not divisible for the split - the decision procedure of do_split (helpers inlined) is enumerated over every assignment of "dimension divisible" and of the floating-point ratio comparisons (free: they may round either way); the comparator of blocked_nd_range never ranks a non-divisible dimension above a divisible one.'
ASSUMPTIONS = ['ranges are recognised as classes with an is_divisible() member and a constructor taking split/proportional_split',
               'only instantiations written in drivers/algorithms.cpp are analysed']
ND = ['exactly-once coverage and disjointness for all (begin,end,grain)', 'chunk-size bounds', 'proportional-split rounding',
      'range_vector ring arithmetic and depth wrap']

SPLIT_TYPES = ('tbb::detail::split', 'tbb::detail::proportional_split')
FORWARDERS = ('offer_work', 'offer_work_impl', 'new_object', 'split_to_fill', '(ctor)', 'get_range_split_object')

# recorded exception (DESIGN.md C05-D1): pass 2 of parallel_scan re-splits the range stored in a sum_node exactly as pass 1 split
# it; pass 1 created the node on the divisible branch, which is the site that is checked.
RECORDED = {D1 + 'sum_node::execute': 'pass 2 of parallel_scan replays the split that pass 1 performed on the divisible branch'}


def is_split_type(ty):
    t = ty.replace('const ', '').replace('&', '').replace(' ', '')
    return t in ('tbb::detail::split', 'tbb::detail::proportional_split')


def range_classes(facts):
    """primary names of classes that have an is_divisible() method"""
    out = set()
    for p, cs in facts.classes.items():
        for c in cs:
            if any(m['n'] == p + '::is_divisible' for m in c['methods']):
                out.add(p)
    return out


def run(facts, rep):
    ranges = range_classes(facts)
    ranges.discard(D1 + 'range_vector')
    ranges = set(r for r in ranges if 'partition' not in r and 'mode' not in r)
    if not (D1 + 'blocked_range') in ranges:
        raise AnalysisBroken('blocked_range not recognised as a range class')
    d1_divisible(facts, rep, ranges)
    d1_grainsize_is_only_compared(facts, rep)
    d1_split_dimension_is_divisible(facts, rep)
    d2_tiling(facts, rep)
    d3_chunks(facts, rep)
    d4_items(facts, rep)
    d5_overloads(facts, rep)
    d6_count_arithmetic(facts, rep)
    d7_range_pool_ring(facts, rep)


def divisible_edges(fn, ranges):
    """edges on which `<range>.is_divisible()` (or range_vector::is_divisible wrapping it) is known true"""
    def atom(a, truth):
        s = fn.strip(a)
        n = fn.n(s)
        if n.get('k') != 'call':
            return False
        d = fn.callee(s)
        if not d or d['n'] != 'is_divisible':
            return False
        if d.get('cls') in ranges or d.get('cls') == D1 + 'range_vector':
            return truth
        return False
    return edges_where(fn, atom)


def split_ctor_sites(fn, ranges):
    """[(pos, node)] constructor calls of a range class with a split-typed parameter"""
    out = []
    for pos, s, n in fn.stmt_elems(('ctor',)):
        if n.get('cls') not in ranges:
            continue
        d = fn.callee(s)
        if not d:
            continue
        f = fn.facts
        # parameter types from the decl's qualified name are not available; use argument expression types via ctor nodes
        for a in n.get('a', []):
            an = fn.n(fn.strip(a))
            ty = an.get('ty', '')
            cls = an.get('cls', '')
            if is_split_type(ty) or cls in SPLIT_TYPES or (an.get('k') == 'ctor' and an.get('cls') in SPLIT_TYPES) or \
                    (an.get('k') == 'call' and is_split_type((fn.callee(fn.strip(a)) or {}).get('ret', ''))):
                out.append((pos, s, n))
                break
    return out


def d1_divisible(facts, rep, ranges):
    nsites = 0
    visited_report = set()

    def check_site(fn, pos, depth, chain):
        """returns (ok, where the guard was found or the failing chain)"""
        edges = divisible_edges(fn, ranges)
        if edges:
            ok, wit = dominated_by_edges(fn, pos, edges)
            if ok:
                return True, chain + [fn.p]
        short = fn.p.split('::')[-1]
        in_range_class = fn.cls in ranges
        if depth < 7 and (short in FORWARDERS or fn.kind == 'ctor' or in_range_class or fn.kind == 'lambda'):
            callers = facts.callers(fn.u)
            callers = [c for c in callers if '/verif/drivers/' not in c[0].file]
            if not callers:
                return None, chain + [fn.p]     # never called by library code in this unit: nothing to lift to
            allok = True
            bad = None
            for (g, gpos, gs) in callers:
                r, ch = check_site(g, gpos, depth + 1, chain + [fn.p])
                if r is False:
                    allok = False
                    bad = ch
            return (True, chain) if allok else (False, bad)
        return False, chain + [fn.p]

    for fn in list(facts.fns.values()):
        if '/verif/drivers/' in fn.file:
            continue
        sites = split_ctor_sites(fn, ranges)
        for pos, s, n in sites:
            if fn.p in RECORDED:
                rep.note('D1 recorded exception %s: %s' % (fn.p, RECORDED[fn.p]))
                continue
            r, chain = check_site(fn, pos, 0, [])
            if r is None:
                continue
            nsites += 1
            rep.ob('D1', 'K4', fn, 'split construction of %s is dominated by is_divisible() (lifted to callers)' % n.get('cls', '').split('::')[-1],
                   r, 'a range can be split although is_divisible() was not observed true on this path; call chain without guard: ' +
                   ' <- '.join(c.split('::')[-2] + '::' + c.split('::')[-1] for c in chain), ln=n.get('ln'), key_extra=str(n.get('ln')))
    # the guard is re-evaluated between two splits (loops in the partitioners)
    for pname in (D1 + 'partition_type_base::execute', D1 + 'simple_partition_type::execute'):
        for fn in facts.get(pname):
            edges = divisible_edges(fn, ranges)
            ow = calls_named(fn, ('offer_work',))
            if not ow:
                raise AnalysisBroken('%s: offer_work call not found' % pname)
            for pos, s, node, d in ow:
                ok, wit = dominated_by_edges(fn, pos, edges)
                rep.ob('D1', 'K4', fn, 'offer_work(split) is dominated by range.is_divisible()', ok, wit, ln=node['ln'])
                reached, ex, par = fn.walk(pos, stop_edge=lambda b, si: (b, si) in edges)
                rep.ob('D1', 'K4', fn, 'is_divisible() is re-evaluated before the next split', pos not in reached,
                       'two splits in a row without re-checking divisibility of the shrunken range', ln=node['ln'], key_extra='loop')
    for fn in facts.get(D1 + 'range_vector::is_divisible'):
        ok = False
        for pos, s, node in fn.stmt_elems(('return',)):
            v = fn.n(fn.strip(node.get('sub', -1)))
            stack = [v]
            while stack:
                x = stack.pop()
                if x.get('k') == 'binop' and x['op'] == '&&':
                    stack += [fn.n(fn.strip(x['l'])), fn.n(fn.strip(x['r']))]
                elif x.get('k') == 'call' and (fn.callee(x['s']) or {}).get('n') == 'is_divisible':
                    ok = True
        rep.ob('D1', 'K4', fn, 'range_vector::is_divisible is a conjunction containing back().is_divisible()', ok,
               'the pool may report divisible for a range that is not')
    rep.floor('D1', 8, 'split construction sites + partitioner loops')


def d2_tiling(facts, rep):
    # blocked_range::do_split
    for fn in facts.get(D1 + 'blocked_range::do_split'):
        defs = Defs(fn)
        st = [(pos, s, l, r) for pos, s, l, r in assignments(fn) if last_member(fn, l) == 'my_end']
        rets = [(pos, s, n) for pos, s, n in fn.stmt_elems(('return',)) if 'sub' in n]
        ok = len(st) == 1 and len(rets) == 1
        if ok:
            sv = value_root(fn, st[0][3])
            rv = value_root(fn, rets[0][2]['sub'])
            if rv == st[0][1]:
                ok = True           # `return r.my_end = X;`
            else:
                a, b = fn.n(sv), fn.n(rv)
                ok = a.get('k') == 'var' and b.get('k') == 'var' and a['v'] == b['v'] and \
                    defs.reaching(fn.pos_of(sv), a['v']) == defs.reaching(fn.pos_of(rv), b['v'])
        rep.ob('D2', 'K10', fn, 'do_split returns exactly the value it stores into r.my_end', ok,
               'the right part does not begin where the left part now ends (gap or overlap)')
    for fn in facts.get(D1 + 'blocked_range::(ctor)'):
        ds = calls_named(fn, ('do_split',))
        if not ds:
            continue
        inits = {}
        for b, i, e in fn.iter_elems():
            if isinstance(e, dict) and 'i' in e:
                inits[e['i']] = (b, i, e)
        ok = 'my_end' in inits and 'my_begin' in inits and 'my_grainsize' in inits
        if ok:
            me = inits['my_end']
            # the read of r.my_end feeding my_end must not be reachable from the do_split call
            ok = not fn.can_reach(ds[0][0], (me[0], me[1]))
            ok = ok and last_member(fn, value_root(fn, me[2]['s'])) == 'my_end' and \
                last_member(fn, value_root(fn, inits['my_grainsize'][2]['s'])) == 'my_grainsize'
        rep.ob('D2', 'K4', fn, 'split constructor copies r.my_end before do_split shrinks r, and copies the grainsize', ok,
               'my_end of the new range is read after the parent was already shrunk (initialisation order): the right part is empty '
               'and the elements are lost', key_extra=str(fn.l0))
    # multi-dimensional ranges
    for cls, dims in (('blocked_range2d', ('my_rows', 'my_cols')), ('blocked_range3d', ('my_pages', 'my_rows', 'my_cols'))):
        for fn in facts.get(D1 + cls + '::do_split'):
            asg = [(pos, s, {'l': l, 'r': r, 'ln': fn.n(s).get('ln')}) for pos, s, l, r in assignments(fn) if last_member(fn, l) == 'my_begin']
            if not asg:
                raise AnalysisBroken('%s::do_split: no assignment to a dimension\'s my_begin' % cls)
            for pos, s, n in asg:
                lhs_dim = last_member(fn, fn.n(fn.strip(n['l'])).get('base', -1))
                call = fn.n(value_root(fn, n['r']))
                arg_dim = last_member(fn, call.get('a', [-1])[0]) if call.get('k') == 'call' and call.get('a') else None
                arg_root = fn.n(root_of(fn, call.get('a', [-1])[0])) if call.get('k') == 'call' and call.get('a') else {}
                ok = lhs_dim in dims and lhs_dim == arg_dim and arg_root.get('k') == 'var' and 'param' in arg_root
                rep.ob('D2', 'K10', fn, 'dimension %s of the child is split off dimension %s of the parent' % (lhs_dim, arg_dim), ok,
                       'the split dimension of the parent and the trimmed dimension of the child differ: elements are lost and others '
                       'are visited twice', ln=n['ln'], key_extra=str(n['ln']))
                # exactly one dimension is split per path
                others = [p for p, _, _ in asg if p != pos]
                ok2 = not any(fn.can_reach(pos, q) for q in others)
                rep.ob('D2', 'K3', fn, 'exactly one dimension is split per path (line %s)' % n['ln'], ok2,
                       'two dimensions are split by one splitting constructor', ln=n['ln'], key_extra='one' + str(n['ln']))
        for fn in facts.get(D1 + cls + '::(ctor)'):
            if not calls_named(fn, ('do_split',)):
                continue
            inits = {}
            for b, i, e in fn.iter_elems():
                if isinstance(e, dict) and 'i' in e:
                    inits[e['i']] = e
            ok = all(d in inits and dim_of_init(fn, inits[d]['s']) == d for d in dims)
            rep.ob('D2', 'K10', fn, 'the splitting constructor copies every dimension from the same dimension of the parent', ok,
                   'dimensions initialised: %s' % dict((k, dim_of_init(fn, v['s'])) for k, v in inits.items()), key_extra=str(fn.l0))
    d2_ratio_comparisons(facts, rep)
    rep.floor('D2', 12, 'do_split + splitting constructors + ratio comparisons')


def d2_ratio_comparisons(facts, rep):
    """Multi-dimensional ranges split the dimension with the larger size/grainsize ratio.  The ratios are compared by cross
    multiplication, `A.size()*grain(B) < B.size()*grain(A)`, and the larger one is the dimension that is split (which is
    what keeps a dimension with size <= grainsize from being split while another one is divisible).  K10 operand roles:
    each side multiplies the size of one dimension with the grainsize of the OTHER dimension, and the branch splits the
    dimension whose ratio was found larger."""
    def dim_call(fn, x, name):
        # <dim>.size() / <dim>.grainsize(): returns the dimension member the call is made on
        n = fn.n(fn.strip(x))
        for _ in range(4):
            if n.get('k') == 'ctor' and len(n.get('a', [])) == 1:      # double(x)
                n = fn.n(fn.strip(n['a'][0]))
            elif n.get('k') == 'cast':
                n = fn.n(fn.strip(n['sub']))
            else:
                break
        if n.get('k') == 'call' and (fn.callee(n['s']) or {}).get('n') == name and n.get('obj', -1) >= 0:
            return expr_key_dim(fn, n['obj'])
        return None

    def expr_key_dim(fn, o):
        from engine.rules import expr_key
        return expr_key(fn, o)

    def product(fn, x):
        n = fn.n(fn.strip(x))
        if n.get('k') != 'binop' or n['op'] != '*':
            return None
        for a, b in ((n['l'], n['r']), (n['r'], n['l'])):
            sz, gr = dim_call(fn, a, 'size'), dim_call(fn, b, 'grainsize')
            if sz is not None and gr is not None:
                return sz, gr
        return None
    n = 0
    for fn in facts.fns.values():
        if not (fn.p.startswith(D1 + 'blocked_range2d::') or fn.p.startswith(D1 + 'blocked_range3d::') or fn.p.startswith(D1 + 'blocked_nd_range')):
            continue
        for pos, sx, node in fn.stmt_elems(('binop',)):
            if node['op'] not in ('<', '>', '<=', '>='):
                continue
            lp, rp = product(fn, node['l']), product(fn, node['r'])
            if lp is None or rp is None:
                continue
            n += 1
            ok = lp[0] == rp[1] and lp[1] == rp[0] and lp[0] != lp[1]
            rep.ob('D2', 'K10', fn, 'the size/grainsize ratios of two dimensions are compared by cross multiplication (line %s)' % node['ln'], ok,
                   'one side multiplies a size with the grainsize of the same comparison side\'s own dimension (or the two sides do not '
                   'mirror each other): the grainsizes cancel, the longer dimension is split whether or not it is divisible',
                   ln=node['ln'], key_extra='ratio%s' % node['ln'])
    if n < 4:
        raise AnalysisBroken('only %d size*grainsize ratio comparisons found in the multi-dimensional ranges' % n)


def dim_of_init(fn, s):
    n = fn.n(fn.strip(s))
    if n.get('k') == 'ctor' and n.get('a'):
        return last_member(fn, n['a'][0])
    return last_member(fn, s)


def d3_chunks(facts, rep):
    n = 0
    for cls in ('start_for', 'start_reduce', 'start_deterministic_reduce', 'start_scan'):
        for fn in facts.get(D1 + cls + '::run'):
            emp = set(s for p, s, nd, d in calls_named(fn, ('empty',)))
            ne = edges_where(fn, lambda a, truth: (not truth) and fn.strip(a) in emp)
            ew = calls_named(fn, ('execute_and_wait',))
            if not ew:
                continue
            for pos, s, node, d in ew:
                ok, wit = dominated_by_edges(fn, pos, ne)
                rep.ob('D3', 'K4', fn, 'no task is started for an empty range', ok, wit, ln=node['ln'], key_extra=str(node['ln']))
                n += 1
    for fn in facts.get(D1 + 'dynamic_grainsize_mode::work_balance'):
        # every popped range was offered (pop_front after offer_work) or run (pop_back after run_body)
        for popn, need in (('pop_front', 'offer_work'), ('pop_back', 'run_body')):
            for pos, s, node, d in calls_named(fn, (popn,)):
                needpos = set(p for p, _, _, _ in calls_named(fn, (need,)))
                # nearest preceding: every path from loop head... simplified: dominated by `need` within the same iteration:
                reached, ex, par = fn.walk('entry', stop_elem=lambda p, e: p in needpos)
                # positions reachable without passing `need` at all
                ok = pos not in reached
                # and no second pop without a new `need`
                r2, _, _ = fn.walk(pos, stop_elem=lambda p, e: p in needpos)
                ok2 = not any(is_call_to(fn, fn.elems(q[0])[q[1]], shortnames=(popn,)) for q in r2 if q != pos)
                rep.ob('D3', 'K3', fn, 'range_pool.%s() only drops a range that was just handed to %s' % (popn, need), ok and ok2,
                       'a range is removed from the pool without being offered or run (its elements are skipped)', ln=node['ln'],
                       key_extra=popn)
                n += 1
    for fn in facts.get(D1 + 'partition_type_base::execute') + facts.get(D1 + 'simple_partition_type::execute'):
        tail = calls_named(fn, ('work_balance', 'run_body'))
        ok, wit = every_path_passes(fn, 'entry', lambda p, e: p in set(x[0] for x in tail))
        rep.ob('D3', 'K4', fn, 'every path through the partitioner ends in running (or balancing) the remaining range', ok, wit)
    rep.floor('D3', 6, 'empty guards + pool pops')


def d4_items(facts, rep):
    n = 0
    for fn in facts.get(D1 + 'invoke_recursive_separation'):
        res = [c for c in calls_named(fn, ('reserve',))]
        inv = [v for pos, s, nd in fn.stmt_elems(('decl',)) for v in nd['vars'] if (v.get('cls') or '').endswith('function_invoker')]
        if not res:
            continue      # the recursive variadic overload reserves inside invoke_subroot_task
        k = fn.cv(res[0][2]['a'][0]) if res[0][2].get('a') else 1
        rep.ob('D4', 'K10', fn, 'parallel_invoke reserves as many references as it creates invokers', len(res) == 1 and k == len(inv),
               'reserve(%s) but %d function_invoker object(s): the wait returns %s' %
               (k, len(inv), 'before all functors ran' if k is not None and k < len(inv) else 'never'), key_extra=str(len(inv)))
        n += 1
    for fn in facts.get(D1 + 'invoke_subroot_task::execute'):
        add = [(p, o) for p, o in [(p, atomic_op(fn, s)) for p, s, nd in fn.stmt_elems(('call',))] if o and o['kind'] == 'rmw' and
               o['name'] == 'fetch_add' and last_member(fn, o['obj']) == 'ref_count']
        sp = calls_named(fn, ('spawn',))
        rl = calls_named(fn, ('release',))
        k = fn.cv(add[0][1]['val']) if add else None
        rep.ob('D4', 'K10', fn, 'the subroot adds one reference per spawned invoker plus one for itself', bool(add) and k == len(sp) + len(rl),
               'fetch_add(%s) vs %d spawn(s) + %d own release(s)' % (k, len(sp), len(rl)))
        ok = all(every_path_passes(fn, 'entry', lambda p, e: p in set(q for q, _ in add), end=c[0])[0] for c in sp)
        rep.ob('D4', 'K4', fn, 'the references are added before the children are spawned', ok, 'child can release before the count is raised')
    for cls in ('input_block_handling_task', 'forward_block_handling_task'):
        for fn in facts.get(D2 + cls + '::execute'):
            sp = calls_named(fn, ('spawn', 'execute_and_wait'))
            rs = set(p for p, _, _, _ in calls_named(fn, ('reserve',)))
            for pos, s, node, d in sp:
                # a reserve happens between two consecutive submissions and before the first
                ok, wit = every_path_passes(fn, 'entry', lambda p, e: p in rs, end=pos)
                reached, ex, par = fn.walk(pos, stop_elem=lambda p, e: p in rs)
                again = [q for q in reached if q != pos and is_call_to(fn, fn.elems(q[0])[q[1]], shortnames=('spawn', 'execute_and_wait'))] or \
                    (pos in reached)
                rep.ob('D4', 'K3', fn, 'each iteration task submitted by the block task is preceded by its own reserve()', ok and not again,
                       'an iteration task is submitted without a matching wait reference', ln=node['ln'], key_extra=str(node['ln']))
                n += 1
    for name in ('internal_add_copy_impl', 'internal_add_move'):
        for fn in facts.get(D2 + 'feeder_impl::' + name):
            no = calls_named(fn, ('new_object',))
            sp = calls_named(fn, ('spawn',))
            if not no and not sp:
                continue     # the non-copyable overload is an assert stub
            ok = len(no) == 1 and len(sp) == 1 and every_path_passes(fn, 'entry', lambda p, e: p == sp[0][0])[0] and \
                every_path_passes(fn, 'entry', lambda p, e: p == no[0][0], end=sp[0][0])[0]
            rep.ob('D4', 'K3', fn, 'feeder.add creates exactly one task per item and spawns it', ok,
                   '%d task(s) created, %d spawned' % (len(no), len(sp)))
            n += 1
    for fn in facts.get(D2 + 'feeder_item_task::(ctor)'):
        rs = calls_named(fn, ('reserve',))
        rep.ob('D4', 'K3', fn, 'a fed item holds a wait reference from construction', bool(rs), 'no reserve() in feeder_item_task constructor')
    rep.floor('D4', 8, 'per-item accounting')



def d5_overloads(facts, rep):
    """K7: every public overload of parallel_for / parallel_for_each ends in the same task class as its siblings"""
    from rules.common import api_family_agreement
    n = 0
    for fam, what in ((D1 + 'parallel_for', 'start_for over the range'), ('tbb::detail::d2::parallel_for_each', 'for_each root task')):
        g, unc = api_family_agreement(facts, rep, 'D5', fam, what)
        n += g
        if unc:
            rep.note('D5: %d overload(s) of %s are not instantiated by the drivers and were not analysed' % (unc, fam))
    rep.floor('D5', 25, 'public overloads of parallel_for / parallel_for_each')


# ---------------------------------------------------------------------------------------------------------------
# D6: the iteration count / split point is computed without an intermediate that can leave the index type
# ---------------------------------------------------------------------------------------------------------------
class Iv(object):
    """interval whose bounds are linear in the (symbolic) maximum M of the index type: bound = (c, k) meaning c*M + k"""
    TOP_LO, TOP_HI = (-1.0, -1.0), (1.0, 0.0)

    def __init__(self, lo, hi):
        self.lo, self.hi = lo, hi

    @staticmethod
    def const(c):
        return Iv((0.0, float(c)), (0.0, float(c)))

    @staticmethod
    def top():
        return Iv(Iv.TOP_LO, Iv.TOP_HI)

    def __repr__(self):
        def b(x):
            return '%s%s' % (('%gM' % x[0]) if x[0] else '', ('%+g' % x[1]) if x[1] or not x[0] else '')
        return '[%s, %s]' % (b(self.lo), b(self.hi))


def _add(a, b):
    return (a[0] + b[0], a[1] + b[1])


def _neg(a):
    return (-a[0], -a[1])


def count_interval(fn, s, env, findings):
    """abstract value of integer expression s; `env(node)` gives intervals for recognised sub-expressions (guards).  Records in
    `findings` every addition whose operands can both reach the maximum of the type independently (and every subtraction of a
    value that can reach the minimum from one that can reach the maximum)."""
    s = fn.strip(s)
    n = fn.n(s)
    known = env(s)
    if known is not None:
        return known
    k = n.get('k')
    if n.get('cv') is not None and k in ('lit', 'rd', 'cast', 'enum', 'binop', 'unop'):
        return Iv.const(n['cv'])
    if k in ('cast', 'rd', 'paren'):
        return count_interval(fn, n['sub'], env, findings)
    if k == 'ctor' and len(n.get('a', [])) == 1:
        return count_interval(fn, n['a'][0], env, findings)
    if k == 'binop':
        op = n['op']
        if op in ('+', '-', '/', '%', '*'):
            a = count_interval(fn, n['l'], env, findings)
            b = count_interval(fn, n['r'], env, findings)
            if op == '+':
                if a.hi[0] >= 1 and b.hi[0] >= 1:
                    findings.append((n.get('ln'), '%s + %s' % (fn.show(n['l']), fn.show(n['r'])), a, b))
                return Iv(_add(a.lo, b.lo), _add(a.hi, b.hi))
            if op == '-':
                if a.hi[0] >= 1 and b.lo[0] <= -1:
                    findings.append((n.get('ln'), '%s - %s' % (fn.show(n['l']), fn.show(n['r'])), a, b))
                return Iv(_add(a.lo, _neg(b.hi)), _add(a.hi, _neg(b.lo)))
            if op == '/':
                # divisor >= 1 (recognised from the guards): the magnitude does not grow; a constant divisor c >= 1 scales
                c = fn.cv(n['r'])
                if c is not None and c >= 1:
                    return Iv((min(a.lo[0] / c, 0.0) if a.lo[0] < 0 else a.lo[0] / c, min(a.lo[1] / c, a.lo[1])),
                              (a.hi[0] / c, a.hi[1] / c if a.hi[1] > 0 else a.hi[1]))
                if b.lo[0] > 0 or (b.lo[0] == 0 and b.lo[1] >= 1):
                    return Iv((min(a.lo[0], 0.0), min(a.lo[1], 0.0)), (max(a.hi[0], 0.0), max(a.hi[1], 0.0) if a.hi[0] == 0 else a.hi[1]))
                return Iv.top()
            if op == '%':
                if b.lo[0] > 0 or (b.lo[0] == 0 and b.lo[1] >= 1):
                    return Iv((0.0, 0.0), _add(b.hi, (0.0, -1.0)))
                return Iv.top()
            return Iv.top()
        if op in ('<', '>', '<=', '>=', '==', '!=', '&&', '||'):
            return Iv((0.0, 0.0), (0.0, 1.0))
    if k == 'unop' and n.get('op') == '!':
        return Iv((0.0, 0.0), (0.0, 1.0))
    return Iv.top()


def d6_count_arithmetic(facts, rep):
    """parallel_for(first, last, step, f) turns the stepped loop into a blocked_range [0, count): count must be computed without
    an intermediate result that can exceed the index type - first < last and step >= 1 are known (dominating guards), so
    (last - first) and step are each anywhere in [1, MAX].  A sum of two quantities that can both reach MAX on their own
    (rounding up by adding step - 1 to the distance, (begin + end) / 2 for a split point) wraps or overflows for loops near the
    top of the type: the loop silently visits nothing or the wrong indices.  Decided by a small interval evaluation of the
    expression (bounds linear in MAX) under the guards that dominate it; only that one shape is reported."""
    from engine.rules import expr_key
    n = 0
    for fn in facts.by_p.get(D1 + 'parallel_for_impl', []):
        params = [pp for pp in fn.d.get('params', [])]
        if len(params) < 3:
            continue
        # the count is the value of the second constructor argument of the blocked_range built here
        ctors = [c for c in calls(fn, kinds=('ctor',)) if (c[2].get('cls') or '').endswith('blocked_range') and len(c[2].get('a', [])) >= 2]
        if not ctors:
            continue
        defs = Defs(fn)
        for pos, s, node, d in ctors:
            cnt = resolve_cond_source(fn, defs, node['a'][1])
            # guards that dominate the computation
            pos_cnt = fn.pos_of(cnt) or pos
            positive = set()         # expr keys known to be >= 1
            ordered = set()          # (key small, key big) with small < big known
            for b, blk in fn.blocks.items():
                if len(blk['succ']) != 2 or not blk.get('term') or 'c' not in blk['term']:
                    continue
                for si in (0, 1):
                    if blk['succ'][si] is None or not dominated_by_edges(fn, pos_cnt, {(b, si)})[0]:
                        continue
                    for (a, truth) in fn.edge_conds(b, si):
                        an = fn.n(fn.strip(a))
                        if an.get('k') != 'binop':
                            continue
                        l, r, op = an['l'], an['r'], an['op']
                        if not truth:
                            op = {'<': '>=', '<=': '>', '>': '<=', '>=': '<'}.get(op)
                        if op in ('>', '>=') and fn.cv(r) is not None and (fn.cv(r) >= 1 or (op == '>' and fn.cv(r) >= 0)):
                            positive.add(expr_key(fn, l))
                        if op == '<':
                            ordered.add((expr_key(fn, l), expr_key(fn, r)))
                        if op == '>':
                            ordered.add((expr_key(fn, r), expr_key(fn, l)))

            def env(x, positive=positive, ordered=ordered):
                xn = fn.n(x)
                if expr_key(fn, x) in positive:
                    return Iv((0.0, 1.0), (1.0, 0.0))
                if xn.get('k') == 'binop' and xn['op'] == '-' and (expr_key(fn, xn['r']), expr_key(fn, xn['l'])) in ordered:
                    return Iv((0.0, 1.0), (1.0, 0.0))          # big - small with small < big known: the distance, 1 .. MAX
                return None
            findings = []
            count_interval(fn, cnt, env, findings)
            n += 1
            rep.ob('D6', 'K14', fn, 'the iteration count of the stepped parallel_for is computed without adding two independently full-range '
                   'quantities (line %s)' % fn.n(cnt).get('ln'), not findings,
                   '; '.join('line %s: `%s` with operands in %s and %s can exceed the index type although first < last and step >= 1: for loops '
                             'near the top of the type the count wraps and the loop visits nothing / the wrong indices' % f for f in findings),
                   ln=fn.n(cnt).get('ln'), key_extra='count|%s' % fn.l0)
    if n < 2:
        raise AnalysisBroken('parallel_for_impl: iteration count computations not found (%d)' % n)
    m = 0
    for fn in facts.by_p.get(D1 + 'blocked_range::do_split', []):
        defs = Defs(fn)
        pp = fn.d.get('params', [])
        if len(pp) < 2 or 'proportional' in (pp[1].get('ty') or ''):
            continue
        rets = [node for pos, s, node in fn.stmt_elems(('return',)) if 'sub' in node]
        for node in rets:
            mid = resolve_cond_source(fn, defs, node['sub'])

            def env2(x):
                xn = fn.n(x)
                if xn.get('k') == 'binop' and xn['op'] == '-' and last_member(fn, xn['l']) == 'my_end' and last_member(fn, xn['r']) == 'my_begin':
                    return Iv((0.0, 0.0), (1.0, 0.0))          # class invariant begin <= end (documented precondition)
                return None
            findings = []
            count_interval(fn, mid, env2, findings)
            m += 1
            rep.ob('D6', 'K14', fn, 'the split point is computed without adding two independently full-range quantities', not findings,
                   '; '.join('line %s: `%s` can exceed the value type (operands in %s and %s): ranges in the upper half of the type are split at a '
                             'wrapped position' % f for f in findings), key_extra='mid|%s' % fn.l0)
    if m < 1:
        raise AnalysisBroken('blocked_range::do_split(split): split point computation not found')
    rep.floor('D6', 3, 'count / split point arithmetic')


# ---------------------------------------------------------------------------------------------------------------
# D7: the partitioners' range pool is a ring of MaxCapacity slots: its index steps are inverse cyclic permutations
# ---------------------------------------------------------------------------------------------------------------
def _eval_int(fn, x, env):
    """value of an integer expression with the ring index bound to a concrete slot number (C++ semantics after integral
    promotion to int: % and / truncate towards zero).  None = not evaluable."""
    c = fn.cv(x)
    if c is not None:
        return c
    x = fn.strip(x)
    n = fn.n(x)
    c = fn.cv(x)
    if c is not None:
        return c
    k = n.get('k')
    if k in ('cast', 'rd', 'paren'):
        return _eval_int(fn, n['sub'], env)
    if k == 'member' and n.get('n') in env:
        return env[n['n']]
    if k == 'binop':
        a = _eval_int(fn, n['l'], env)
        b = _eval_int(fn, n['r'], env)
        if a is None or b is None:
            return None
        op = n['op']
        if op == '+':
            return a + b
        if op == '-':
            return a - b
        if op == '*':
            return a * b
        if op == '&':
            return a & b
        if op in ('%', '/'):
            if b == 0:
                return None
            q = abs(a) // abs(b)
            if (a < 0) != (b < 0):
                q = -q
            return q if op == '/' else a - q * b
        if op == '<<':
            return a << b
        if op == '>>':
            return a >> b
        if op in ('==', '!=', '<', '<=', '>', '>='):
            return int({'==': a == b, '!=': a != b, '<': a < b, '<=': a <= b, '>': a > b, '>=': a >= b}[op])
    if k == 'cond':
        c0 = _eval_int(fn, n['c'], env)
        if c0 is None:
            return None
        return _eval_int(fn, n['l'] if c0 else n['r'], env)
    return None


def ring_steps(facts, rep, clause, cfgname):
    n = 0
    per_class = {}
    for fn in facts.fns.values():
        if not fn.p.startswith(D1 + 'range_vector::'):
            continue
        for pos, sx, l, r in assignments(fn):
            ln_ = fn.n(fn.strip(l))
            if ln_.get('k') != 'member' or ln_.get('n') not in ('my_head', 'my_tail'):
                continue
            if not any(fn.nodes[y].get('k') == 'member' and fn.nodes[y].get('n') == ln_['n'] for y in fn.subtree(r)):
                continue              # an initialisation, not a step
            per_class.setdefault(fn.q.rsplit('::', 1)[0], []).append((fn, ln_['n'], r, fn.n(sx).get('ln')))
    for cls, steps in sorted(per_class.items()):
        # the capacity of this instantiation: the template argument, read off the modulus / mask constant of the steps is not
        # trusted - it is taken from the class's static capacity through the size of the pool (MaxCapacity is a template value
        # parameter: every use folds to a constant)
        # the capacity of this instantiation: the array length of the pool member (aligned_space<T, MaxCapacity>)
        import re
        cap = None
        for g in facts.fns.values():
            if g.q.rsplit('::', 1)[0] != cls:
                continue
            for nd in g.nodes:
                if nd and nd.get('k') == 'member' and nd.get('n') == 'my_pool':
                    m = re.search(r',\s*(\d+)>\s*$', nd.get('ty') or '')
                    if m:
                        cap = int(m.group(1))
            if cap is not None:
                break
        if cap is None:
            raise AnalysisBroken('range_vector capacity not found for %s' % cls)
        fwd, bwd = [], []
        seen = set()
        for fn, idx, r, ln in steps:
            if (idx, ln) in seen:
                continue
            seen.add((idx, ln))
            img = []
            for v in range(cap):
                val = _eval_int(fn, r, {idx: v})
                img.append(None if val is None else val & 0xFF)      # stored into an unsigned char
            if any(v is None for v in img):
                raise AnalysisBroken('range_vector index step at line %s is not evaluable' % ln)
            in_range = all(0 <= v < cap for v in img)
            orbit, cur = 0, 0
            for _ in range(cap):
                cur = img[cur] if 0 <= cur < cap else -1
                orbit += 1
                if cur == 0 or cur < 0:
                    break
            cyclic = in_range and sorted(img) == list(range(cap)) and orbit == cap and cur == 0
            n += 1
            rep.ob(clause, 'K14', fn, 'range pool (capacity %d, %s): the %s step at line %s is a cyclic permutation of the slots'
                   % (cap, cfgname, idx, ln), cyclic,
                   'slot -> next slot is %s: the pool overwrites live sub-ranges or reads slots outside the pool (elements are dropped, '
                   'visited twice, or a garbage range reaches the body)' % dict(enumerate(img)), ln=ln, key_extra='ring|%s|%d|%s|%s' % (cfgname, cap, idx, ln))
            if cyclic:
                (fwd if img[0] == 1 % cap else bwd).append((idx, img, ln))
        for idx, b_img, bln in bwd:
            for idx2, f_img, fln in fwd:
                if idx2 != idx:
                    continue
                ok = all(b_img[f_img[v]] == v for v in range(cap))
                rep.ob(clause, 'K14', steps[0][0], 'range pool (capacity %d, %s): %s pop undoes %s push' % (cap, cfgname, idx, idx), ok,
                       'the step at line %s is not the inverse of the step at line %s' % (bln, fln), key_extra='ringinv|%s|%d|%s' % (cfgname, cap, idx))
    return n


def d7_range_pool_ring(facts, rep, clause='D7'):
    """The range pool of auto / affinity partitioner is a ring buffer of MaxCapacity sub-ranges indexed by unsigned char
    my_head / my_tail.  Every sub-range put into it must come out exactly once: the index steps (head forward on split, head
    backward on pop_back, tail forward on pop_front) must be cyclic permutations of [0, MaxCapacity), pop_back the inverse of the
    push step.  Decided by evaluating each step expression on every slot number (a finite domain; C++ promotion rules: an
    unsigned char minus one is the int -1, and -1 % 8 is -1), for the default capacity and - because the capacity is a
    documented user knob (__TBB_RANGE_POOL_CAPACITY) - for a capacity that is not a power of two."""
    n = ring_steps(facts, rep, clause, 'default capacity')
    if getattr(facts, 'config', '') == 'release11':
        from engine import runner
        wd = runner.Workdir()
        try:
            f6 = runner.extract(UNITS, 'pool6', wd)
            n += ring_steps(f6, rep, clause, '__TBB_RANGE_POOL_CAPACITY=6')
        finally:
            wd.cleanup()
    if n < 3:
        raise AnalysisBroken('range_vector index steps not found (%d)' % n)
    rep.floor(clause, 3, 'range pool ring steps')


def d1_grainsize_is_only_compared(facts, rep):
    """"a range that is not divisible is never split ... chunks respect the grain size": the grain size of a blocked_range is any
    positive value of size_type - `numeric_limits<size_t>::max()` is the common "never split" idiom - while positions are
    values of the (possibly narrower, possibly signed) Value type.  The divisibility test therefore compares the grain with the
    SIZE of the range (a difference of two positions, which exists whenever begin <= end); a position plus the grain, or any other
    arithmetic on the grain, can wrap and makes a non-divisible range report divisible.  Rule: in the methods of blocked_range
    the member my_grainsize is only read into comparisons, initialisers and return values, never into an arithmetic operator."""
    n = 0
    cls = D1 + 'blocked_range'
    for fn in sorted(facts.fns.values(), key=lambda f: f.q):
        if (fn.cls or '') != cls:
            continue
        pm = None
        bad = []
        for pos, s, nd in fn.stmt_elems(('member',)):
            if nd.get('n') != 'my_grainsize' or 'fn' in nd:
                continue
            pm = pm or fn.parent_map()
            n += 1
            cur = s
            for _ in range(6):
                par = pm.get(cur)
                if par is None:
                    break
                pn = fn.nodes[par]
                if pn.get('k') in ('rd', 'cast', 'paren'):
                    cur = par
                    continue
                if pn.get('k') == 'binop' and pn['op'] in ('+', '-', '*', '/', '%', '<<', '>>', '+=', '-='):
                    bad.append('`%s` at line %s' % (fn.path(par), pn.get('ln')))
                break
        if bad:
            rep.ob('D1', 'K14', fn, 'the grain size is only compared with the size of the range, never put into arithmetic', False,
                   'arithmetic on my_grainsize (%s): with a grain size near the limit of size_type (the "never split" idiom) or beyond the '
                   'range of Value the result wraps and a range that is not divisible is split' % ', '.join(bad), key_extra='grain-arith')
    for fn in facts.get(cls + '::is_divisible'):
        rep.ob('D1', 'K14', fn, 'the grain size is only compared with the size of the range, never put into arithmetic',
               any(nd.get('k') == 'member' and nd.get('n') == 'my_grainsize' for nd in fn.nodes if nd) and
               not any(nd and nd.get('k') == 'binop' and nd['op'] in ('+', '*') and
                       any(fn.nodes[x].get('n') == 'my_grainsize' for x in fn.subtree(nd['s'])) for nd in fn.nodes),
               'is_divisible() does not compare my_grainsize with size()', key_extra='grain-arith')
    if n < 3:
        raise AnalysisBroken('blocked_range: reads of my_grainsize: %d (expected constructor, accessor, is_divisible, splitting constructors)' % n)


# ---------------------------------------------------------------------------------------------------------------
# D1 (round 5 side remark): the multi-dimensional ranges never split a dimension that is not divisible
def _dim_key(fn, x, bind):
    nd = fn.n(fn.strip(x))
    if nd.get('k') == 'member' and not nd.get('fn'):
        return nd['n']
    if nd.get('k') == 'var':
        return bind.get(nd.get('v'), 'var:%s' % nd.get('n'))
    return None


def _cond_outcomes(facts, fn, x, bind, asg, depth=0):
    """all (truth, assignment) outcomes of condition x when every is_divisible() of a dimension and every arithmetic comparison is
    a free boolean (the comparisons are evaluated in floating point and may round either way)"""
    x = fn.strip(x)
    nd = fn.n(x)
    k = nd.get('k')
    if k == 'unop' and nd['op'] == '!':
        return [(not t, a) for t, a in _cond_outcomes(facts, fn, nd['sub'], bind, asg, depth)]
    if k == 'binop' and nd['op'] in ('&&', '||'):
        out = []
        for t, a in _cond_outcomes(facts, fn, nd['l'], bind, asg, depth):
            if (nd['op'] == '&&') != t:
                out.append((t, a))                 # short circuit
            else:
                out.extend(_cond_outcomes(facts, fn, nd['r'], bind, a, depth))
        return out
    key = None
    if k == 'call':
        d = fn.callee(x) or {}
        if d.get('n') == 'is_divisible' and nd.get('obj', -1) >= 0:
            dim = _dim_key(fn, nd['obj'], bind)
            if dim is None:
                raise AnalysisBroken('%s: is_divisible() on an expression that is not a dimension' % fn.q)
            key = ('div', dim)
        else:
            g = facts.fns.get(nd.get('fn'))
            rets = [r for _, _, r in g.stmt_elems(('return',))] if g is not None else []
            if g is None or len(rets) != 1 or depth > 3:
                raise AnalysisBroken('%s: condition calls %s, which is not a single-return helper' % (fn.q, d.get('n')))
            b2 = {}
            for p, a in zip(g.d.get('params', []), nd.get('a', [])):
                dk = _dim_key(fn, a, bind)
                if dk is not None:
                    b2[p['v']] = dk
            return _cond_outcomes(facts, g, rets[0]['sub'], b2, asg, depth + 1)
    elif k == 'binop' and nd['op'] in ('<', '>', '<=', '>='):
        key = ('cmp', fn.u, x, tuple(sorted(bind.items())))
    elif k == 'var':
        uv = Defs(fn).unique_value(x)
        if uv is not None:
            return _cond_outcomes(facts, fn, uv, bind, asg, depth + 1)
        key = ('var', fn.u, nd.get('v'))
    if key is None:
        raise AnalysisBroken('%s: condition form not understood at line %s (%s)' % (fn.q, nd.get('ln'), k))
    if key in asg:
        return [(asg[key], asg)]
    out = []
    for v in (True, False):
        a2 = dict(asg)
        a2[key] = v
        out.append((v, a2))
    return out


def d1_split_dimension_is_divisible(facts, rep):
    """"a range that is not divisible is never split": blocked_range2d / 3d / blocked_nd_range split ONE dimension, chosen by
    comparing size/grainsize ratios in floating point.  Above 2^53 the operands round; whatever a comparison then answers, the
    chosen dimension must be one whose own is_divisible() holds (the splitting constructor is only called on a divisible range:
    at least one dimension is).  Decided by enumeration: every is_divisible() of a dimension and every ratio comparison is a free
    boolean; the decision procedure of do_split (helpers inlined) is evaluated for all assignments with at least one divisible
    dimension, and each blocked_range::do_split it reaches must be on a dimension assigned divisible.  For blocked_nd_range the
    comparator handed to max_element must never rank a non-divisible dimension above a divisible one."""
    n = 0
    for fn in sorted(facts.fns.values(), key=lambda f: f.q):
        if fn.p not in (D1 + 'blocked_range2d::do_split', D1 + 'blocked_range3d::do_split'):
            continue
        splits = {}
        # the dimension being split is the one whose my_begin receives the result (`my_X.my_begin = X_range_type::do_split(r.my_X, ...)`;
        # that the argument names the same dimension is D2's business)
        split_calls = dict((s, pos) for pos, s, node, d in calls_named(fn, ('do_split',)) if (d.get('cls') or '').endswith('blocked_range'))
        for pos, s, l, r in assignments(fn):
            rs = fn.strip(r)
            ln_ = fn.n(fn.strip(l))
            if rs in split_calls and ln_.get('k') == 'member' and ln_.get('n') == 'my_begin':
                dim = _dim_key(fn, ln_.get('base', -1), {})
                if dim:
                    splits[split_calls[rs]] = (dim, fn.n(rs).get('ln'))
        dims = sorted(set(v[0] for v in splits.values()))
        if len(dims) < 2:
            raise AnalysisBroken('%s: split sites of the dimensions not found (%s)' % (fn.q, dims))
        bad = []
        work = [(fn.entry, {})]
        seen = 0
        while work:
            seen += 1
            if seen > 20000:
                raise AnalysisBroken('%s: decision procedure explodes' % fn.q)
            b, asg = work.pop()
            blk = fn.blocks[b]
            for i, e in enumerate(blk['e']):
                if (b, i) in splits:
                    dim, ln = splits[(b, i)]
                    others_all_false = all(asg.get(('div', o)) is False for o in dims if o != dim)
                    if asg.get(('div', dim)) is not True and not others_all_false:
                        bad.append('%s split at line %s with %s' % (dim, ln, ', '.join('%s %s' % (k_[1], 'divisible' if v else 'NOT divisible')
                                                                                      for k_, v in sorted(asg.items(), key=str) if k_[0] == 'div') or 'nothing known'))
            succ = [x for x in blk['succ']]
            t = blk.get('term')
            if len(succ) == 2 and t and 'c' in t and succ[0] is not None and succ[1] is not None:
                for truth, a2 in _cond_outcomes(facts, fn, t['c'], {}, asg):
                    work.append((succ[0] if truth else succ[1], a2))
            else:
                for x in succ:
                    if x is not None:
                        work.append((x, asg))
        n += 1
        rep.ob('D1', 'K14', fn, 'the dimension chosen for the split is divisible whatever the (floating point) ratio comparisons answer', not bad,
               '; '.join(sorted(set(bad))[:3]) + ': for sizes above 2^53 the products round, a tie goes to the first dimension, and a blocked_range that is '
               'not divisible is split (grain size bound violated)', key_extra='split-dim|' + fn.p)
    for fn in sorted(facts.fns.values(), key=lambda f: f.q):
        if fn.kind != 'lambda' or 'blocked_nd_range_impl' not in fn.q or '::do_split' not in fn.q or not fn.q.endswith('operator()'):
            continue
        ps = fn.d.get('params', [])
        rets = [r for _, _, r in fn.stmt_elems(('return',))]
        if len(ps) != 2 or len(rets) != 1:
            continue
        bind = {ps[0]['v']: 'first', ps[1]['v']: 'second'}
        bad = []
        for truth, asg in _cond_outcomes(facts, fn, rets[0]['sub'], bind, {}):
            f_, s_ = asg.get(('div', 'first')), asg.get(('div', 'second'))
            if truth and s_ is not True:
                bad.append('ranks `second` above `first` although second is %s' % ('not divisible' if s_ is False else 'not known to be divisible'))
            if not truth and not (s_ is False or f_ is True):
                bad.append('does not rank a divisible `second` above a `first` that may be not divisible')
        n += 1
        rep.ob('D1', 'K14', fn, 'the comparator that selects the dimension to split never ranks a non-divisible dimension above a divisible one', not bad,
               '; '.join(sorted(set(bad))) + ': max_element can select a dimension that is not divisible when the rounded ratios tie', key_extra='split-dim-nd')
    if n < 3:
        raise AnalysisBroken('multi-dimensional ranges: %d split decision procedures found (expected 2d, 3d, nd)' % n)
