"""C08 - mutexes: mutual exclusion, reader/writer rules, truthful upgrade, no lost grant.  (DESIGN.md section 4, C08)"""
from engine.facts import AnalysisBroken, atomic_op, atomic_ops, has_acquire, has_release, is_full_fence, SEQ_CST, ACQ_REL
from engine.rules import (calls, calls_named, every_path_passes, last_member, is_call_to, Defs, resolve_cond_source, oname,
                          edges_where, dominated_by_edges, member_accesses, root_of, assignments, value_root, atomics_on,
                          Summaries)
from engine import witness

UNITS = ['drivers/mutexes.cpp', 'src/tbb/queuing_rw_mutex.cpp', 'src/tbb/rtm_mutex.cpp', 'src/tbb/rtm_rw_mutex.cpp',
         'src/tbb/address_waiter.cpp']
D1N = 'tbb::detail::d1::'
R1 = 'tbb::detail::r1::'
QRW = R1 + 'queuing_rw_mutex_impl::'

EXPLANATION = (
    'Decides: D1 every ownership transition of every mutex is an atomic RMW with at least the required order (spin_mutex, '
    'mutex, spin_rw_mutex, rw_mutex, queuing_mutex, queuing_rw_mutex incl. hand-off stores of 1 to another node\'s my_going >= '
    'release, grant waits >= acquire, enqueue exchange / try CAS >= acq_rel, ACTIVEREADER publication and queue-emptying CAS >= '
    'release, internal-lock pairing on every path); D2 guards evaluated by value: the writer CAS is taken only when the tested '
    'mask covers WRITER|READERS, the reader increment only when it covers WRITER|WRITER_PENDING, and a reader that sees WRITER '
    'after its increment undoes it on every path; D3 try-operations reach no blocking call and report success only on the RMW '
    'success edge, scoped locks record the mutex only on that edge (RTM try_acquire: every wait in acquire is behind '
    '!only_speculate); D4 upgrade returns true only through the successful CAS without unlock_shared, and false only after '
    'unlock_shared then lock; D5 scoped-lock destructors release iff a mutex is held, locks/mutexes are non-copyable and the '
    'state constants are mutually consistent (compile-time witnesses); D6 the queue of the queuing mutexes is entered only by '
    'the single exchange/CAS on q_tail.  Mutual exclusion over all interleavings of the queuing_rw_mutex state machine and FIFO '
    'fairness are NOT decided.')
EXPLANATION += ' Added after the seeded-change rounds: ' + "D6 also: a function that enqueues its node by an RMW on q_tail and then waits for the node's grant flag has cleared that flag on every path before the RMW."
EXPLANATION += ' Added in the third session (round-3 seeds and the findings they led to): ' + "D7: the sleeper table of tbb::mutex / rw_mutex - every wait-set scan covers all nodes, waiter and notifiers select the monitor from the same address, every notifier's predicate compares the sleeper's address."
EXPLANATION += ' Added in the fourth round of seeded changes: ' + 'D1 also (speculative_spin_rw_mutex): write_flag is raised only while the underlying write lock is held (after lock(), after upgrade() returned, on the success edge of try_lock()), every acquisition raises it on all paths, it is lowered only in front of unlock()/downgrade() and not touched afterwards.'
EXPLANATION += ' Added in the fifth round: ' + 'D7 also: the rw_mutex downgrade rule of C02-D4 (shared).'
ASSUMPTIONS = ['C++11 memory model lower bounds', 'witnesses compiled with -fno-access-control to read private constants']
ND = ['mutual exclusion over all interleavings of the queuing_rw_mutex state machine', 'FIFO fairness as a history property',
      'absence of lost hand-off beyond the checked orders']

BLOCKING = ('pause', 'spin_wait_while_eq', 'spin_wait_until_eq', 'spin_wait_while', 'adaptive_wait_on_address', 'wait_on_address',
            'wait', 'machine_pause', 'yield', 'lock', 'lock_shared', 'acquire_internal_lock', 'wait_for_release_of_internal_lock')


def run(facts, rep):
    d1_transitions(facts, rep)
    d1_rtm_write_flag(facts, rep)
    d2_guards(facts, rep)
    d3_try(facts, rep)
    d4_upgrade(facts, rep)
    d5_raii(facts, rep)
    d6_queue(facts, rep)
    d7_sleepers(facts, rep)


def d7_sleepers(facts, rep):
    """tbb::mutex / rw_mutex park blocked acquirers in a table of monitors indexed by a hash of the mutex address (several
    objects share one monitor).  "No lost grant": a release finds the sleepers of ITS object among all the nodes of the shared
    wait set - every scan of the wait set covers all nodes (start and step agree), the waiter and all three notifiers pick the
    monitor with the same function of the address, and every notifier's predicate compares the sleeper's address with the
    notified address."""
    from rules.C02 import d1_scan_direction
    d1_scan_direction(facts, rep, clause='D7')
    from rules.C02 import rw_downgrade_wakes_all
    rw_downgrade_wakes_all(facts, rep, 'D7')
    pick = {}
    for name in ('wait_on_address', 'notify_by_address', 'notify_by_address_one', 'notify_by_address_all'):
        for fn in facts.get(R1 + name):
            cs = calls_named(fn, ('get_address_waiter',))
            params = set(nd.get('v') for nd in fn.nodes if nd.get('k') == 'var' and nd.get('param') == 0)
            ok = len(cs) == 1 and cs[0][2].get('a') and fn.n(fn.strip(cs[0][2]['a'][0])).get('v') in params
            rep.ob('D7', 'K10', fn, '%s picks the monitor from the address it was given' % name, bool(ok),
                   'waiter and notifier can end up in different monitors', key_extra=name)
            if name == 'wait_on_address':
                continue
            lam = [facts.fns.get(nd.get('fn')) for nd in fn.nodes if nd.get('k') == 'lambda']
            lam = [g for g in lam if g is not None]
            good = False
            for g in lam:
                for nd in g.nodes:
                    if nd.get('k') == 'binop' and nd.get('op') == '==':
                        sides = [last_member(g, nd['l']), last_member(g, nd['r'])]
                        if 'my_address' in sides:
                            good = True
            rep.ob('D7', 'K10', fn, 'the predicate of %s selects the sleepers of the notified address' % name, good,
                   'sleepers of another object that shares the monitor are woken instead / as well, or nobody is', key_extra=name + '|pred')
    rep.floor('D7', 10, 'sleeper table')


def witnesses(rep, tier):
    witness.check_file(rep, 'D5', 'witness/mutex.cpp', extra_flags=['-fno-access-control'], floor=10)
    if tier == 'thorough':
        witness.check_file(rep, 'D5', 'witness/mutex.cpp', std='-std=c++11', extra_flags=['-fno-access-control'], floor=10)


def ops_on(fn, member):
    return [(p, o) for p, o in atomic_ops(fn) if o['kind'] != 'fence' and last_member(fn, o['obj']) == member]


def req(rep, clause, fn, what, ops, pred, minimum=1, detail_extra=''):
    good = [o for _, o in ops if pred(o)]
    bad = [o for _, o in ops if not pred(o)]
    ok = len(good) >= minimum and not bad
    rep.ob(clause, 'K1', fn, what, ok, 'operations found: ' + (', '.join('%s.%s(%s) line %s' % (o['path'], o['name'], oname(o['order']), o['ln'])
                                                                          for _, o in ops) or 'none') + detail_extra)


def wait_orders(fn, member):
    """memory orders of spin_wait_* calls whose first argument designates `member`"""
    out = []
    for pos, s, node, d in calls_named(fn, ('spin_wait_until_eq', 'spin_wait_while_eq', 'spin_wait_while')):
        a = node.get('a', [])
        if a and last_member(fn, a[0]) == member:
            o = fn.cv(a[2]) if len(a) > 2 else None
            out.append((pos, node, 2 if o is None and d['n'] != 'spin_wait_while' else o))   # default argument = acquire
    return out


def d1_transitions(facts, rep):
    M = D1N
    # spin_mutex
    for fn in facts.get(M + 'spin_mutex::lock') + facts.get(M + 'spin_mutex::try_lock'):
        req(rep, 'D1', fn, 'spin_mutex is taken by an acquiring RMW', [x for x in ops_on(fn, 'm_flag') if x[1]['kind'] != 'load'],
            lambda o: o['kind'] in ('rmw', 'cas') and has_acquire(o['order'] or 0))
    for fn in facts.get(M + 'spin_mutex::unlock'):
        req(rep, 'D1', fn, 'spin_mutex::unlock publishes with release', [x for x in ops_on(fn, 'm_flag') if x[1]['kind'] != 'load'],
            lambda o: has_release(o['order'] or 0))
    # mutex (waitable atomic)
    for fn in facts.get(M + 'waitable_atomic::exchange'):
        req(rep, 'D1', fn, 'waitable_atomic::exchange is a seq_cst exchange', ops_on(fn, 'my_atomic'),
            lambda o: o['kind'] == 'rmw' and o['order'] == SEQ_CST)
    for fn in facts.get(M + 'mutex::try_lock'):
        xs = [c for c in calls_named(fn, ('exchange',)) if c[3].get('cls', '').endswith('waitable_atomic')]
        rep.ob('D1', 'K1', fn, 'mutex is taken by test-and-exchange', bool(xs), 'no exchange on my_flag')
    for fn in facts.get(M + 'mutex::unlock'):
        xs = [c for c in calls_named(fn, ('exchange',)) if c[3].get('cls', '').endswith('waitable_atomic')]
        rep.ob('D1', 'K1', fn, 'mutex::unlock releases by exchange (full fence before the notification)', bool(xs), 'no exchange on my_flag')
    # rw mutexes
    for cls in ('spin_rw_mutex', 'rw_mutex'):
        for name in ('lock', 'try_lock'):
            for fn in facts.get(M + cls + '::' + name):
                ws = [x for x in ops_on(fn, 'm_state') if x[1]['kind'] != 'load']
                if name == 'lock' and cls == 'rw_mutex':
                    continue      # rw_mutex::lock loops over try_lock; only sets WRITER_PENDING itself
                req(rep, 'D1', fn, '%s::%s takes the writer bit by CAS (acquire)' % (cls, name), [x for x in ws if x[1]['kind'] == 'cas'],
                    lambda o: has_acquire(o['order'] or 0))
                rep.ob('D1', 'K1', fn, '%s::%s never stores the state word plainly' % (cls, name), not [x for x in ws if x[1]['kind'] == 'store'],
                       'plain store to m_state')
        for name in ('lock_shared', 'try_lock_shared'):
            for fn in facts.get(M + cls + '::' + name):
                ws = [x for x in ops_on(fn, 'm_state') if x[1]['kind'] != 'load']
                if name == 'lock_shared' and cls == 'rw_mutex':
                    continue
                req(rep, 'D1', fn, '%s::%s registers the reader by an acquiring fetch_add' % (cls, name),
                    [x for x in ws if x[1]['name'] in ('fetch_add', 'operator+=', 'operator++')], lambda o: has_acquire(o['order'] or 0))
                rep.ob('D1', 'K1', fn, '%s::%s never stores the state word plainly' % (cls, name), not [x for x in ws if x[1]['kind'] == 'store'],
                       'plain store to m_state')
        for name in ('unlock', 'unlock_shared', 'downgrade'):
            for fn in facts.get(M + cls + '::' + name):
                ws = [x for x in ops_on(fn, 'm_state') if x[1]['kind'] != 'load']
                req(rep, 'D1', fn, '%s::%s is a releasing RMW on the state word' % (cls, name), ws,
                    lambda o: o['kind'] in ('rmw', 'cas') and has_release(o['order'] or 0))
    # queuing_mutex
    ql = M + 'queuing_mutex::scoped_lock::'
    for fn in facts.get(ql + 'acquire'):
        req(rep, 'D1', fn, 'queuing_mutex enqueues by exchange on q_tail (acq_rel)', [x for x in ops_on(fn, 'q_tail')],
            lambda o: o['kind'] == 'rmw' and o['name'] == 'exchange' and has_acquire(o['order'] or 0) and has_release(o['order'] or 0))
        w = wait_orders(fn, 'm_going')
        rep.ob('D1', 'K1', fn, 'the grant is awaited with acquire', bool(w) and all(has_acquire(o or 0) for _, _, o in w),
               'spin on m_going with %s' % [oname(o) for _, _, o in w])
        st = [x for x in ops_on(fn, 'm_next') if x[1]['kind'] == 'store' and fn.n(root_of(fn, x[1]['obj'])).get('k') == 'var']
        rep.ob('D1', 'K1', fn, 'the predecessor link is published with release', bool(st) and all(has_release(o['order'] or 0) for _, o in st),
               ', '.join(oname(o['order']) for _, o in st))
    for fn in facts.get(ql + 'try_acquire'):
        req(rep, 'D1', fn, 'queuing_mutex try_acquire is a CAS on q_tail (acq_rel)', [x for x in ops_on(fn, 'q_tail') if x[1]['kind'] != 'load'],
            lambda o: o['kind'] == 'cas' and has_acquire(o['order'] or 0) and has_release(o['order'] or 0))
    for fn in facts.get(ql + 'release'):
        st = [x for x in ops_on(fn, 'm_going') if x[1]['kind'] == 'store']
        rep.ob('D1', 'K1', fn, 'the lock is handed to the successor by a release store of 1 to its m_going',
               bool(st) and all(has_release(o['order'] or 0) and fn.cv(o['val']) == 1 for _, o in st),
               ', '.join('%s(%s)' % (o['name'], oname(o['order'])) for _, o in st))
        req(rep, 'D1', fn, 'the queue is emptied by a releasing CAS on q_tail', [x for x in ops_on(fn, 'q_tail') if x[1]['kind'] != 'load'],
            lambda o: o['kind'] == 'cas' and has_release(o['order'] or 0))
    # queuing_rw_mutex
    for fn in facts.get(QRW + 'acquire'):
        req(rep, 'D1', fn, 'queuing_rw_mutex enqueues by exchange on q_tail (acq_rel)', [x for x in ops_on(fn, 'q_tail')],
            lambda o: o['kind'] == 'rmw' and o['name'] == 'exchange' and has_acquire(o['order'] or 0) and has_release(o['order'] or 0))
        cas = [x for x in ops_on(fn, 'my_state') if x[1]['kind'] == 'cas' and fn.cv(x[1]['val']) == 8]
        rep.ob('D1', 'K1', fn, 'ACTIVEREADER is published with release on success', bool(cas) and all(has_release(o['order'] or 0) for _, o in cas),
               ', '.join(oname(o['order']) for _, o in cas))
    for fn in facts.get(QRW + 'try_acquire'):
        req(rep, 'D1', fn, 'queuing_rw_mutex try_acquire is a CAS on q_tail (acq_rel)', [x for x in ops_on(fn, 'q_tail') if x[1]['kind'] != 'load'],
            lambda o: o['kind'] == 'cas' and has_acquire(o['order'] or 0) and has_release(o['order'] or 0))
    n_going = 0
    for fn in facts.find(r'^tbb::detail::r1::queuing_rw_mutex_impl::(acquire|release|upgrade_to_writer|downgrade_to_reader)$'):
        for p, o in ops_on(fn, 'my_going'):
            if o['kind'] != 'store' or fn.cv(o['val']) != 1:
                continue
            rt = fn.n(root_of(fn, o['obj']))
            lock_params = set(p['v'] for p in fn.d.get('params', []) if 'scoped_lock' in p['ty'])     # the caller's own queue node
            own = rt.get('k') == 'var' and rt.get('v') in lock_params and '->' not in o['path'] and 'load' not in o['path']
            if own:
                continue      # marking one's own node needs no release: nobody else reads it for synchronisation
            n_going += 1
            rep.ob('D1', 'K1', fn, 'grant of another node (my_going = 1, line %s) is a release store' % o['ln'], has_release(o['order'] or 0),
                   '%s.store(1, %s): the next holder does not see the critical section\'s writes' % (o['path'], oname(o['order'])),
                   ln=o['ln'], key_extra=str(o['ln']))
        for pos, node, o in wait_orders(fn, 'my_going'):
            v = fn.cv(node['a'][1]) if len(node.get('a', [])) > 1 else None
            if v != 1:
                continue
            rep.ob('D1', 'K1', fn, 'grant wait on my_going (line %s) is an acquire' % node['ln'], has_acquire(o or 0),
                   'spin_wait_until_eq(my_going, 1, %s)' % oname(o), ln=node['ln'], key_extra='w' + str(node['ln']))
        # internal lock pairing
        acq = calls_named(fn, ('acquire_internal_lock',))
        for pos, s, node, d in acq:
            ok, wit = every_path_passes(fn, pos, lambda p, e: is_call_to(fn, e, shortnames=('release_internal_lock', 'unblock_or_wait_on_internal_lock')))
            rep.ob('D1', 'K3', fn, 'acquire_internal_lock at line %s is handed back on every path' % node['ln'], ok,
                   'the node\'s internal lock stays held: ' + wit, ln=node['ln'], key_extra='il' + str(node['ln']))
    if n_going < 3:
        raise AnalysisBroken('queuing_rw_mutex: only %d grant stores found' % n_going)
    for fn in facts.get(QRW + 'release'):
        cas = [x for x in ops_on(fn, 'q_tail') if x[1]['kind'] == 'cas']
        rep.ob('D1', 'K1', fn, 'queuing_rw_mutex empties the queue by releasing CAS', bool(cas) and all(has_release(o['order'] or 0) for _, o in cas),
               ', '.join(oname(o['order']) for _, o in cas))
    for fn in facts.get(QRW + 'try_acquire_internal_lock'):
        req(rep, 'D1', fn, 'the internal lock is taken by CAS', [x for x in ops_on(fn, 'my_internal_lock')], lambda o: o['kind'] == 'cas' and has_acquire(o['order'] or 0))
    for fn in facts.get(QRW + 'release_internal_lock'):
        req(rep, 'D1', fn, 'the internal lock is released with release order', [x for x in ops_on(fn, 'my_internal_lock')], lambda o: has_release(o['order'] or 0))
    for fn in facts.get(QRW + 'downgrade_to_reader'):
        # my_state store and q_tail load form a store-load pair: both seq_cst (or a fence in between)
        st = [x for x in ops_on(fn, 'my_state') if x[1]['kind'] in ('store', 'rmw', 'cas')]
        ld = [x for x in ops_on(fn, 'q_tail') if x[1]['kind'] == 'load']
        ok = bool(st) and bool(ld)
        for lp, lo in ld:
            pre = [(sp, so) for sp, so in st if fn.can_reach(sp, lp)]
            for sp, so in pre:
                both = so['order'] == SEQ_CST and lo['order'] == SEQ_CST
                fenced = every_path_passes(fn, sp, lambda p, e: isinstance(e, int) and is_full_fence(atomic_op(fn, e)), end=lp)[0]
                ok = ok and (both or fenced or is_full_fence(so))
        rep.ob('D1', 'K2', fn, 'downgrade: state store and q_tail load are ordered (seq_cst pair or full fence)', ok,
               'a downgrading writer and an arriving reader can miss each other')
    # RTM fall-back uses the real mutex
    for fname, names in ((R1 + 'rtm_mutex_impl::acquire', ('lock',)), (R1 + 'rtm_mutex_impl::try_acquire', ('try_lock',)),
                         (R1 + 'rtm_mutex_impl::release', ('unlock',)), (R1 + 'rtm_rw_mutex_impl::acquire_writer', ('lock',)),
                         (R1 + 'rtm_rw_mutex_impl::acquire_reader', ('lock_shared',)), (R1 + 'rtm_rw_mutex_impl::release', ('unlock', 'unlock_shared'))):
        for fn in facts.get(fname):
            cs = calls_named(fn, names)
            rep.ob('D1', 'K4', fn, 'the non-speculative path calls the real %s' % '/'.join(names), len(cs) >= len(names), 'missing call')
    rep.floor('D1', 45, 'ownership transitions')


def d1_rtm_write_flag(facts, rep):
    """speculative_spin_rw_mutex: speculative READERS look only at `write_flag` (they put it into their read set), never at the
    state word of the underlying spin_rw_mutex.  A real (non-speculative) writer therefore has to keep the flag raised for
    exactly the time it holds the underlying write lock:
      (a) the flag is raised only while the underlying write lock is held - after lock(), after upgrade() has returned (its slow
          path releases the read lock and waits in lock(); a writer that runs meanwhile clears the flag when it leaves), or on
          the success edge of try_lock();
      (b) every acquisition of the underlying write lock is followed on all paths by raising the flag;
      (c) the flag is lowered only in front of giving the write lock up (unlock()/downgrade()) and nothing touches it after that.
    Otherwise a transactional reader is admitted while a real writer is inside."""
    impl = [fn for fn in facts.fns.values() if fn.q.startswith(R1 + 'rtm_rw_mutex_impl::')]
    if not impl:
        raise AnalysisBroken('rtm_rw_mutex_impl: no functions extracted')
    BASE = 'spin_rw_mutex::'
    n_raise = n_lower = n_acq = 0
    for fn in sorted(impl, key=lambda f: f.q):
        base = [(pos, s, (d or {}).get('q', '').split(BASE)[-1]) for pos, s, node, d in calls(fn) if BASE in (d or {}).get('q', '')]
        acq_calls = set(pos for pos, s, nm in base if nm in ('lock', 'upgrade'))
        try_nodes = set(s for pos, s, nm in base if nm == 'try_lock')
        rel_calls = set(pos for pos, s, nm in base if nm in ('unlock', 'downgrade'))
        defs = Defs(fn)
        try_edges = edges_where(fn, lambda a, truth: truth and fn.strip(resolve_cond_source(fn, defs, a)) in try_nodes)
        stores = atomics_on(fn, 'write_flag', kinds=('store', 'rmw', 'cas'))
        raises = [(pos, o) for pos, o in stores if o['kind'] == 'store' and fn.cv(o.get('val', -1)) == 1]
        lowers = [(pos, o) for pos, o in stores if o['kind'] == 'store' and fn.cv(o.get('val', -1)) == 0]
        for pos, o in stores:
            if (pos, o) not in raises and (pos, o) not in lowers:
                rep.ob('D1', 'K11', fn, 'write_flag is only ever stored with a literal truth value', False,
                       'write_flag changed by %s with a computed value' % o['name'], ln=o.get('ln'))
        is_acq = lambda p, e: p in acq_calls   # noqa: E731
        for pos, o in raises:
            n_raise += 1
            ok, wit = every_path_passes(fn, 'entry', is_acq, end=pos, stop_edge=lambda b, si: (b, si) in try_edges)
            late = [r for r in rel_calls if fn.can_reach(r, pos, stop_elem=is_acq, stop_edge=lambda b, si: (b, si) in try_edges)]
            rep.ob('D1', 'K4', fn, 'write_flag is raised only while the underlying write lock is held', ok and not late,
                   'the flag is raised before the write lock is owned (%s): the slow path of upgrade()/lock() waits while another writer runs '
                   'and clears the flag on leaving - the new writer then works with the flag down and transactional readers are admitted'
                   % (wit or 'after a release'), ln=o.get('ln'), key_extra='raise')
        for p_ in sorted(acq_calls):
            n_acq += 1
            ok, wit = every_path_passes(fn, p_, lambda p, e: p in set(x[0] for x in raises))
            rep.ob('D1', 'K1', fn, 'after acquiring the underlying write lock the flag is raised on every path', ok,
                   'a real writer runs with write_flag down: ' + wit, ln=fn.nodes[fn.blocks[p_[0]]['e'][p_[1]]].get('ln'), key_extra='acq')
        for (b, si) in sorted(try_edges):
            n_acq += 1
            ok, wit = every_path_passes(fn, (fn.blocks[b]['succ'][si], -1), lambda p, e: p in set(x[0] for x in raises))
            rep.ob('D1', 'K1', fn, 'after a successful try_lock of the underlying mutex the flag is raised on every path', ok,
                   'a real writer runs with write_flag down: ' + wit, key_extra='tryacq')
        for pos, o in lowers:
            n_lower += 1
            ok, wit = every_path_passes(fn, pos, lambda p, e: p in rel_calls)
            rep.ob('D1', 'K1', fn, 'write_flag is lowered only in front of releasing / downgrading the underlying write lock', ok,
                   'the flag is cleared while the write lock stays held: ' + wit, ln=o.get('ln'), key_extra='lower')
        for r in sorted(rel_calls):
            touched = [pos for pos, o in stores if fn.can_reach(r, pos, stop_elem=is_acq, stop_edge=lambda b, si: (b, si) in try_edges)]
            rep.ob('D1', 'K4', fn, 'write_flag is not touched after the underlying write lock was given up', not touched,
                   'after unlock()/downgrade() another writer may own the flag; the store at %s overwrites it' % touched,
                   ln=fn.nodes[fn.blocks[r[0]]['e'][r[1]]].get('ln'), key_extra='after-release')
    if n_raise < 3 or n_lower < 2 or n_acq < 3:
        raise AnalysisBroken('rtm_rw_mutex_impl: write_flag sites found: %d raise / %d lower / %d acquisitions (expected >= 3/2/3)' % (n_raise, n_lower, n_acq))


def mask_value(fn, defs, s):
    v = fn.cv(s)
    if v is not None:
        return int(v)
    src = defs.unique_value(s)
    if src is not None:
        return mask_value(fn, defs, src) if src != s else None
    n = fn.n(fn.strip(s))
    if n.get('k') == 'binop' and n['op'] == '|':
        a, b = mask_value(fn, defs, n['l']), mask_value(fn, defs, n['r'])
        if a is not None and b is not None:
            return a | b
    return None


def mask_clear_edges(fn, defs, need):
    """edges on which `(x & M) == 0` is known with M covering `need`"""
    def atom(a, truth):
        n = fn.n(fn.strip(a))
        if n.get('k') != 'binop' or n['op'] != '&' or truth:
            return False
        for side in (n['l'], n['r']):
            m = mask_value(fn, defs, side)
            if m is not None and (m & need) == need:
                return True
        return False
    return edges_where(fn, atom)


def d2_guards(facts, rep):
    WRITER, PENDING, READERS = 1, 2, ~3
    BUSY = WRITER | READERS
    for cls in ('spin_rw_mutex', 'rw_mutex'):
        for name in ('lock', 'try_lock'):
            for fn in facts.get(D1N + cls + '::' + name):
                cas = [x for x in ops_on(fn, 'm_state') if x[1]['kind'] == 'cas']
                if not cas:
                    continue
                defs = Defs(fn)
                e = mask_clear_edges(fn, defs, BUSY)
                for p, o in cas:
                    ok, wit = dominated_by_edges(fn, p, e)
                    ok = ok and fn.cv(o['val']) == WRITER
                    rep.ob('D2', 'K4', fn, 'the writer CAS is attempted only when no reader and no writer was seen (mask covers WRITER|READERS)',
                           ok, 'a writer can enter while readers hold the lock: ' + wit, ln=o['ln'])
        for name in ('lock_shared', 'try_lock_shared'):
            for fn in facts.get(D1N + cls + '::' + name):
                inc = [x for x in ops_on(fn, 'm_state') if x[1]['name'] in ('fetch_add',)]
                if not inc:
                    continue
                defs = Defs(fn)
                e = mask_clear_edges(fn, defs, WRITER | PENDING)
                for p, o in inc:
                    ok, wit = dominated_by_edges(fn, p, e)
                    rep.ob('D2', 'K4', fn, 'a reader registers only when no writer holds or waits (mask covers WRITER|WRITER_PENDING)', ok, wit,
                           ln=o['ln'])
                    # seeing WRITER in the old value => undo on every path

                    def saw_writer(a, truth):
                        n = fn.n(fn.strip(a))
                        if n.get('k') != 'binop' or n['op'] != '&' or not truth:
                            return False
                        for x, y in ((n['l'], n['r']), (n['r'], n['l'])):
                            m = mask_value(fn, defs, y)
                            if m is not None and (m & WRITER) and (fn.subtree(resolve_cond_source(fn, defs, x)) & {o['s']}):
                                return True
                        return False
                    se = edges_where(fn, saw_writer)
                    undo_ok = bool(se)
                    for (b, si) in se:
                        undo_ok = undo_ok and every_path_passes(
                            fn, (fn.blocks[b]['succ'][si], -1),
                            lambda q, el: isinstance(el, int) and (atomic_op(fn, el) or {}).get('name') in ('operator-=', 'fetch_sub', 'operator--')
                            and last_member(fn, atomic_op(fn, el)['obj']) == 'm_state')[0]
                    rep.ob('D2', 'K3', fn, 'a reader that sees WRITER after its increment takes the increment back on every path', undo_ok,
                           'the reader count stays raised although the reader did not get the lock: writers starve / count corrupt',
                           ln=o['ln'], key_extra='undo')
    rep.floor('D2', 7, 'guards by value')


def d3_try(facts, rep):
    summ = Summaries(facts, max_depth=4)

    def blocking(fn, pos, e):
        if not isinstance(e, int) or fn.nodes[e].get('k') != 'call':
            return False
        d = fn.callee(e)
        return bool(d) and d['n'] in BLOCKING and not d['p'].startswith('std::')
    tries = []
    for p in list(facts.by_p):
        short = p.split('::')[-1]
        if short in ('try_lock', 'try_lock_shared', 'try_acquire') and p.startswith('tbb::detail::') and 'null_' not in p:
            tries += facts.by_p[p]
    if len(tries) < 12:
        raise AnalysisBroken('only %d try-operations found' % len(tries))
    for fn in tries:
        rtm = 'rtm_' in fn.p or 'rtm_' in fn.file.split('/')[-1]
        if rtm:
            continue
        may = summ.may(fn, 'blocking', blocking)
        rep.ob('D3', 'K11', fn, 'try-operation reaches no blocking call', not may,
               'a try_* operation can wait (spin/backoff/futex) instead of failing immediately')
    # RTM: waits in acquire* are behind !only_speculate
    for fname in (R1 + 'rtm_mutex_impl::acquire', R1 + 'rtm_rw_mutex_impl::acquire_writer', R1 + 'rtm_rw_mutex_impl::acquire_reader'):
        for fn in facts.get(fname):
            spec = set(p['v'] for p in fn.d.get('params', []) if p['ty'] == 'bool')      # the only_speculate flag
            e = edges_where(fn, lambda a, truth: (not truth) and fn.n(fn.strip(a)).get('k') == 'var' and fn.n(fn.strip(a)).get('v') in spec)
            for pos, s, node in fn.stmt_elems(('call',)):
                if blocking(fn, pos, s):
                    ok, wit = dominated_by_edges(fn, pos, e)
                    rep.ob('D3', 'K4', fn, 'blocking call at line %s is skipped when only speculating (try_acquire)' % node['ln'], ok,
                           'RTM try_acquire can block: ' + wit, ln=node['ln'], key_extra=str(node['ln']))
    for fname in (R1 + 'rtm_mutex_impl::try_acquire', R1 + 'rtm_rw_mutex_impl::try_acquire_writer', R1 + 'rtm_rw_mutex_impl::try_acquire_reader'):
        for fn in facts.get(fname, required=False):
            for pos, s, node, d in calls_named(fn, ('acquire', 'acquire_writer', 'acquire_reader')):
                a = node.get('a', [])
                rep.ob('D3', 'K10', fn, 'RTM try_acquire speculates only (only_speculate = true)', bool(a) and fn.cv(a[-1]) == 1,
                       'acquire(..., only_speculate=%s)' % (fn.cv(a[-1]) if a else '?'), ln=node['ln'])
    # truthfulness
    for fn in tries:
        if 'rtm_' in fn.p or 'rtm_' in fn.file.split('/')[-1] or fn.p.endswith('scoped_lock::try_acquire') and 'queuing' not in fn.p:
            continue
        defs = Defs(fn)
        rm = [(p, o) for p, o in atomic_ops(fn) if o['kind'] in ('rmw', 'cas') and o['name'] not in ('operator-=', 'fetch_sub', 'operator|=', 'fetch_or')]
        wrapped = [c for c in calls_named(fn, ('exchange', 'try_acquire', 'try_acquire_internal_lock')) if not atomic_op(fn, c[1])]
        succ_nodes = set(o['s'] for _, o in rm) | set(c[1] for c in wrapped)
        if not succ_nodes:
            continue

        def success(a, truth):
            src = fn.strip(resolve_cond_source(fn, defs, a))
            if src in succ_nodes:
                op = atomic_op(fn, src)
                if op and op['kind'] == 'rmw' and op['name'] in ('exchange', 'test_and_set'):
                    return not truth         # exchange(true) returned false => acquired
                if op and op['kind'] == 'rmw' and op['name'] == 'fetch_add':
                    return False
                return truth
            n = fn.n(src)
            # `!(prev & WRITER)` after fetch_add : handled by mask edges below
            return False
        e = edges_where(fn, success)
        m = mask_clear_edges(fn, defs, 1)
        for pos, s, node in fn.stmt_elems(('return',)):
            if 'sub' not in node:
                continue
            v = fn.cv(node['sub'])
            if v == 1:
                ok, wit = dominated_by_edges(fn, pos, e | m)
                rep.ob('D3', 'K4', fn, '`return true` only on the success edge of the RMW', ok,
                       'try-operation reports success although the lock was not taken: ' + wit, ln=node['ln'], key_extra=str(node['ln']))
            elif v is None:
                src = resolve_cond_source(fn, defs, node['sub'])
                ok = bool(fn.subtree(src) & succ_nodes)
                rep.ob('D3', 'K10', fn, 'the returned result is computed from the RMW', ok,
                       'result %s is not derived from the atomic operation' % fn.path(node['sub']), ln=node['ln'], key_extra=str(node['ln']))
    # scoped locks record the mutex only on success
    for cls in ('unique_scoped_lock', 'rw_scoped_lock'):
        for fn in facts.get(D1N + cls + '::try_acquire'):
            defs = Defs(fn)
            tl = set(c[1] for c in calls_named(fn, ('try_lock', 'try_lock_shared')))
            # the source may be `write ? m.try_lock() : m.try_lock_shared()`

            def ok_edge(a, truth):
                src = resolve_cond_source(fn, defs, a)
                return truth and bool(fn.subtree(src) & tl)
            e = edges_where(fn, ok_edge)
            asg = [(p, s) for p, s, l, r in assignments(fn) if last_member(fn, l) == 'm_mutex']
            ok = bool(asg) and bool(e) and all(dominated_by_edges(fn, p, e)[0] for p, _ in asg)
            rep.ob('D3', 'K4', fn, 'the scoped lock records the mutex only when try_lock succeeded', ok,
                   'm_mutex is set although the lock was not acquired: the destructor unlocks a mutex it does not own')
    for fn in facts.get(D1N + 'queuing_mutex::scoped_lock::try_acquire') + facts.get(QRW + 'try_acquire'):
        cas = set(o['s'] for _, o in ops_on(fn, 'q_tail') if o['kind'] == 'cas')
        e = edges_where(fn, lambda a, truth: truth and fn.strip(a) in cas)
        asg = [(p, s) for p, s, l, r in assignments(fn) if last_member(fn, l) in ('m_mutex', 'my_mutex')]
        ok = bool(asg) and all(dominated_by_edges(fn, p, e)[0] for p, _ in asg)
        rep.ob('D3', 'K4', fn, 'the queue node records the mutex only when the CAS succeeded', ok, 'mutex recorded on the failure path')
    rep.floor('D3', 20, 'try operations')


def d4_upgrade(facts, rep):
    for cls in ('spin_rw_mutex', 'rw_mutex'):
        for fn in facts.get(D1N + cls + '::upgrade'):
            cas = set(o['s'] for _, o in ops_on(fn, 'm_state') if o['kind'] == 'cas')
            e = edges_where(fn, lambda a, truth: truth and fn.strip(a) in cas)
            us = calls_named(fn, ('unlock_shared',))
            lk = calls_named(fn, ('lock',))
            if not cas:
                raise AnalysisBroken('%s::upgrade: no CAS on m_state' % cls)
            for pos, s, node in fn.stmt_elems(('return',)):
                v = fn.cv(node.get('sub', -1))
                if v == 1:
                    ok, wit = dominated_by_edges(fn, pos, e)
                    ok = ok and not any(fn.can_reach(u[0], pos) for u in us)
                    rep.ob('D4', 'K4', fn, '`return true` only after the successful CAS and without releasing the read lock', ok,
                           'upgrade reports "not released" although another writer could have run in between: ' + wit, ln=node['ln'],
                           key_extra='t' + str(node['ln']))
                elif v == 0:
                    ok = bool(us) and bool(lk) and every_path_passes(fn, 'entry', lambda p, e2: p in set(u[0] for u in us), end=pos)[0] and \
                        every_path_passes(fn, 'entry', lambda p, e2: p in set(l[0] for l in lk), end=pos)[0] and \
                        all(every_path_passes(fn, 'entry', lambda p, e2: p in set(u[0] for u in us), end=l[0])[0] for l in lk)
                    rep.ob('D4', 'K4', fn, '`return false` only after unlock_shared() followed by lock()', ok,
                           'the slow path returns without holding the write lock', ln=node['ln'], key_extra='f' + str(node['ln']))
                else:
                    rep.ob('D4', 'K4', fn, 'upgrade returns a literal truth value', False, 'computed result', ln=node['ln'])
    for fn in facts.get(D1N + 'rw_scoped_lock::upgrade_to_writer'):
        up = calls_named(fn, ('upgrade',))
        asg = [(p, s) for p, s, l, r in assignments(fn) if last_member(fn, l) == 'm_is_writer' and fn.cv(r) == 1]
        ok = bool(up) and bool(asg) and all(every_path_passes(fn, 'entry', lambda p, e: p in set(a[0] for a in asg), end=u[0])[0] for u in up)
        rep.ob('D4', 'K4', fn, 'the scoped lock becomes a writer lock on both outcomes of upgrade()', ok, 'm_is_writer not set before upgrade()')
    rep.floor('D4', 4, 'upgrade')


def d5_raii(facts, rep):
    n = 0
    for p in ('unique_scoped_lock', 'rw_scoped_lock', 'queuing_mutex::scoped_lock', 'queuing_rw_mutex::scoped_lock'):
        for fn in facts.get(D1N + p + '::(dtor)'):
            rel = calls_named(fn, ('release',))
            e = edges_where(fn, lambda a, truth: truth and fn.n(fn.strip(a)).get('k') == 'member' and fn.n(fn.strip(a))['n'] in ('m_mutex', 'my_mutex'))
            ok = bool(rel) and bool(e) and all(dominated_by_edges(fn, r[0], e)[0] for r in rel)
            ok = ok and all(every_path_passes(fn, (fn.blocks[b]['succ'][si], -1), lambda q, el: is_call_to(fn, el, shortnames=('release',)))[0] for b, si in e)
            rep.ob('D5', 'K3', fn, 'the destructor releases exactly when a mutex is held', ok, 'scoped lock destructor does not release / releases nothing held')
            n += 1
    rep.floor('D5', 12, 'RAII + witnesses')


def d6_queue(facts, rep):
    for fn in facts.fns.values():
        if not ('queuing_mutex' in fn.p or 'queuing_rw_mutex' in fn.p):
            continue
        ws = [x for x in ops_on(fn, 'q_tail') if x[1]['kind'] in ('store', 'rmw', 'cas')]
        if not ws:
            continue
        ok = all(o['kind'] in ('rmw', 'cas') for _, o in ws)
        rep.ob('D6', 'K1', fn, 'q_tail changes only by exchange / compare-exchange', ok,
               'q_tail is stored plainly: two requesters can both believe they are the tail', key_extra=fn.p)
    # a queue node (the scoped_lock itself) is re-armed before it becomes visible: a function that enqueues its node by an
    # RMW on q_tail and later waits for the grant flag of that node must have stored 0 into that flag (and null into its next
    # link) on every path before the RMW.  The flag is set by the predecessor's release and never cleared by anyone else, so
    # a re-used scoped_lock would otherwise see the grant of its previous acquisition.
    nq = 0
    for fn in facts.fns.values():
        if not ('queuing_mutex' in fn.p or 'queuing_rw_mutex' in fn.p):
            continue
        enq = [x for x in ops_on(fn, 'q_tail') if x[1]['kind'] == 'rmw']      # exchange: unconditional enqueue (blocking acquire)
        if not enq:
            continue
        waits = [c for c in calls(fn) if (c[3] or {}).get('n', '').startswith('spin_wait') and c[2].get('a') and
                 last_member(fn, c[2]['a'][0]) in ('m_going', 'my_going')]
        if not waits:
            continue
        going = [x for x in ops_on(fn, 'm_going') + ops_on(fn, 'my_going') if x[1]['kind'] == 'store' and fn.cv(x[1].get('val', -1)) == 0]
        gp = set(p for p, _ in going)
        for pos, o in enq:
            nq += 1
            ok = bool(gp) and every_path_passes(fn, 'entry', lambda p, e: p in gp, end=pos)[0]
            rep.ob('D6', 'K4', fn, 'the grant flag of the own queue node is cleared before the node is enqueued', ok,
                   'the node is published with whatever its going flag held: a scoped_lock that was granted by hand-off before still '
                   'carries 1, so its next blocking acquire returns at once while the lock is held by another thread',
                   ln=o['ln'], key_extra='rearm:' + fn.p)
    if nq < 2:
        raise AnalysisBroken('D6: blocking enqueue sites with a grant wait found: %d (expected queuing_mutex and queuing_rw_mutex acquire)' % nq)
    rep.floor('D6', 7, 'q_tail writers + node re-arm')
