"""C17 - tbbmalloc blocks are disjoint, aligned, big enough and keep their contents.  NARROW CLAIM (DESIGN.md section 4, C17)"""
from engine.facts import AnalysisBroken, atomic_op, atomic_ops, has_acquire, has_release
from engine.rules import (calls, calls_named, every_path_passes, last_member, is_call_to, Defs, resolve_cond_source, oname,
                          edges_where, dominated_by_edges, member_accesses, root_of, assignments, value_root, atomics_on, lockset)
from rules.malloc_common import MALLOC_UNITS, errno_sets, var_of, nonnull_edges
from engine.rules import expr_key, sym_bound

UNITS = MALLOC_UNITS
RI = 'rml::internal::'

EXPLANATION = (
    'Narrow claim: the cross-thread free protocol and the zero/copy obligations only.  Decides: D1 own vs. foreign free: '
    'freeOwnObject is reached only on the isOwnedByCurrentThread() true edge and freePublicObject on the false edge; '
    'freePublicObject pushes by a compare-exchange loop with the link written before every attempt and mails the block exactly '
    'when the previous list head was null; privatizePublicFreeList takes the whole list by one exchange; readyToShare is a CAS; '
    'orphan adoption marks the new owner before privatising; D2 calloc/realloc obligations: scalable_calloc zero-fills the same '
    'number of bytes it allocated, only for a non-null result; reallocAligned copies min(old,new) bytes, frees the old block only '
    'when the new allocation succeeded and returns the old pointer unchanged on the in-place paths; D3 backend: free-bin lists '
    'are changed only under their MallocMutex; D4 a pointer that is moved inside its object (alignUp on a fresh allocation) comes '
    'from a request that the allocator serves from a slab: the request expression is bounded, on every path, strictly below the '
    'threshold at which internalPoolMalloc itself switches to large objects (caller/callee guard agreement).  Disjointness, alignment, msize >= request, size-class / bin arithmetic, boundary-tag coalescing and "never writes '
    'into a live block" are NOT decided.')
EXPLANATION += ' Added after the seeded-change rounds: ' + "D1 also: both branches of freeSmallObject link the START of the object (findObjectToFree at the call site or in the callee); D4: an internalPoolMalloc result whose address is moved (alignUp) comes from a request bounded strictly below internalPoolMalloc's own large-object threshold."
EXPLANATION += ' Added in the third session (round-3 seeds and the findings they led to): ' + 'D5: a region is remapped (mremap) only on a branch edge where it is known to hold a single block.'
EXPLANATION += ' Added in the fourth round of seeded changes: ' + 'D2 also: once the result of the allocation is known to be non-null every path of scalable_calloc to its return passes the memset.'
EXPLANATION += ' Added in the fifth round: ' + 'D2 also: the calloc overflow rules of C18-D1 (shared): the product of the factors is tested before the allocation and the exact test is skipped only when both factors are small.'
ASSUMPTIONS = ['FREELIST_NONBLOCKING configuration (the shipped one)', 'Linux configuration']
ND = ['disjointness of live blocks', 'alignment of results', 'scalable_msize >= request', 'size-class and bin arithmetic',
      'boundary-tag coalescing', 'never writing into a live block']
LOCKCLS = lambda c: c.endswith('scoped_lock')   # noqa: E731


def d5_remap_alone(facts, rep):
    """scalable_realloc of a large object may move / resize the whole OS mapping (mremap) instead of copying.  That is legal only
    for a region that holds this one block and nothing else (MEMREG_ONE_BLOCK): a region with several blocks contains other
    live objects and free-list links, which mremap would unmap, move or overwrite.  Rule: every call that remaps or unmaps
    a region on the realloc path (mremap) is dominated by a branch edge on which the region's type is known to be
    MEMREG_ONE_BLOCK.  (A MALLOC_ASSERT is not a branch in the shipped configuration.)"""
    n = 0
    for fn in facts.fns.values():
        if not fn.p.startswith(RI):
            continue
        rm = [c for c in calls(fn) if (c[3] or {}).get('n') == 'mremap']
        if not rm:
            continue
        asserts = fn.assertion_nodes()

        def alone(a, truth):
            x = fn.strip(a)
            if x in asserts:
                return False
            nd = fn.n(x)
            if nd.get('k') != 'binop' or nd['op'] not in ('==', '!='):
                return False
            sides = [fn.n(fn.strip(nd['l'])), fn.n(fn.strip(nd['r']))]
            has_type = any(last_member(fn, y) == 'type' for y in (nd['l'], nd['r']))
            one = any(sd.get('k') == 'enum' and sd.get('n') == 'MEMREG_ONE_BLOCK' for sd in sides) or \
                any(any(fn.nodes[z].get('k') == 'enum' and fn.nodes[z].get('n') == 'MEMREG_ONE_BLOCK' for z in fn.subtree(y)) for y in (nd['l'], nd['r']))
            return has_type and one and (truth == (nd['op'] == '=='))
        e = edges_where(fn, alone)
        for pos, sx, node, d in rm:
            n += 1
            ok, wit = dominated_by_edges(fn, pos, e)
            rep.ob('D5', 'K4', fn, 'a region is remapped (mremap) only when the block is alone in it (MEMREG_ONE_BLOCK)', ok,
                   'a large block that was carved from a multi-block region is the last block of a region that also holds other live '
                   'objects: remapping the region unmaps / moves / overwrites them (' + wit + ')', ln=node['ln'], key_extra='remap|%s' % node['ln'])
    if n < 1:
        raise AnalysisBroken('no mremap call found in the allocator back end (Backend::remap)')
    rep.floor('D5', 1, 'remap guard')


def run(facts, rep):
    d5_remap_alone(facts, rep)
    d1_free(facts, rep)
    d2_contents(facts, rep)
    d3_backend(facts, rep)
    d4_slab_shift(facts, rep)


def ops_on(fn, member, kinds=None):
    return [(p, o) for p, o in atomic_ops(fn) if o['kind'] != 'fence' and last_member(fn, o['obj']) == member and (kinds is None or o['kind'] in kinds)]


def d1_free(facts, rep):
    for fn in facts.get(RI + 'freeSmallObject'):
        own = set(c[1] for c in calls_named(fn, ('isOwnedByCurrentThread',)))
        te = edges_where(fn, lambda a, truth: truth and fn.strip(a) in own)
        fe = edges_where(fn, lambda a, truth: (not truth) and fn.strip(a) in own)
        fo = calls_named(fn, ('freeOwnObject',))
        fp = calls_named(fn, ('freePublicObject',))
        ok = bool(fo) and bool(fp) and all(dominated_by_edges(fn, c[0], te)[0] for c in fo) and all(dominated_by_edges(fn, c[0], fe)[0] for c in fp)
        rep.ob('D1', 'K4', fn, 'the owner frees into the private list, any other thread into the public list', ok,
               'a foreign thread can modify the owner\'s private free list (no synchronisation): the same object is handed out twice')
    # An over-aligned small object can be an interior address of its slab object (allocateAligned shifts it).  What is linked
    # into a free list must be the START of the object: on both branches of freeSmallObject the pointer that reaches the free
    # list went through findObjectToFree() - at the call site or inside the callee.
    from engine.rules import vars_initialised_from
    for fn in facts.get(RI + 'freeSmallObject'):
        conv = [c[1] for c in calls_named(fn, ('findObjectToFree',))]
        cvars = vars_initialised_from(fn, conv)
        for pos, sx, node, d in calls_named(fn, ('freeOwnObject', 'freePublicObject')):
            a = node.get('a', [])
            at_site = bool(a) and (bool(fn.subtree(a[0]) & set(conv)) or fn.n(fn.strip(a[0])).get('v') in cvars)
            g = facts.fns.get(node.get('fn'))
            in_callee = False
            if g is not None:
                gp = [p_['v'] for p_ in g.d.get('params', [])]
                for c2 in calls_named(g, ('findObjectToFree',)):
                    aa = c2[2].get('a', [])
                    if aa and g.n(g.strip(aa[0])).get('v') in gp:
                        in_callee = True
            rep.ob('D1', 'K7', fn, '%s receives the start of the object (findObjectToFree), not the user pointer' % d['n'], at_site or in_callee,
                   'the user pointer of a shifted over-aligned object is linked into the free list as it is: the next allocation from that '
                   'list returns an interior address - it overlaps the following object and scalable_msize is below the request',
                   ln=node['ln'], key_extra='conv' + d['n'])
    for fn in facts.get(RI + 'Block::freePublicObject'):
        ws = ops_on(fn, 'publicFreeList', ('store', 'rmw', 'cas'))
        cas = [(p, o) for p, o in ws if o['kind'] == 'cas']
        rep.ob('D1', 'K1', fn, 'the public free list is pushed by compare-exchange only', bool(cas) and len(cas) == len(ws),
               'publicFreeList changed by %s: concurrent frees lose objects' % ', '.join(o['name'] for _, o in ws))
        link = [(p, s) for p, s, l, r in assignments(fn) if last_member(fn, l) == 'next']
        ok = bool(link) and bool(cas)
        for cp, co in cas:
            ok = ok and every_path_passes(fn, 'entry', lambda p, e: p in set(x[0] for x in link), end=cp)[0]
            reached, ex, par = fn.walk(cp, stop_elem=lambda p, e: p in set(x[0] for x in link))
            ok = ok and cp not in reached
        rep.ob('D1', 'K4', fn, 'the object is linked to the observed head before every CAS attempt', ok,
               'a retry publishes an object whose next pointer is stale: part of the list is lost')
        defs = Defs(fn)
        mail = calls_named(fn, ('addPublicFreeListBlock',))

        old_head = set(fn.n(fn.strip(o['expected'])).get('v') for _, o in cas)     # the CAS's expected argument = previous head

        def was_empty(a, truth):
            n = fn.n(fn.strip(a))
            if n.get('k') == 'var' and n.get('v') in old_head:
                return not truth
            if n.get('k') != 'binop' or n['op'] not in ('==', '!='):
                return False
            l, r = fn.n(fn.strip(n['l'])), fn.n(fn.strip(n['r']))
            hit = (l.get('v') in old_head and l.get('k') == 'var' and r.get('null')) or (r.get('v') in old_head and r.get('k') == 'var' and l.get('null'))
            return hit and (truth == (n['op'] == '=='))
        we = edges_where(fn, was_empty)
        ok = bool(mail) and bool(we) and all(dominated_by_edges(fn, c[0], we)[0] for c in mail)
        rep.ob('D1', 'K4', fn, 'the block is mailed to its owner exactly when the public list was empty before the push', ok,
               'a block is put into the owner\'s mailbox twice (list corruption) or never (its freed objects are not reused)')
    for fn in facts.get(RI + 'Block::privatizePublicFreeList'):
        ws = ops_on(fn, 'publicFreeList', ('store', 'rmw', 'cas'))
        ok = len(ws) == 1 and ws[0][1]['kind'] == 'rmw' and ws[0][1]['name'] == 'exchange'
        rep.ob('D1', 'K1', fn, 'the owner takes the whole public list by one exchange', ok,
               'publicFreeList read and reset separately: objects freed in between are lost')
    for fn in facts.get(RI + 'Block::readyToShare'):
        ws = ops_on(fn, 'publicFreeList', ('store', 'rmw', 'cas'))
        rep.ob('D1', 'K1', fn, 'readyToShare marks the list UNUSABLE by compare-exchange', bool(ws) and all(o['kind'] == 'cas' for _, o in ws),
               ', '.join(o['name'] for _, o in ws))
    for fn in facts.get(RI + 'Block::privatizeOrphaned'):
        mk = calls_named(fn, ('markOwned',))
        pv = calls_named(fn, ('privatizePublicFreeList',))
        ok = bool(mk) and bool(pv) and all(every_path_passes(fn, 'entry', lambda p, e: p in set(c[0] for c in mk), end=c2[0])[0] for c2 in pv)
        rep.ob('D1', 'K4', fn, 'an adopted block is marked as owned before its public list is privatised', ok, 'ownership set after privatisation')
    rep.floor('D1', 6, 'cross-thread free protocol')


def d2_contents(facts, rep):
    for fn in facts.get('scalable_calloc'):
        im = calls_named(fn, ('internalMalloc',))
        ms = calls_named(fn, ('memset',))
        if not im or not ms:
            raise AnalysisBroken('scalable_calloc: internalMalloc / memset not found')
        defs = Defs(fn)
        size_arg = fn.n(fn.strip(im[0][2]['a'][0]))
        ok = True
        for c in ms:
            a = c[2].get('a', [])
            sz = fn.n(fn.strip(a[2])) if len(a) > 2 else {}
            ok = ok and fn.cv(a[1]) == 0 and sz.get('k') == 'var' and sz.get('v') == size_arg.get('v') and \
                defs.reaching(fn.pos_of(sz['s']), sz['v']) == defs.reaching(fn.pos_of(size_arg['s']), size_arg['v'])
            res = var_of(fn, a[0])
            ok = ok and res is not None and dominated_by_edges(fn, c[0], nonnull_edges(fn, res))[0]
        rep.ob('D2', 'K10', fn, 'calloc zero-fills exactly the byte count it allocated, and only a non-null block', ok,
               'memset size differs from the allocation size (tail not zeroed / overrun) or a null result is written')
        # ... and EVERY block it returns: once the result is known to be non-null, each path to the return passes the memset.
        # (a block of any size can come back dirty from a cache: the huge-object cache keeps freed blocks above the default
        # sieve size as soon as TBBMALLOC_SET_HUGE_SIZE_THRESHOLD is configured)
        res = var_of(fn, ms[0][2].get('a', [None])[0]) if ms[0][2].get('a') else None
        mpos = set(c[0] for c in ms)
        ne = nonnull_edges(fn, res) if res is not None else set()
        if not ne:
            raise AnalysisBroken('scalable_calloc: the null test of the result was not found')
        bad = []
        for (b, si) in sorted(ne):
            ok2, wit = every_path_passes(fn, (fn.blocks[b]['succ'][si], -1), lambda p_, e: p_ in mpos)
            if not ok2:
                bad.append(wit)
        rep.ob('D2', 'K1', fn, 'calloc zero-fills every non-null block it returns', not bad,
               'a path returns the block without the memset (%s): a block that is reused from a cache (any size once the huge size threshold '
               'is configured) comes back with its old contents' % '; '.join(bad[:2]), key_extra='always-zero')
    # a calloc whose product wrapped returns a block smaller than requested: the overflow rules of C18 are part of this clause too
    from rules.C18 import calloc_overflow
    calloc_overflow(facts, rep, 'D2')
    for fn in facts.get(RI + 'reallocAligned'):
        mc = calls_named(fn, ('memcpy',))
        fr = calls_named(fn, ('internalPoolFree',))
        if not mc or not fr:
            raise AnalysisBroken('reallocAligned: memcpy / internalPoolFree not found')
        ok = True
        for c in mc:
            a = c[2].get('a', [])
            sz = fn.n(fn.strip(a[2])) if len(a) > 2 else {}
            names = set(fn.nodes[x].get('n') for x in fn.subtree(a[2]) if fn.nodes[x].get('k') == 'var')
            ok = ok and sz.get('k') == 'cond' and {'copySize', 'newSize'} <= names
            cn = fn.n(fn.strip(sz.get('c', -1)))
            if ok:
                lt = cn.get('k') == 'binop' and cn['op'] in ('<', '<=') and fn.path(cn['l']) == 'copySize' and fn.path(cn['r']) == 'newSize' and \
                    fn.path(sz['l']) == 'copySize' and fn.path(sz['r']) == 'newSize'
                gt = cn.get('k') == 'binop' and cn['op'] in ('>', '>=') and fn.path(cn['l']) == 'copySize' and fn.path(cn['r']) == 'newSize' and \
                    fn.path(sz['l']) == 'newSize' and fn.path(sz['r']) == 'copySize'
                ok = lt or gt
        rep.ob('D2', 'K10', fn, 'realloc copies min(old size, new size) bytes', ok, 'copy length is not the minimum of the two sizes')
        res = None
        for c in mc:
            res = var_of(fn, c[2]['a'][0])
        ne = nonnull_edges(fn, res) if res is not None else set()
        ok2 = res is not None and all(dominated_by_edges(fn, c[0], ne)[0] for c in mc + fr)
        rep.ob('D2', 'K4', fn, 'the old block is copied from and freed only when the new allocation succeeded', ok2,
               'on allocation failure the old block is freed (realloc must leave it intact) or null is written')
        # in-place paths return the incoming pointer
        rets = [(p, s, nd) for p, s, nd in fn.stmt_elems(('return',)) if 'sub' in nd]
        inplace = [r for r in rets if fn.n(fn.strip(r[2]['sub'])).get('param') == 1]
        rep.ob('D2', 'K10', fn, 'shrinking in place returns the original pointer', len(inplace) >= 2, '%d in-place return(s)' % len(inplace))
    rep.floor('D2', 4, 'calloc / realloc obligations')


def d3_backend(facts, rep):
    n = 0
    for fn in facts.find(r'^rml::internal::Backend::IndexedBins::(addBlock|tryAddBlock|lockRemoveBlock|getFromBin|tryReleaseRegions)$'):
        before, info = lockset(fn, LOCKCLS)
        locks = set(info)
        pts = []
        for pos, s, l, r in assignments(fn):
            lm = last_member(fn, l)
            if lm in ('head', 'tail') and 'freeBins' in fn.path(l) or (lm in ('head', 'tail') and fn.n(root_of(fn, l)).get('n') in ('b', 'bin')):
                pts.append((pos, fn.n(s).get('ln')))
        for c in calls_named(fn, ('removeBlock',)):
            pts.append((c[0], c[2]['ln']))
        if not pts:
            continue
        n += 1
        ok = bool(locks) and all(before.get(p, frozenset()) & locks for p, _ in pts)
        rep.ob('D3', 'K5', fn, 'free-bin list is modified under the bin\'s MallocMutex', ok, 'bin list written without tLock (lines %s)' % [l for _, l in pts])
    for fn in facts.get(RI + 'Backend::askMemFromOS', required=False):
        pass
    if n < 2:
        raise AnalysisBroken('backend bin functions not found (%d)' % n)
    rep.floor('D3', 2, 'backend bins')



# ---------------------------------------------------------------------------------------------------------------
def upper_bound_edges(fn, ekey, sym, limit):
    """edges on which  E <= sym + limit  is known (E identified by its structural key)"""
    def pred(a, truth):
        n = fn.n(fn.strip(a))
        if n.get('k') != 'binop' or n['op'] not in ('<', '<=', '>', '>='):
            return False
        op, l, r = n['op'], n['l'], n['r']
        if expr_key(fn, r) == ekey:          # B op' E  ->  E op B
            op = {'<': '>', '<=': '>=', '>': '<', '>=': '<='}[op]
            l, r = r, l
        if expr_key(fn, l) != ekey:
            return False
        if not truth:
            op = {'<': '>=', '<=': '>', '>': '<=', '>=': '<'}[op]
        if op not in ('<', '<='):
            return False
        bsym, boff = sym_bound(fn, r)
        if bsym != sym:
            return False
        ub = boff - 1 if op == '<' else boff      # E <= ub
        return ub <= limit
    return edges_where(fn, pred)


def d4_slab_shift(facts, rep):
    """K7 guard agreement: scalable_free/msize find the header of a small object from any address inside it, but they
    find the header of a large object only from its start.  So a result of internalPoolMalloc may be moved (alignUp)
    only if the request is served from a slab, i.e. is below the size at which internalPoolMalloc switches to
    getFromLLOCache.  The threshold is read from the callee, the bound from the caller's dominating branch edges."""
    from engine.rules import vars_initialised_from, is_var
    thr = None
    for fn in facts.get(RI + 'internalPoolMalloc'):
        size_params = [p['v'] for p in fn.d.get('params', []) if 'size_t' in p['ty'] or 'unsigned long' in p['ty']]
        for pos, s, node, d in calls_named(fn, ('getFromLLOCache',)):
            for b, blk in fn.blocks.items():
                for si in (0, 1):
                    for a, truth in fn.edge_conds(b, si):
                        n = fn.n(fn.strip(a))
                        if n.get('k') == 'binop' and n['op'] in ('>=', '>') and truth and is_var(fn, n['l'], size_params):
                            if dominated_by_edges(fn, pos, {(b, si)})[0]:
                                sym, off = sym_bound(fn, n['r'])
                                thr = (sym, off if n['op'] == '>=' else off + 1)     # size >= sym+off  -> large object
    if thr is None:
        raise AnalysisBroken('internalPoolMalloc: the large-object dispatch (size >= threshold -> getFromLLOCache) was not found')
    n_sites = 0
    for fn in facts.fns.values():
        if not fn.q.startswith(RI) and not fn.q.startswith('rml::'):
            continue
        allocs = calls_named(fn, ('internalPoolMalloc',))
        if not allocs:
            continue
        for pos, s, node, d in allocs:
            vs = vars_initialised_from(fn, [s])
            shifted = [c for c in calls_named(fn, ('alignUp',)) if c[2].get('a') and
                       (is_var(fn, c[2]['a'][0], vs) or s in fn.subtree(c[2]['a'][0]))]
            if not shifted or len(node.get('a', [])) < 2:
                continue
            n_sites += 1
            ekey = expr_key(fn, node['a'][1])
            edges = upper_bound_edges(fn, ekey, thr[0], thr[1] - 1)
            ok, wit = dominated_by_edges(fn, pos, edges)
            rep.ob('D4', 'K7', fn, 'the allocation at line %s whose address is then moved inside the object is always served from a slab' % node['ln'],
                   ok, 'the request is not bounded strictly below the large-object threshold of internalPoolMalloc on every path: at the '
                   'boundary a large object is returned and shifted, and free/msize/realloc no longer find its header (' + wit + ')',
                   ln=node['ln'], key_extra=str(node['ln']))
    if n_sites == 0:
        raise AnalysisBroken('no internalPoolMalloc result is shifted by alignUp any more: the D4 rule has lost its site')
    rep.floor('D4', 1, 'shifted slab allocations')
